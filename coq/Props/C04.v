(* C04 -- NNX transforms keep Python reference semantics: same result and state as eager. *)
From Flaxm Require Import Lib.Harness Model.NnxFilters Model.Graph Model.UpdateCtx Proofs.Graph Proofs.UpdateCtx Proofs.GraphIso Proofs.CtxSim.

(* steps (1)-(2): all arguments are flattened with ONE ref_index, so the copies the function works on alias each
   other exactly like the caller's objects do -- also across arguments (an object passed twice, or reachable from two
   arguments, is one object inside) -- and have the same paths and shapes *)
Theorem C04_inner_copy_aliasing : forall h args g ls, flatten h (args_root args) = Some (g, ls) ->
  exists hi rooti, unflatten g (map snd ls) = Some (hi, rooti) /\
    (forall p u, at_path h (args_root args) p = Some u -> exists u', at_path hi rooti p = Some u' /\ shape hi u' = shape h u) /\
    (forall p q, same_object h (args_root args) p q <-> same_object hi rooti p q).
Proof. exact inner_copy. Qed.
Print Assumptions C04_inner_copy_aliasing.

(* step (4), for ANY graph the function leaves behind (added / removed / re-bound attributes, new objects, new
   aliasing, cycles) and any injective in-bounds placement: object number i of that graph ends up at location pi i as
   the same cell with its references renumbered and placed; nothing else in the caller's heap is touched *)
Theorem C04_writeback : forall hi v g ls ri, flatten_ri hi v = Some (g, ls, ri) ->
  exists v0, rv ri v = Some v0 /\
  forall pi hw, place_ok pi (length ri) (length hw) ->
    exists hw' ir', unflat_p pi g (hw, [], map snd ls) = Some (relocate pi v0, (hw', ir', [])) /\
      length hw' = length hw /\
      (forall l, (forall j, j < length ri -> pi j <> l) -> nth_error hw' l = nth_error hw l) /\
      (forall i l, nth_error ri i = Some l ->
         exists o0 o, nth_error hi l = Some o0 /\ ro ri o0 = Some o /\ nth_error hw' (pi i) = Some (relocate_obj pi o)).
Proof. exact writeback. Qed.
Print Assumptions C04_writeback.

(* ... with the placement the protocol uses: it is the caller's own objects that carry the changes (a copy made in
   step (2) is written back into the object it was copied from), objects created inside get locations the caller's
   heap did not have, and the caller's other objects keep their content *)
Theorem C04_merge_back : forall (h : heap) (ri1 : list loc) hi out3 g3 ls3 ri3,
  NoDup ri1 -> (forall lo, In lo ri1 -> lo < length h) ->
  flatten_ri hi out3 = Some (g3, ls3, ri3) ->
  let pi := fun i => nth i (placement ri1 ri3 (length h)) 0 in
  exists h' v0, rv ri3 out3 = Some v0 /\
    merge_back h ri1 ri3 g3 (map snd ls3) = Some (h', relocate pi v0) /\
    length h' = length h + count_new ri1 ri3 /\
    (forall l, l < length h -> (forall j, j < length ri3 -> pi j <> l) -> nth_error h' l = nth_error h l) /\
    (forall i l, nth_error ri3 i = Some l ->
       exists o0 o, nth_error hi l = Some o0 /\ ro ri3 o0 = Some o /\ nth_error h' (pi i) = Some (relocate_obj pi o)) /\
    (forall i l lo, nth_error ri3 i = Some l -> nth_error ri1 l = Some lo -> pi i = lo) /\
    (forall i l, nth_error ri3 i = Some l -> nth_error ri1 l = None -> length h <= pi i).
Proof. exact merge_back_spec. Qed.
Print Assumptions C04_merge_back.

(* THE property, for every function of the language (reads, Variable updates with arithmetic, setattr of statics /
   aliases / new Variables / new nodes, delattr), every heap, every tuple of possibly aliased arguments and every
   number of applications of the body: whenever the eager run and the protocol run (jit, remat: structure edits
   allowed) both complete, they are observed alike -- same returned value, same graph of (arguments, returned object)
   as graphdef + leaves (so: same types, statics, Variable values and metadata, same sharing and cycles), and every
   object of it is the same one of the caller's original objects in both, new objects being new in both *)
Theorem C04_ctx_equals_eager : forall f times h args e c oe oc,
  run_eager f times h args = Some e -> run_ctx true f times h args = Some c ->
  observe h args e = Some oe -> observe h args c = Some oc -> oe = oc.
Proof. exact ctx_equals_eager. Qed.
Print Assumptions C04_ctx_equals_eager.
(* cond / switch / while_loop / fori_loop / cached_partial: the same for functions that only update Variable values *)
Theorem C04_ctx_equals_eager_values_only : forall f times h args e c oe oc,
  run_eager f times h args = Some e -> run_ctx false f times h args = Some c ->
  observe h args e = Some oe -> observe h args c = Some oc -> oe = oc.
Proof. exact ctx_equals_eager_values_only. Qed.
Print Assumptions C04_ctx_equals_eager_values_only.

(* NOT proved: that the protocol run completes whenever the eager run does (the fuel of the model's flatten is
   sufficient), and that JAX evaluates the traced function like Python evaluates it; both are decided per run by the
   correspondence, which evaluates run_eager and run_ctx on every generated history and compares both with the real
   eager call and the real transform. *)

(* non-vacuity: two arguments that alias (the second is a child of the first and holds the same Param); the function
   updates the shared Param, adds a new Cache held by both nodes, deletes a static attribute and adds a new node *)
Definition ex_h : heap :=
  [ONode 1 [(1%N, VRef 1); (2%N, VRef 2); (9%N, VStatic 3)]; OVar 11 5 0; ONode 2 [(1%N, VRef 1); (7%N, VRef 0)]].
Definition ex_f : fn := mkFn
  [MSetVar [0%N; 1%N] (EAdd (ERead [1%N; 1%N]) (EConst 2));
   MSetAttr [0%N] 3%N (SNewVar 13 1 (EConst 7));
   MSetAttr [1%N] 8%N (SAlias [0%N; 3%N]);
   MDelAttr [0%N] 9%N;
   MSetAttr [1%N] 6%N (SNewNode 1)]
  (EMul (ERead [0%N; 1%N]) (EConst 3)) (Some [0%N; 2%N]).
Example C04_example :
  let args := [VRef 0; VRef 2] in
  match run_eager ex_f 1 ex_h args, run_ctx true ex_f 1 ex_h args with
  | Some e, Some c => observe ex_h args e = observe ex_h args c /\ snd (fst c) = 21%N /\
                      (* the caller's three objects carry the changes *)
                      option_map (fun o => fst (fst (fst o))) (observe ex_h args c) <> None /\
                      option_map (fun o => snd (fst o)) (observe ex_h args c) = Some [Some 0; Some 1; Some 2; None; None]
  | _, _ => False
  end.
Proof. vm_compute. repeat split; try reflexivity. discriminate. Qed.

(* non-vacuity for metadata edits: the shared Param gets another metadata set (3) and a new value inside the transform; the
   caller's Variable (location 1, reached through both arguments) carries both afterwards, as after the eager call *)
Example C04_metadata_example :
  let args := [VRef 0; VRef 2] in
  let f := mkFn [MSetMeta [1%N; 1%N] 3%N; MSetVar [0%N; 1%N] (EAdd (ERead [1%N; 1%N]) (EConst 4))] (ERead [0%N; 1%N]) None in
  match run_eager f 1 ex_h args, run_ctx true f 1 ex_h args with
  | Some e, Some c => observe ex_h args e = observe ex_h args c /\ snd (fst c) = 9%N /\
                      nth_error (fst (fst c)) 1 = Some (OVar 11 9 3)
  | _, _ => False
  end.
Proof. vm_compute. repeat split; reflexivity. Qed.
