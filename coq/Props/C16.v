(* C16 -- Flatten/unflatten of nested dicts and NNX State conversions are mutual inverses. *)
From Flaxm Require Import Lib.Harness Model.Flatten Proofs.Flatten Proofs.FlattenInv.

(* exactly inverse with keep_empty_nodes, for every is_leaf that does not declare the root a leaf *)
Theorem C16_unflatten_flatten_keep : forall kids il,
  wf (Node kids) = true -> il [] (Node kids) = false ->
  unflatten (flatten true il (Node kids)) = Some (Node kids).
Proof. exact unflatten_flatten_keep. Qed.
Print Assumptions C16_unflatten_flatten_keep.

(* up to removal of leafless sub-dicts without it *)
Theorem C16_unflatten_flatten : forall kids il,
  wf (Node kids) = true -> il [] (Node kids) = false ->
  unflatten (flatten false il (Node kids)) = Some (prune il (Node kids)).
Proof. exact unflatten_flatten_prune. Qed.
Print Assumptions C16_unflatten_flatten.

(* path_aware_map visits every leaf once with its full path and preserves structure (empty sub-dicts too) *)
Theorem C16_path_aware_map : forall kids g,
  wf (Node kids) = true -> path_aware_map g (Node kids) = Some (tmap g (Node kids)).
Proof. exact path_aware_map_spec. Qed.
Print Assumptions C16_path_aware_map.

(* separator-joined keys: same round trips for every single-byte separator occurring in no key *)
Theorem C16_split_join : forall c p, p <> [] -> Forall (key_free c) p -> split [c] (join [c] p) = p.
Proof. exact split_join. Qed.
Print Assumptions C16_split_join.
Theorem C16_sep_roundtrip : forall c keep il kids,
  keys_all (key_free c) (Node kids) -> il [] (Node kids) = false ->
  unflatten_sep [c] (flatten_sep [c] keep il (Node kids)) = unflatten (flatten keep il (Node kids)).
Proof. exact unflatten_sep_flatten_sep. Qed.
Print Assumptions C16_sep_roundtrip.
Theorem C16_join_injective : forall c p q, p <> [] -> q <> [] -> Forall (key_free c) p -> Forall (key_free c) q ->
  join [c] p = join [c] q -> p = q.
Proof. exact join_injective. Qed.
Print Assumptions C16_join_injective.

(* refuted corners, recorded as known findings F10 / F13 *)
Theorem C16_root_leaf_refuted : forall t il, il [] t = true \/ (exists a, t = Leaf a) -> unflatten (flatten true il t) = None.
Proof. exact root_leaf_refuted. Qed.
Print Assumptions C16_root_leaf_refuted.
Theorem C16_multichar_sep_refuted :
  let s := 47%N in split [s; s] (join [s; s] [[97%N; s]; [98%N]]) = [[97%N]; [s; 98%N]].
Proof. exact multichar_sep_refuted. Qed.

(* the other direction: a flat dict whose keys are non-empty and prefix-free (pfreeb: no key is a prefix of or equal to
   another -- what flatten_dict emits) and whose values are leaves or the empty-node sentinel is rebuilt by
   unflatten_dict into a well-formed nested dict that flattens back (keep_empty_nodes=True) to exactly the same
   entries; the paths flatten emits are pairwise different, so the result is a permutation of the input (dict
   insertion order groups siblings, so the order itself may differ) *)
Theorem C16_flatten_unflatten : forall l, pfreeb l = true -> Forall (fun e => fst e <> [] /\ lv (snd e)) l ->
  exists kids, unflatten l = Some (Node kids) /\ wf (Node kids) = true /\
    forall e, In e (flatten true no_leaf (Node kids)) <-> In e l.
Proof. exact flatten_unflatten. Qed.
Print Assumptions C16_flatten_unflatten.
Theorem C16_flatten_paths_distinct : forall t, wf t = true -> NoDup (map fst (flatten true no_leaf t)).
Proof. exact flatten_paths_distinct. Qed.
Print Assumptions C16_flatten_paths_distinct.
(* non-vacuity: entries given out of traversal order, a shared prefix, an empty node *)
Example C16_flatten_unflatten_example :
  let l := [([[98%N]; [99%N]], VTree (Leaf 1%N)); ([[97%N]], VEmpty); ([[98%N]; [97%N]; []], VTree (Leaf 2%N))] in
  pfreeb l = true /\
  option_map (flatten true no_leaf) (unflatten l) =
    Some [([[98%N]; [99%N]], VTree (Leaf 1%N)); ([[98%N]; [97%N]; []], VTree (Leaf 2%N)); ([[97%N]], VEmpty)].
Proof. vm_compute. split; reflexivity. Qed.

(* State set laws on flat states (paths pairwise different within one state) *)
Theorem C16_merge_later_wins : forall p ss, Forall paths_nodup ss -> flookup p (merge_flat ss) = last_hit p ss.
Proof. exact merge_later_wins. Qed.
Print Assumptions C16_merge_later_wins.
Theorem C16_merge_inverse_of_split : forall (idx : path * N -> nat) n s p,
  paths_nodup s -> (forall e, In e s -> idx e < n) ->
  flookup p (merge_flat (map (fun i => filter (fun e => Nat.eqb (idx e) i) s) (seq 0 n))) = flookup p s.
Proof. exact merge_inverse_of_split. Qed.
Print Assumptions C16_merge_inverse_of_split.
Theorem C16_diff_exact : forall a b p v, In (p, v) (diff_flat a b) <-> In (p, v) a /\ ~ In p (map fst b).
Proof. exact diff_exact. Qed.
Print Assumptions C16_diff_exact.

(* non-vacuity: a tree with an empty sub-dict and shared key prefixes *)
Example C16_example :
  let t := Node [([97%N], Node [([98%N], Leaf 1%N); ([], Node [])]); ([97%N; 97%N], Leaf 2%N)] in
  wf t = true /\ unflatten (flatten true no_leaf t) = Some t /\
  unflatten (flatten false no_leaf t) = Some (Node [([97%N], Node [([98%N], Leaf 1%N)]); ([97%N; 97%N], Leaf 2%N)]).
Proof. vm_compute. repeat split; reflexivity. Qed.
