(* C05 -- Lifted jit/remat/cond/switch/while_loop/map_variables act like the plain code. *)
From Flaxm Require Import Lib.Harness Model.Filters Model.Linen Model.Lift Proofs.Lift Proofs.Linen Proofs.LinenInit Proofs.LinenChild Model.LiftCtl Proofs.LiftCtl.

(* lift.pack, the building block of every lifted transform, for ANY transformed function (body), filters and variables: *)

(* the function sees exactly the collections some `variables` filter matches, each in the group of the first filter
   that matches it; other collections do not exist inside *)
Theorem C05_lifted_view : forall xs in_fs cv, In cv (inner_vars xs in_fs) <-> In cv xs /\ any_filter in_fs (fst cv) = true.
Proof. exact lifted_present. Qed.
Print Assumptions C05_lifted_view.
Theorem C05_group_first_match : forall fs xs i g cv, nth_error (cgroup xs fs) i = Some g -> In cv g ->
  (exists f, nth_error fs i = Some f /\ in_filter f (fst cv) = true) /\
  (forall j h, j < i -> nth_error fs j = Some h -> in_filter h (fst cv) = false).
Proof. exact cgroup_first_match. Qed.
Print Assumptions C05_group_first_match.

(* collections that are not lifted, not mutable in the calling scope, or not selected for output stay untouched,
   whatever the function does (a write to them raises inside: the inner scope's mutability is inner_mutable) *)
Theorem C05_unlifted_untouched : forall Y body om in_fs out_fs mf xs y xs' c,
  pack Y body om in_fs out_fs mf xs = POk Y y xs' -> inner_mutable om out_fs mf c = false -> cv_get c xs' = cv_get c xs.
Proof. exact pack_untouched. Qed.
Print Assumptions C05_unlifted_untouched.

(* repack's "unmapped output variables" error is unreachable *)
Theorem C05_never_unmapped : forall Y body om in_fs out_fs mf xs, pack Y body om in_fs out_fs mf xs <> PUnmapped Y.
Proof. exact pack_never_unmapped. Qed.
Print Assumptions C05_never_unmapped.

(* with the default filters the function runs on the calling scope's own variables and mutability ... *)
Theorem C05_default_view : forall om xs, inner_vars xs [FBool true] = xs /\ forall c, inner_mutable om [FBool true] (fun _ => true) c = om c.
Proof. exact pack_default_view. Qed.
Print Assumptions C05_default_view.
(* ... and its writes come back entry by entry: what it returned overrides, everything else of the collection stays *)
Theorem C05_publish_entries : forall new old k, NoDup (map fst new) ->
  nassoc k (put_entries old new) = match nassoc k new with Some v => Some v | None => nassoc k old end.
Proof. exact put_entries_get. Qed.
Print Assumptions C05_publish_entries.

(* NOT proved: that the jitted / rematerialised / branched body computes what the Python body computes (JAX), the
   class-name change of transformed classes, the RNG fork of nn.jit and the jit cache: decided per run by the
   correspondence (Model/Linen.v on the plain equivalent vs the lifted program on the real code, plus lifted vs
   plain on the real code). *)

(* an identity lift (nn.remat, nn.map_variables with identity functions, the variable side of nn.jit) does not change what
   a child computes: pack hands the child the dicts its scope holds (C05_default_view: all of them, same mutability), runs
   it as a root and publishes what it leaves back under the scope entry by entry (C05_publish_entries).  On the Linen
   reference semantics the plain run IS that, for every module program, scope path, input and variables: same output,
   below the scope path exactly what the packed run leaves, and no value outside the scope path changes *)
Theorem C05_identity_lift_is_transparent : forall ev fuel cls p x V cs tr y sA',
  scope_ok p V -> run_call fuel ev cls p x (mkSt V cs tr) = Ok (y, sA') ->
  exists sB', run_call fuel ev cls [] x (mkSt (subtree p V) [] []) = Ok (y, sB') /\
              (forall c q nm, get_var (s_vars sA') c (p ++ q) nm = get_var (s_vars sB') c q nm) /\
              (forall c Q M, is_prefix p Q = false -> get_var (s_vars sA') c Q M = get_var V c Q M).
Proof. exact lift_is_transparent. Qed.
Print Assumptions C05_identity_lift_is_transparent.
(* a module running at a scope path only writes below it *)
Theorem C05_writes_stay_below_the_scope : forall ev p fuel cls q x s y s',
  run_call fuel ev cls (p ++ q) x s = Ok (y, s') -> forall c Q M, is_prefix p Q = false -> get_var (s_vars s') c Q M = get_var (s_vars s) c Q M.
Proof. exact run_call_outside. Qed.
Print Assumptions C05_writes_stay_below_the_scope.

(* ---- lift.cond / lift.switch / lift.while_loop (Model/LiftCtl.v) ----
   cveq: the variables of two scopes agree entry by entry; cwf: names pairwise different; wb: a function written against the
   Scope API (depends on mutability pointwise, leaves immutable collections alone, never deletes a variable) *)

(* a successful lifted switch with the default variables=True is the selected branch run on the scope itself: same result,
   same variables afterwards -- whatever the other branches are (they only have to trace and agree in structure) *)
Theorem C05_switch_is_selected_branch : forall Y bs idx om xs y xs' b0,
  lift_switch Y bs idx (FBool true) om xs = POk Y y xs' -> cwf xs -> wb Y (nth (Nat.min idx (length bs - 1)) bs b0) ->
  exists w, nth (Nat.min idx (length bs - 1)) bs b0 xs om = Some (y, w) /\ cveq xs' w.
Proof. exact switch_transparent. Qed.
Print Assumptions C05_switch_is_selected_branch.
Theorem C05_cond_is_if : forall Y (pred : bool) ft ff om xs y xs',
  lift_cond Y pred ft ff (FBool true) om xs = POk Y y xs' -> cwf xs -> wb Y (if pred then ft else ff) ->
  exists w, (if pred then ft else ff) xs om = Some (y, w) /\ cveq xs' w.
Proof. exact cond_transparent. Qed.
Print Assumptions C05_cond_is_if.
(* collections the branches cannot mutate (not selected by `variables`, or immutable in the caller) stay untouched *)
Theorem C05_switch_frame : forall Y bs idx vf om xs y xs' c,
  lift_switch Y bs idx vf om xs = POk Y y xs' -> inner_mutable om [vf] (fun _ => true) c = false -> cv_get c xs' = cv_get c xs.
Proof. exact switch_frame. Qed.
Print Assumptions C05_switch_frame.

(* ... and the lifted call does not fail on its own: when every branch runs through on the scope it is given and all branches
   leave the mutable collections in one structure (what lax.cond / lax.switch demand), it succeeds *)
Theorem C05_switch_total : forall Y bs idx vf om xs, bs <> [] ->
  (forall b, In b bs -> exists y gs, branch_out Y om vf xs b = Some (y, gs)) ->
  (forall b b' y gs y' gs', In b bs -> In b' bs -> branch_out Y om vf xs b = Some (y, gs) -> branch_out Y om vf xs b' = Some (y', gs') ->
     cshape (concat gs) = cshape (concat gs')) ->
  exists y xs', lift_switch Y bs idx vf om xs = POk Y y xs'.
Proof. exact switch_total. Qed.
Print Assumptions C05_switch_total.

(* while_loop with broadcast_variables=True equals the Python loop on the scope in which the body may mutate exactly the
   carried collections the caller may mutate: same final carry, same variables afterwards; for every condition and body that
   observe variables entry by entry and leave immutable collections alone, every trip count *)
Theorem C05_while_is_python_loop : forall C cond_fn body_fn,
  (forall v v' m c, cveq v v' -> cond_fn v m c = cond_fn v' m c) ->
  (forall v v' m m' c, cveq v v' -> (forall x, m x = m' x) ->
     match body_fn v m c, body_fn v' m' c with
     | Some (c1, w), Some (c2, w') => c1 = c2 /\ cveq w w'
     | None, None => True
     | _, _ => False
     end) ->
  (forall v m c c1 w, body_fn v m c = Some (c1, w) -> forall col k, m col = false -> cv_entry w col k = cv_entry v col k) ->
  forall om cf xs, cwf xs -> forall fuel (c0 c : C) xs',
  lift_while C cond_fn body_fn fuel om cf (FBool true) xs c0 = Some (POk C c xs') ->
  exists cur, ploop C cond_fn body_fn fuel (fun col => om col && in_filter cf col) xs c0 = Some (Some (c, cur)) /\ cveq xs' cur.
Proof. exact while_is_loop. Qed.
Print Assumptions C05_while_is_python_loop.
(* ... and the other way round: when the Python loop succeeds, the body keeps the structure of the collections it may mutate
   (lax.while_loop demands it) and its traced first evaluation succeeds, the lifted loop succeeds with the same carry and
   variables *)
Theorem C05_python_loop_is_while : forall C cond_fn body_fn,
  (forall v v' m c, cveq v v' -> cond_fn v m c = cond_fn v' m c) ->
  (forall v v' m m' c, cveq v v' -> (forall x, m x = m' x) ->
     match body_fn v m c, body_fn v' m' c with
     | Some (c1, w), Some (c2, w') => c1 = c2 /\ cveq w w'
     | None, None => True
     | _, _ => False
     end) ->
  (forall v m c c1 w, body_fn v m c = Some (c1, w) -> forall col k, m col = false -> cv_entry w col k = cv_entry v col k) ->
  forall om cf xs, cwf xs ->
  (forall v c c1 w, body_fn v (inner_mutable om [cf] (fun _ => true)) c = Some (c1, w) ->
     cshape (filter (fun cv => inner_mutable om [cf] (fun _ => true) (fst cv)) w) =
     cshape (filter (fun cv => inner_mutable om [cf] (fun _ => true) (fst cv)) v)) ->
  forall fuel (c0 c : C) cur r,
  wbody C body_fn (inner_mutable om [cf] (fun _ => true)) cf (filter (fun cv => in_filter cf (fst cv)) xs)
        (filter (fun cv => negb (in_filter cf (fst cv))) xs) c0 = Some r ->
  ploop C cond_fn body_fn fuel (fun col => om col && in_filter cf col) xs c0 = Some (Some (c, cur)) ->
  exists xs', lift_while C cond_fn body_fn fuel om cf (FBool true) xs c0 = Some (POk C c xs') /\ cveq xs' cur.
Proof. exact loop_is_while. Qed.
Print Assumptions C05_python_loop_is_while.
(* ... in particular for every program of the statement language the correspondence check runs on the real lift.while_loop *)
Theorem C05_while_is_python_loop_for_programs : forall cond limit body fuel om cf xs c0 c xs', cwf xs ->
  lift_while Z (kcond cond limit) (krun body) fuel om cf (FBool true) xs c0 = Some (POk Z c xs') ->
  exists cur, ploop Z (kcond cond limit) (krun body) fuel (fun col => om col && in_filter cf col) xs c0 = Some (Some (c, cur)) /\ cveq xs' cur.
Proof. exact kwhile_is_loop. Qed.
Print Assumptions C05_while_is_python_loop_for_programs.
(* the structure hypothesis of C05_python_loop_is_while is met by programs that only overwrite variables that exist *)
Theorem C05_overwrite_only_programs_keep_structure : forall ss v m cr c1 w,
  puts_existing ss v = true -> krun ss v m cr = Some (c1, w) -> cshape w = cshape v.
Proof. exact krun_keeps_shape. Qed.
Print Assumptions C05_overwrite_only_programs_keep_structure.
Theorem C05_programs_are_well_behaved : forall ss c0, wb Z (fun xs m => krun ss xs m c0).
Proof. exact krun_wb. Qed.
Print Assumptions C05_programs_are_well_behaved.
(* whatever the filters and the body: collections that are not carried, or that the caller cannot mutate, stay untouched *)
Theorem C05_while_frame : forall C cond_fn body_fn om cf xs fuel bf (c0 c : C) xs' col,
  lift_while C cond_fn body_fn fuel om cf bf xs c0 = Some (POk C c xs') -> om col && in_filter cf col = false -> cv_get col xs' = cv_get col xs.
Proof. exact while_frame. Qed.
Print Assumptions C05_while_frame.
(* non-vacuity: a three-trip loop that accumulates the carry into a carried collection and reads a broadcast one *)
Example C05_while_example :
  let xs : cvars := [(1%N, [(NExp 3, VLeaf (SVec [2%Z]))]); (2%N, [(NExp 1, VLeaf (SVec [0%Z]))])] in
  let body := [KPut 2 1 (XAdd (XVar 2 1) (XMul XCarry (XVar 1 3))); KCarry (XAdd XCarry (XConst 1))] in
  cwf xs /\
  lift_while Z (kcond XCarry 3) (krun body) 10 (fun _ => true) (FSet [2%N]) (FBool true) xs 0%Z =
    Some (POk Z 3%Z [(1%N, [(NExp 3, VLeaf (SVec [2%Z]))]); (2%N, [(NExp 1, VLeaf (SVec [6%Z]))])]).
Proof. split; [split; repeat constructor; simpl; intuition discriminate|vm_compute; reflexivity]. Qed.

Example C05_example :
  let xs : cvars := [(1%N, [(NExp 1, VLeaf (SVec [1%Z]))]); (2%N, [(NExp 2, VLeaf (SVec [2%Z]))]); (3%N, [(NExp 3, VLeaf (SVec [3%Z]))])] in
  (* the function bumps everything it sees; collection 3 is not lifted, collection 1 is not mutable *)
  let body := fun (v : cvars) (m : N -> bool) => Some (tt, map (fun ck => (fst ck, [(NExp 9, VLeaf (SVec [9%Z]))])) v) in
  pack unit body (fun c => N.eqb c 2) [FSet [1; 2]%N] [FBool true] (fun _ => true) xs =
  POk unit tt [(1%N, [(NExp 1, VLeaf (SVec [1%Z]))]); (2%N, [(NExp 2, VLeaf (SVec [2%Z])); (NExp 9, VLeaf (SVec [9%Z]))]); (3%N, [(NExp 3, VLeaf (SVec [3%Z]))])].
Proof. vm_compute. reflexivity. Qed.
