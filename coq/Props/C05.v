(* C05 -- Lifted jit/remat/cond/switch/while_loop/map_variables act like the plain code. *)
From Flaxm Require Import Lib.Harness Model.Filters Model.Linen Model.Lift Proofs.Lift Proofs.Linen Proofs.LinenInit Proofs.LinenChild.

(* lift.pack, the building block of every lifted transform, for ANY transformed function (body), filters and variables: *)

(* the function sees exactly the collections some `variables` filter matches, each in the group of the first filter
   that matches it; other collections do not exist inside *)
Theorem C05_lifted_view : forall xs in_fs cv, In cv (inner_vars xs in_fs) <-> In cv xs /\ any_filter in_fs (fst cv) = true.
Proof. exact lifted_present. Qed.
Print Assumptions C05_lifted_view.
Theorem C05_group_first_match : forall fs xs i g cv, nth_error (cgroup xs fs) i = Some g -> In cv g ->
  (exists f, nth_error fs i = Some f /\ in_filter f (fst cv) = true) /\
  (forall j h, j < i -> nth_error fs j = Some h -> in_filter h (fst cv) = false).
Proof. exact cgroup_first_match. Qed.
Print Assumptions C05_group_first_match.

(* collections that are not lifted, not mutable in the calling scope, or not selected for output stay untouched,
   whatever the function does (a write to them raises inside: the inner scope's mutability is inner_mutable) *)
Theorem C05_unlifted_untouched : forall Y body om in_fs out_fs mf xs y xs' c,
  pack Y body om in_fs out_fs mf xs = POk Y y xs' -> inner_mutable om out_fs mf c = false -> cv_get c xs' = cv_get c xs.
Proof. exact pack_untouched. Qed.
Print Assumptions C05_unlifted_untouched.

(* repack's "unmapped output variables" error is unreachable *)
Theorem C05_never_unmapped : forall Y body om in_fs out_fs mf xs, pack Y body om in_fs out_fs mf xs <> PUnmapped Y.
Proof. exact pack_never_unmapped. Qed.
Print Assumptions C05_never_unmapped.

(* with the default filters the function runs on the calling scope's own variables and mutability ... *)
Theorem C05_default_view : forall om xs, inner_vars xs [FBool true] = xs /\ forall c, inner_mutable om [FBool true] (fun _ => true) c = om c.
Proof. exact pack_default_view. Qed.
Print Assumptions C05_default_view.
(* ... and its writes come back entry by entry: what it returned overrides, everything else of the collection stays *)
Theorem C05_publish_entries : forall new old k, NoDup (map fst new) ->
  nassoc k (put_entries old new) = match nassoc k new with Some v => Some v | None => nassoc k old end.
Proof. exact put_entries_get. Qed.
Print Assumptions C05_publish_entries.

(* NOT proved: that the jitted / rematerialised / branched body computes what the Python body computes (JAX), the
   class-name change of transformed classes, the RNG fork of nn.jit and the jit cache: decided per run by the
   correspondence (Model/Linen.v on the plain equivalent vs the lifted program on the real code, plus lifted vs
   plain on the real code). *)

(* an identity lift (nn.remat, nn.map_variables with identity functions, the variable side of nn.jit) does not change what
   a child computes: pack hands the child the dicts its scope holds (C05_default_view: all of them, same mutability), runs
   it as a root and publishes what it leaves back under the scope entry by entry (C05_publish_entries).  On the Linen
   reference semantics the plain run IS that, for every module program, scope path, input and variables: same output,
   below the scope path exactly what the packed run leaves, and no value outside the scope path changes *)
Theorem C05_identity_lift_is_transparent : forall ev fuel cls p x V cs tr y sA',
  scope_ok p V -> run_call fuel ev cls p x (mkSt V cs tr) = Ok (y, sA') ->
  exists sB', run_call fuel ev cls [] x (mkSt (subtree p V) [] []) = Ok (y, sB') /\
              (forall c q nm, get_var (s_vars sA') c (p ++ q) nm = get_var (s_vars sB') c q nm) /\
              (forall c Q M, is_prefix p Q = false -> get_var (s_vars sA') c Q M = get_var V c Q M).
Proof. exact lift_is_transparent. Qed.
Print Assumptions C05_identity_lift_is_transparent.
(* a module running at a scope path only writes below it *)
Theorem C05_writes_stay_below_the_scope : forall ev p fuel cls q x s y s',
  run_call fuel ev cls (p ++ q) x s = Ok (y, s') -> forall c Q M, is_prefix p Q = false -> get_var (s_vars s') c Q M = get_var (s_vars s) c Q M.
Proof. exact run_call_outside. Qed.
Print Assumptions C05_writes_stay_below_the_scope.

Example C05_example :
  let xs : cvars := [(1%N, [(NExp 1, VLeaf (SVec [1%Z]))]); (2%N, [(NExp 2, VLeaf (SVec [2%Z]))]); (3%N, [(NExp 3, VLeaf (SVec [3%Z]))])] in
  (* the function bumps everything it sees; collection 3 is not lifted, collection 1 is not mutable *)
  let body := fun (v : cvars) (m : N -> bool) => Some (tt, map (fun ck => (fst ck, [(NExp 9, VLeaf (SVec [9%Z]))])) v) in
  pack unit body (fun c => N.eqb c 2) [FSet [1; 2]%N] [FBool true] (fun _ => true) xs =
  POk unit tt [(1%N, [(NExp 1, VLeaf (SVec [1%Z]))]); (2%N, [(NExp 2, VLeaf (SVec [2%Z])); (NExp 9, VLeaf (SVec [9%Z]))]); (3%N, [(NExp 3, VLeaf (SVec [3%Z]))])].
Proof. vm_compute. reflexivity. Qed.
