From Flaxm Require Import Lib.Harness Model.Graph.
Example C03_placeholder : True. Proof. exact I. Qed.
