(* C03 -- NNX split/merge round-trips any object graph, preserving sharing and cycles. *)
From Coq Require Import Permutation Lia.
From Flaxm Require Import Lib.Harness Model.NnxFilters Model.Graph Model.UpdateCtx Proofs.Graph Proofs.UpdateCtx Proofs.GraphIso Proofs.GraphTotal.

(* merge(split(g)) is isomorphic to g, for EVERY heap and root (cycles, self references, shared Variables, nested
   containers): ri numbers the reachable reference objects without repetition, the rebuilt heap has exactly one cell
   per reachable object, cell i being the cell of object ri[i] with every reference replaced by its number *)
Theorem C03_roundtrip_iso : forall h v g ls, flatten h v = Some (g, ls) ->
  exists ri h' v', unflatten g (map snd ls) = Some (h', v') /\ iso h v ri h' v'.
Proof. exact roundtrip_iso. Qed.
Print Assumptions C03_roundtrip_iso.

(* ... hence the same paths exist before and after, lead to the same kind of thing (node type and attribute names,
   Variable type / value / metadata, static value, array), and two paths reach one object afterwards exactly when
   they did before *)
Theorem C03_roundtrip_paths : forall h v g ls, flatten h v = Some (g, ls) ->
  exists h' v', unflatten g (map snd ls) = Some (h', v') /\
    (forall p u, at_path h v p = Some u -> exists u', at_path h' v' p = Some u' /\ shape h' u' = shape h u) /\
    (forall p u', at_path h' v' p = Some u' -> exists u, at_path h v p = Some u /\ shape h' u' = shape h u) /\
    (forall p q, same_object h v p q <-> same_object h' v' p q).
Proof. exact roundtrip_paths. Qed.
Print Assumptions C03_roundtrip_paths.

(* the numbering that carries the isomorphism is injective *)
Theorem C03_numbering_injective : forall l1 l2 ri i, index_of l1 ri = Some i -> index_of l2 ri = Some i -> l1 = l2.
Proof. exact index_of_inj. Qed.
Print Assumptions C03_numbering_injective.

(* (graphdef, leaves) is a canonical form: heaps related by ANY injective renaming of the reachable objects flatten to the
   same graphdef and leaves; in particular flatten after unflatten gives back exactly what was unflattened *)
Theorem C03_flatten_iso : forall phi (D : loc -> Prop) h h' v g ls g' ls',
  (forall a b, D a -> D b -> phi a = phi b -> a = b) ->
  (forall l, D l -> exists o, nth_error h l = Some o /\ nth_error h' (phi l) = Some (relocate_obj phi o) /\ closed_obj D o) ->
  closed_val D v -> flatten h v = Some (g, ls) -> flatten h' (relocate phi v) = Some (g', ls') -> g = g' /\ ls = ls'.
Proof. exact flatten_iso. Qed.
Print Assumptions C03_flatten_iso.
Theorem C03_flatten_unflatten_id : forall h v g ls, flatten h v = Some (g, ls) ->
  exists h' v', unflatten g (map snd ls) = Some (h', v') /\ forall g' ls', flatten h' v' = Some (g', ls') -> g' = g /\ ls' = ls.
Proof. exact flatten_unflatten_id. Qed.
Print Assumptions C03_flatten_unflatten_id.

(* flatten is total on closed heaps: with the fuel the model gives itself the traversal never runs out and never meets a
   dangling reference, for every heap in which every reference points inside the heap -- cycles, self references and
   shared objects included (an object is entered only while it is not yet in ref_index).  The round-trip theorems above
   therefore apply to every closed graph, not only to those on which flatten happens to succeed. *)
Theorem C03_flatten_total : forall h v, heap_closed h -> closed_val (inb h) v -> exists g ls, flatten h v = Some (g, ls).
Proof. exact flatten_total. Qed.
Print Assumptions C03_flatten_total.

Example C03_flatten_total_example :
  let h := [ONode 1 [(1%N, VRef 1); (2%N, VRef 0)]; ONode 2 [(1%N, VRef 0); (3%N, VTree 1 [(0%N, VRef 2); (1%N, VRef 1)])]; OVar 11 7 0] in
  heap_closed h /\ closed_val (inb h) (VRef 0) /\ flatten h (VRef 0) <> None.
Proof. split; [|split]; [repeat constructor; vm_compute; lia| vm_compute; lia | vm_compute; discriminate]. Qed.

(* splitting with filters partitions the leaves: nothing lost or duplicated, each leaf in the state of its first
   matching filter and in no other; a leaf no filter matches makes split raise *)
Theorem C03_split_partitions : forall ti fs ls bs, split_leaves ti fs ls = Some bs ->
  length bs = length fs /\ Permutation (concat bs) ls /\
  (forall i b x, nth_error bs i = Some b -> In x b -> first_idx fs (leaf_view ti x 0) = i) /\
  (forall x, In x ls -> first_idx fs (leaf_view ti x 0) < length fs).
Proof. exact split_leaves_spec. Qed.
Print Assumptions C03_split_partitions.
Theorem C03_split_first_match : forall ti fs ls bs i b x,
  split_leaves ti fs ls = Some bs -> nth_error bs i = Some b -> In x b ->
  (exists f, nth_error fs i = Some f /\ denote f (leaf_view ti x 0) = true) /\
  (forall j g, j < i -> nth_error fs j = Some g -> denote g (leaf_view ti x 0) = false) /\
  (forall j b', nth_error bs j = Some b' -> In x b' -> j = i).
Proof. exact split_first_match. Qed.
Print Assumptions C03_split_first_match.

(* merging the states in any argument order gives the same result (distinct leaves have distinct paths) *)
Theorem C03_merge_any_order : forall g ss ss', Permutation ss ss' -> NoDup (map fst (concat ss)) -> merge g ss = merge g ss'.
Proof. exact merge_any_order. Qed.
Print Assumptions C03_merge_any_order.

(* flatten emits the leaves in strictly increasing path order whenever sibling keys are sorted (they are: Object
   sorts vars(), dict keys are sorted, list indices ascend; wf_heap / wf_value are evaluated on every generated graph) *)
Theorem C03_leaf_order_sorted : forall h v g ls, wf_heap h = true -> wf_value v = true -> flatten h v = Some (g, ls) -> ssorted ls.
Proof. exact flatten_sorted. Qed.
Print Assumptions C03_leaf_order_sorted.

(* ... so a filtered split merged back in ANY order of its states is the plain round trip, i.e. rebuilds a graph
   isomorphic to the original (C03_roundtrip_iso) *)
Theorem C03_merge_split_any_order : forall ti fs h v g bs bs' ls,
  wf_heap h = true -> wf_value v = true ->
  flatten h v = Some (g, ls) -> split ti fs h v = Some (g, bs) -> Permutation bs bs' ->
  merge g bs' = unflatten g (map snd ls).
Proof. exact merge_split_any_order. Qed.
Print Assumptions C03_merge_split_any_order.

(* update writes in place: no node changes, every Variable keeps its location and type, Variables no path of the
   state leads to keep value and metadata, and the last entry written through a path is what the Variable holds *)
Theorem C03_update_in_place : forall h root st h', update h root st = Some h' ->
  same_nodes h h' /\
  (forall l t p m, nth_error h l = Some (OVar t p m) -> exists p' m', nth_error h' l = Some (OVar t p' m')) /\
  (forall l, (forall pl, In pl st -> at_path h root (fst pl) <> Some (VRef l)) -> nth_error h' l = nth_error h l).
Proof. exact update_frame. Qed.
Print Assumptions C03_update_in_place.
Theorem C03_update_last_wins : forall h root st pl h' t' p' m',
  update h root (st ++ [pl]) = Some h' -> snd pl = LVar t' p' m' ->
  exists l t, at_path h root (fst pl) = Some (VRef l) /\ nth_error h' l = Some (OVar t p' m').
Proof. exact update_last. Qed.
Print Assumptions C03_update_last_wins.

(* pop only removes attributes (a node keeps its type and a subset of its attributes, Variables themselves are
   untouched) and everything it returns is a Variable of the graph that the filter of its bucket is the first to
   select at the returned path.  NOT proved (and false, F19): that no selected Variable remains reachable through
   another attribute. *)
Theorem C03_pop_partial : forall ti fs h root h' out, pop ti fs h root = Some (h', out) -> pop_rel h h' /\ out_ok ti fs h out.
Proof. exact pop_spec. Qed.
Print Assumptions C03_pop_partial.

(* non-vacuity: a node with a self reference and one Param held by two attributes and inside a list *)
Definition ex_tree : value := VTree 0 [(0%N, VRef 1); (1%N, VArr 7)].
Definition ex_heap : heap := [ONode 1 [(1%N, VRef 1); (2%N, VRef 0); (3%N, ex_tree); (4%N, VRef 1)]; OVar 20 5 3].
Definition ex_gdef : gattr :=
  ASub (GNode 1 0 [(1%N, ASub (GVar 20 1 3)); (2%N, ASub (GRef 0)); (3%N, ASub (GTree 0 [(0%N, ASub (GRef 1)); (1%N, AArr)])); (4%N, ASub (GRef 1))]).
Example C03_example :
  wf_heap ex_heap = true /\
  flatten ex_heap (VRef 0) = Some (ex_gdef, [([1%N], LVar 20 5 3); ([3%N; 1%N], LArr 7)]) /\
  unflatten ex_gdef [LVar 20 5 3; LArr 7] = Some (ex_heap, VRef 0) /\
  pop (mkTy (fun _ => [20%N]) []) [NType 20] ex_heap (VRef 0) =
    Some ([ONode 1 [(2%N, VRef 0); (3%N, ex_tree); (4%N, VRef 1)]; OVar 20 5 3], [[([1%N], LVar 20 5 3)]]).
Proof. vm_compute. repeat split; reflexivity. Qed.
