(* C13 -- Attention and RNNs: stepwise equals whole-sequence; padding and masks are inert. *)
From Coq Require Import QArith.
From Flaxm Require Import Lib.Harness Model.Seq Proofs.Seq Proofs.SeqBi Model.Layers Model.Attn Proofs.Attn.
Close Scope Q_scope.
Close Scope Z_scope.
Open Scope nat_scope.

(* RNN(cell) with seq_lengths, for every cell, carry and sequence: the outputs at the valid positions and the returned
   carry are those of the Python loop of the cell over the valid inputs (reverse: over the valid prefix reversed);
   the scan does run over the padded steps too, but nothing of them is returned *)
Theorem C13_rnn_is_loop_on_valid : forall C X Y (cell : C -> X -> C * Y) (reverse : bool) n c0 xs, 1 <= n <= length xs ->
  let valid := if reverse then rev (firstn n xs) else firstn n xs in
  fst (rnn C X Y cell reverse false (Some n) c0 xs) = Some (fst (loop C X Y cell c0 valid)) /\
  firstn n (snd (rnn C X Y cell reverse false (Some n) c0 xs)) = snd (loop C X Y cell c0 valid).
Proof. exact rnn_is_loop_on_valid. Qed.
Print Assumptions C13_rnn_is_loop_on_valid.

(* inputs at or beyond seq_lengths cannot influence a valid output or the final carry *)
Theorem C13_padding_inert : forall C X Y (cell : C -> X -> C * Y) (reverse : bool) n c0 xs xs',
  1 <= n <= length xs -> length xs = length xs' -> firstn n xs = firstn n xs' ->
  fst (rnn C X Y cell reverse false (Some n) c0 xs) = fst (rnn C X Y cell reverse false (Some n) c0 xs') /\
  firstn n (snd (rnn C X Y cell reverse false (Some n) c0 xs)) = firstn n (snd (rnn C X Y cell reverse false (Some n) c0 xs')).
Proof. exact padding_inert. Qed.
Print Assumptions C13_padding_inert.

(* keep_order only flips the outputs back within the valid length; the carry is unaffected *)
Theorem C13_keep_order : forall C X Y (cell : C -> X -> C * Y) (reverse : bool) n c0 xs,
  snd (rnn C X Y cell reverse true (Some n) c0 xs) =
    (if reverse then flip n (snd (rnn C X Y cell reverse false (Some n) c0 xs)) else snd (rnn C X Y cell reverse false (Some n) c0 xs)) /\
  fst (rnn C X Y cell reverse true (Some n) c0 xs) = fst (rnn C X Y cell reverse false (Some n) c0 xs).
Proof. exact keep_order_flips. Qed.
Print Assumptions C13_keep_order.

(* Bidirectional: at the valid positions, the forward cell looped over the valid inputs paired position-wise with the reversed
   outputs of the backward cell looped over the valid inputs reversed (reversal within the sequence's valid length); the
   carries are those of the two loops; padding influences neither direction *)
Theorem C13_bidirectional : forall C1 C2 X Y (cf : C1 -> X -> C1 * Y) (cb : C2 -> X -> C2 * Y) n c1 c2 xs, 1 <= n <= length xs ->
  let valid := firstn n xs in
  fst (bidirectional cf cb (Some n) c1 c2 xs) = (Some (fst (loop C1 X Y cf c1 valid)), Some (fst (loop C2 X Y cb c2 (rev valid)))) /\
  firstn n (snd (bidirectional cf cb (Some n) c1 c2 xs)) =
    combine (snd (loop C1 X Y cf c1 valid)) (rev (snd (loop C2 X Y cb c2 (rev valid)))).
Proof. exact @bidirectional_spec. Qed.
Print Assumptions C13_bidirectional.
Theorem C13_bidirectional_padding_inert : forall C1 C2 X Y (cf : C1 -> X -> C1 * Y) (cb : C2 -> X -> C2 * Y) n c1 c2 xs xs',
  1 <= n <= length xs -> length xs = length xs' -> firstn n xs = firstn n xs' ->
  fst (bidirectional cf cb (Some n) c1 c2 xs) = fst (bidirectional cf cb (Some n) c1 c2 xs') /\
  firstn n (snd (bidirectional cf cb (Some n) c1 c2 xs)) = firstn n (snd (bidirectional cf cb (Some n) c1 c2 xs')).
Proof. exact @bidirectional_padding_inert. Qed.
Print Assumptions C13_bidirectional_padding_inert.

(* non-vacuity: two padded steps after three valid ones, different cells in the two directions *)
Example C13_bidirectional_example :
  let cf := int_cell 2 1 0 in let cb := int_cell 1 3 1 in
  let xs := [1; 2; 3; 100; 200]%Z in
  firstn 3 (snd (bidirectional cf cb (Some 3) 0%Z 0%Z xs)) = [(1, 19); (4, 17); (11, 12)]%Z /\
  fst (bidirectional cf cb (Some 3) 0%Z 0%Z xs) = (Some 11%Z, Some 18%Z).
Proof. vm_compute. split; reflexivity. Qed.

(* decoding with a cache: for every attention function, sequence and cache size, feeding the positions one at a time
   gives row t of whole-sequence attention under the causal mask, and the cache index ends at the number of steps *)
Theorem C13_decode_equals_causal : forall KV Q Y (att : Q -> list KV -> Y) (qs : list Q) (kvs : list KV) done rest,
  length qs = length kvs -> length done + length qs <= length (done ++ rest) ->
  let st := (done ++ rest, length done) in
  let '(stf, ys) := decode KV Q Y att st (combine qs kvs) in
  ys = map (fun tq => att (snd tq) (done ++ firstn (S (fst tq)) kvs)) (combine (seq 0 (length qs)) qs) /\
  snd stf = length done + length qs /\ firstn (length done + length qs) (fst stf) = done ++ kvs.
Proof. exact decode_equals_causal. Qed.
Print Assumptions C13_decode_equals_causal.

(* attention weights (Model/Attn.v: one (batch, head) slice, logits in units of ln 2 so that the exponentials are rational):
   a masked position receives weight exactly 0; the weights of a query that may see a key sum to 1; over the allowed
   positions they are proportional to exp(logit), i.e. the softmax of the scaled dot products plus bias; subtracting the
   row maximum (or any constant) changes nothing *)
Theorem C13_masked_weight_zero : forall l m j, j < length l -> length l = length m -> nth j m true = false ->
  (nth j (weights l m) 0 == 0)%Q.
Proof. exact masked_weight_zero. Qed.
Print Assumptions C13_masked_weight_zero.
Theorem C13_weights_sum_to_one : forall l m, length l = length m -> (exists j, j < length l /\ nth j m true = true) ->
  (qsum (weights l m) == 1)%Q.
Proof. exact weights_sum_one. Qed.
Print Assumptions C13_weights_sum_to_one.
Theorem C13_weights_are_softmax : forall l m i j, i < length l -> j < length l -> length l = length m ->
  nth i m true = true -> nth j m true = true ->
  (nth i (weights l m) 0 * pow2 (nth j l 0%Z) == nth j (weights l m) 0 * pow2 (nth i l 0%Z))%Q.
Proof. exact weights_proportional. Qed.
Print Assumptions C13_weights_are_softmax.
Theorem C13_weights_shift_invariant : forall c l m j, j < length l -> length l = length m ->
  (exists i, i < length l /\ nth i m true = true) -> (nth j (weights (map (Z.add c) l) m) 0 == nth j (weights l m) 0)%Q.
Proof. exact weights_shift_invariant. Qed.
Print Assumptions C13_weights_shift_invariant.
(* keys, biases and values at positions the mask excludes cannot influence the output of the query *)
Theorem C13_attention_ignores_masked : forall dv q ks ks' bias bias' mask vs vs',
  length ks = length mask -> length ks' = length mask -> length bias = length mask -> length bias' = length mask ->
  length vs = length mask -> length vs' = length mask ->
  (forall j, j < length mask -> nth j mask true = true ->
     nth j ks [] = nth j ks' [] /\ nth j bias 0%Z = nth j bias' 0%Z /\ nth j vs [] = nth j vs' []) ->
  Forall2 Qeq (attend dv q ks bias mask vs) (attend dv q ks' bias' mask vs').
Proof. exact attend_ignores_masked. Qed.
Print Assumptions C13_attention_ignores_masked.
(* masking the keys after position n is the same as not having them: in particular row t of whole-sequence attention under
   the causal mask is attention over the first t+1 keys and values -- exactly what the decode cache holds at step t, so with
   C13_decode_equals_causal (parametric in the attention function) stepwise decoding gives the causal rows of this attention *)
Theorem C13_masked_suffix_is_absent : forall dv q ks1 ks2 b1 b2 vs1 vs2,
  length b1 = length ks1 -> length vs1 = length ks1 -> length b2 = length ks2 -> length vs2 = length ks2 ->
  Forall2 Qeq (attend dv q (ks1 ++ ks2) (b1 ++ b2) (repeat true (length ks1) ++ repeat false (length ks2)) (vs1 ++ vs2))
              (attend dv q ks1 b1 (repeat true (length ks1)) vs1).
Proof. exact masked_suffix_is_absent. Qed.
Print Assumptions C13_masked_suffix_is_absent.
Theorem C13_causal_row_is_prefix_attention : forall dv q kvs t, t < length kvs ->
  Forall2 Qeq (attend dv q (map fst kvs) (repeat 0%Z (length kvs)) (causal_row t (length kvs)) (map snd kvs))
              (att_kv dv q (firstn (S t) kvs)).
Proof. exact causal_row_is_prefix_attention. Qed.
Print Assumptions C13_causal_row_is_prefix_attention.
Example C13_attention_example :
  attend 1 [1]%Z [[0]; [1]; [5]]%Z [0; 0; 0]%Z [true; true; false] [[6]; [3]; [100]]%Z = [108 # 27]%Q /\
  weights [0; 1; 5]%Z [true; true; false] = [1 # 3; 2 # 3; 0 # 3]%Q.
Proof. vm_compute. split; reflexivity. Qed.

(* NOT proved: that exp(finfo.min - max) underflows to exactly 0 in the float arithmetic and the float rounding of the
   softmax (compared per run within 1e-9), the cells' recurrences, time_major / batch handling, Linen = NNX:
   decided per run against numpy references, paired-input oracles, the integer-cell correspondence and the
   power-of-two attention correspondence. *)
(* the mask helpers: make_attention_mask is the pairwise predicate, make_causal_mask lets query i see exactly the keys
   0 .. i (so row i of the causal mask selects the prefix the decode cache holds at step i), combine_masks is the
   pointwise conjunction of the masks that are given and None when none is *)
Theorem C13_attention_mask_entry : forall A B (f : A -> B -> bool) q k i j da db, i < length q -> j < length k ->
  nth j (nth i (attn_mask f q k) []) false = f (nth i q da) (nth j k db).
Proof. exact @attn_mask_entry. Qed.
Theorem C13_causal_mask_entry : forall n i j, i < n -> j < n -> nth j (nth i (causal_mask n) []) false = Nat.leb j i.
Proof. exact causal_mask_entry. Qed.
Theorem C13_causal_row_sees_prefix : forall K (ks : list K) i, i < length ks -> visible (nth i (causal_mask (length ks)) []) ks = firstn (S i) ks.
Proof. exact @causal_row_sees_prefix. Qed.
Print Assumptions C13_causal_row_sees_prefix.
Theorem C13_combine_masks_is_and : forall ms m i j, combine_masks ms = Some m ->
  nth j (nth i m []) false = forallb (fun x => match x with Some a => nth j (nth i a []) false | None => true end) ms.
Proof. exact combine_masks_entry. Qed.
Theorem C13_combine_masks_none : forall ms, combine_masks ms = None <-> forall x, In x ms -> x = None.
Proof. exact combine_masks_none. Qed.
Print Assumptions C13_combine_masks_is_and.

Example C13_example :
  rnn Z Z Z (int_cell 2 1 100) true true (Some 3%nat) 0%Z [1; 2; 3; 9]%Z = (Some 17%Z, [117; 208; 303; 943]%Z) /\
  fst (loop Z Z Z (int_cell 2 1 100) 0%Z [3; 2; 1]%Z) = 17%Z.
Proof. vm_compute. split; reflexivity. Qed.
