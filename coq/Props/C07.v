(* C07 -- Lifted vjp/jvp/grad/custom_vjp equal JAX autodiff of the pure apply function. *)
From Coq Require Import ZArith.
From Flaxm Require Import Lib.Harness Model.Filters Model.NnxFilters Model.NnxLift Model.LiftGrad Proofs.LiftGrad.
Open Scope Z_scope.

(* exactly the variables of the collections vjp_variables selects receive a cotangent; other collections contribute nothing
   and do not appear *)
Theorem C07_vjp_routing : forall f d ct,
  map fst (snd (fst (vjp_model f d ct))) = selected f d /\
  forall i, In i (selected f d) <-> (i < nvars d)%nat /\ in_filter f (nth i (d_cols d) 0%N) = true.
Proof. exact vjp_routing. Qed.
Print Assumptions C07_vjp_routing.

(* each cotangent is ct times the partial derivative, and `partial` is the derivative of the function the module computes
   (after its forward-pass side effects) *)
Theorem C07_vjp_values : forall f d ct i g, In (i, g) (snd (fst (vjp_model f d ct))) -> g = ct * partial d i.
Proof. exact vjp_values. Qed.
Print Assumptions C07_vjp_values.
Theorem C07_partial_is_derivative : forall d i h, (i < length (d_vals d))%nat ->
  exists r, geval (upd i (Z.add h) (fwd_vals d)) 0 (d_poly d) = primal d + h * partial d i + h * h * r.
Proof. exact partial_is_derivative. Qed.
Print Assumptions C07_partial_is_derivative.

(* vjp and jvp are adjoint for every choice of tangents *)
Theorem C07_vjp_jvp_adjoint : forall d ct (tvars : list (nat * Z)) (tins : list Z),
  ct * snd (jvp_model d tvars tins) =
  fold_right Z.add 0 (map (fun it => (ct * partial d (fst it)) * snd it) tvars) +
  fold_right Z.add 0 (map (fun kt => (ct * partial d (nvars d + fst kt)) * snd kt) (combine (seq 0 (nins d)) tins)).
Proof. exact vjp_jvp_adjoint. Qed.
Print Assumptions C07_vjp_jvp_adjoint.

(* updates made by the forward pass are published exactly once *)
Theorem C07_forward_effects_once : forall d i, (i < nvars d)%nat -> (nvars d <= length (d_vals d))%nat ->
  nth i (vars_after d) 0 = nth i (d_vals d) 0 + (if existsb (Nat.eqb i) (d_bumps d) then 1 else 0).
Proof. exact forward_effects_once. Qed.
Print Assumptions C07_forward_effects_once.

(* ... and once per call over a history of calls on the same bound module, direct or differentiated in any mixture: after n
   calls a variable the forward pass increments has grown by exactly n, every other variable is unchanged *)
Theorem C07_effects_once_per_call : forall n d i, (i < nvars d)%nat -> (nvars d <= length (d_vals d))%nat ->
  nth i (snd (hist n d)) 0 = nth i (d_vals d) 0 + (if existsb (Nat.eqb i) (d_bumps d) then Z.of_nat n else 0).
Proof. exact effects_once_per_call. Qed.
Print Assumptions C07_effects_once_per_call.

(* nn.custom_vjp (custom_vjp_model: the user's backward rule returns rv / ri times the true cotangents): the forward value is
   that of the original function whatever the rule; differentiation sees the rule, for exactly the variables of the
   collections grad_vars selects and for every input *)
Theorem C07_custom_vjp_forward_unchanged : forall f d rv ri ct, fst (fst (custom_vjp_model f d rv ri ct)) = primal d.
Proof. exact custom_vjp_forward. Qed.
Print Assumptions C07_custom_vjp_forward_unchanged.
Theorem C07_custom_vjp_routing : forall f d rv ri ct, map fst (snd (fst (custom_vjp_model f d rv ri ct))) = selected f d.
Proof. exact custom_vjp_routing. Qed.
Print Assumptions C07_custom_vjp_routing.
Theorem C07_custom_vjp_rule_on_variables : forall f d rv ri ct i g,
  In (i, g) (snd (fst (custom_vjp_model f d rv ri ct))) -> g = rv * (ct * partial d i).
Proof. exact custom_vjp_rule_vars. Qed.
Print Assumptions C07_custom_vjp_rule_on_variables.
Theorem C07_custom_vjp_rule_on_inputs : forall f d rv ri ct k, (k < nins d)%nat ->
  nth k (snd (custom_vjp_model f d rv ri ct)) 0 = ri * (ct * partial d (nvars d + k)).
Proof. exact custom_vjp_rule_inputs. Qed.
Print Assumptions C07_custom_vjp_rule_on_inputs.

(* NOT proved: that lift.vjp / jvp / custom_vjp route through lift.pack as the model says and that jax differentiates
   polynomials symbolically (tied per run by the correspondence). *)
Example C07_example :
  let d := mkD [0%N; 1%N; 5%N] [3; 4; 0; 2; 5] (GAdd (GMul (GMul (GVar 0) (GVar 0)) (GVar 3)) (GAdd (GMul (GMul (GVar 0) (GVar 1)) (GVar 4)) (GVar 2))) [2%nat] in
  vjp_model (FSet [0; 1]%N) d 10 = (79, [(0%nat, 320); (1%nat, 150)], [90; 120]) /\
  jvp_model d [(0%nat, 2)] [1; 0] = (79, 73) /\ vars_after d = [3; 4; 1].
Proof. vm_compute. repeat split; reflexivity. Qed.
