(* C20 -- Host-side data helpers preserve values and order for any batch size and schedule. *)
From Flaxm Require Import Lib.Harness Model.Serial Model.Host Proofs.Host Model.LinenLoop Model.ScanNd Proofs.ScanNd.

(* pad_shard_unpad: for every batch size >= 1, device count >= 1, min_device_batch and per-example function *)
Theorem C20_pad_shard_unpad : forall f d mdb x, 1 <= d -> pad_shard_unpad f d mdb x = map f x.
Proof. exact pad_shard_unpad_correct. Qed.
Print Assumptions C20_pad_shard_unpad.
Theorem C20_pad_shard_shape : forall d mdb x, 1 <= d -> 1 <= length x ->
  length (pad_shard d mdb x) = d /\ Forall (fun row => length row = device_batch (length x) d mdb) (pad_shard d mdb x).
Proof. exact pad_shard_shape. Qed.
Print Assumptions C20_pad_shard_shape.

(* shard, stack_forest and onehot are the stated reshapes *)
Theorem C20_shard : forall d n x, 1 <= d -> 1 <= n -> length x = d * n ->
  length (shard d x) = d /\ Forall (fun row => length row = n) (shard d x) /\ concat (shard d x) = x.
Proof. exact shard_shape. Qed.
Print Assumptions C20_shard.
Theorem C20_stack_forest : forall m forest j i, j < m -> i < length forest ->
  nth i (nth j (stack_forest m forest) []) 0%Z = nth j (nth i forest []) 0%Z.
Proof. exact stack_forest_entry. Qed.
Print Assumptions C20_stack_forest.
Theorem C20_onehot_entry : forall labels k on off i j, i < length labels -> j < k ->
  nth j (nth i (onehot labels k on off) []) off = if (Z.of_nat j =? nth i labels 0%Z)%Z then on else off.
Proof. exact onehot_entry. Qed.
Print Assumptions C20_onehot_entry.
(* for every label value and every number of classes: a label in range lights exactly one position, any other none *)
Theorem C20_onehot_exactly_one : forall labels k on off i, on <> off -> i < length labels ->
  count_occ Z.eq_dec (nth i (onehot labels k on off) []) on =
  if ((0 <=? nth i labels 0%Z) && (nth i labels 0%Z <? Z.of_nat k))%Z then 1 else 0.
Proof. exact onehot_exactly_one. Qed.
Print Assumptions C20_onehot_exactly_one.

(* scan_in_dim moves the scanned axes to the front with a permutation and back with its inverse *)
Theorem C20_invert_perm : forall perm i, NoDup perm -> (forall j, In j perm -> j < length perm) -> i < length perm ->
  nth (nth i perm 0) (invert_perm perm) 0 = i.
Proof. exact invert_perm_spec. Qed.
Print Assumptions C20_invert_perm.

Theorem C20_invert_perm_negative_axes : forall perm i, NoDup (map (normz (length perm)) perm) ->
  (forall j, In j perm -> (- Z.of_nat (length perm) <= j < Z.of_nat (length perm))%Z) -> i < length perm ->
  nth (normz (length perm) (nth i perm 0%Z)) (invert_perm_z perm) 0 = i.
Proof. exact invert_perm_z_spec. Qed.
Print Assumptions C20_invert_perm_negative_axes.

(* ... and the nested scans of _scan_nd thread the carry and stack the outputs exactly like the nested Python loop over the
   scanned axes in row-major order, for every body, nesting depth and extent *)
Theorem C20_scan_nd_is_loop : forall C X Y (body : C -> X -> C * Y) t c,
  fst (scan_nd C X Y body c t) = fst (loop_nd C X Y body c (nflatten X t)) /\
  nflatten Y (snd (scan_nd C X Y body c t)) = snd (loop_nd C X Y body c (nflatten X t)).
Proof. exact scan_nd_is_loop. Qed.
Print Assumptions C20_scan_nd_is_loop.
Example C20_scan_nd_example :
  scan_nd nat nat nat (fun c x => (c * 3 + x, x * 2 + c)) 0 (NNode [NNode [NLeaf 1; NLeaf 2]; NNode [NLeaf 3; NLeaf 4]])
  = (58, NNode [NNode [NLeaf 2; NLeaf 5]; NNode [NLeaf 11; NLeaf 26]]).
Proof. vm_compute. reflexivity. Qed.

(* prefetch_to_device: items in order, each once, then stop -- or the source's exception after the items before it *)
Theorem C20_prefetch_to_device_order : forall size items fail, 1 <= size ->
  prefetch_to_device size items fail = map Item items ++ [term fail].
Proof. exact prefetch_to_device_order. Qed.
Print Assumptions C20_prefetch_to_device_order.

(* PrefetchIterator under EVERY interleaving of producer and consumer (a schedule is any list of labels) *)
Theorem C20_prefetch_iterator_safe : forall size items fail sched,
  exists k j, p_obs (prun size fail sched (pinit items)) = map Item (firstn k items) ++ repeat (term fail) j /\
              (0 < j -> length items <= k).
Proof. exact prefetch_iterator_safe. Qed.
Print Assumptions C20_prefetch_iterator_safe.

(* non-vacuity: a complete schedule delivers everything, then the error *)
Example C20_example :
  p_obs (prun 1 true [LNext; LPut; LGet; LWake; LNext; LPut; LNext; LGet; LWake; LNext; LFail; LGet; LGet] (pinit [7; 8]%N))
  = [Item 7; Item 8; Err; Err]%N.
Proof. vm_compute. reflexivity. Qed.
Example C20_onehot_example : onehot [1; 0; 255; 7]%Z 3 1%Z 0%Z = [[0; 1; 0]; [1; 0; 0]; [0; 0; 0]; [0; 0; 0]]%Z /\
  shard 2 [1; 2; 3; 4; 5; 6]%Z = [[1; 2; 3]; [4; 5; 6]]%Z /\ stack_forest 2 [[1; 2]; [3; 4]; [5; 6]]%Z = [[1; 3; 5]; [2; 4; 6]]%Z.
Proof. vm_compute. repeat split; reflexivity. Qed.
