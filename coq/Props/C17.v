(* C17 -- Optimizer wrappers apply exactly the optax update; metrics ignore batching. *)
From Coq Require Import QArith.
From Flaxm Require Import Lib.Harness Model.NnxFilters Model.Optim Proofs.Optim.

(* TrainState.apply_gradients / nnx.TrainState.apply_gradients, for every transformation (tx_update, apply_updates
   are universally quantified): one call is tx.update then apply_updates and step + 1; the old instance is a
   value and cannot change *)
Theorem C17_apply_gradients_is_optax : forall P G O U (tx_update : G -> O -> P -> U * O) (apply_updates : P -> U -> P) ts g,
  ts_step (apply_gradients P G O U tx_update apply_updates ts g) = (ts_step ts + 1)%N /\
  (ts_params (apply_gradients P G O U tx_update apply_updates ts g), ts_ostate (apply_gradients P G O U tx_update apply_updates ts g))
  = hand_step P G O U tx_update apply_updates (ts_params ts, ts_ostate ts) g.
Proof. exact apply_gradients_is_optax. Qed.
Print Assumptions C17_apply_gradients_is_optax.

Theorem C17_k_steps : forall P G O U (tx_update : G -> O -> P -> U * O) (apply_updates : P -> U -> P) gs ts,
  let ag := apply_gradients P G O U tx_update apply_updates in
  ts_step (fold_left ag gs ts) = (ts_step ts + N.of_nat (length gs))%N /\
  (ts_params (fold_left ag gs ts), ts_ostate (fold_left ag gs ts))
  = fold_left (hand_step P G O U tx_update apply_updates) gs (ts_params ts, ts_ostate ts).
Proof. exact k_steps. Qed.
Print Assumptions C17_k_steps.

(* nnx.Optimizer.update: every Variable not selected by wrt is untouched, the step counter goes up by one *)
Theorem C17_nnx_update_frame : forall O (tx_update : flatp -> O -> flatp -> flatp * O),
  (forall g o p, map fst (fst (tx_update g o p)) = map fst p) ->
  forall wrt (o : opt O) grads v,
  NoDup (map v_path (o_vars o)) -> In v (o_vars o) -> selected wrt v = false ->
  In v (o_vars (opt_update O tx_update wrt o grads)) /\ o_step (opt_update O tx_update wrt o grads) = (o_step o + 1)%N.
Proof. exact opt_update_frame. Qed.
Print Assumptions C17_nnx_update_frame.

(* the selected ones receive apply_updates(params, updates) at their path, keeping their type *)
Theorem C17_nnx_update_selected : forall O (tx_update : flatp -> O -> flatp -> flatp * O),
  (forall g o p, map fst (fst (tx_update g o p)) = map fst p) ->
  forall wrt (o : opt O) grads v newval,
  NoDup (map v_path (o_vars o)) -> In v (o_vars o) ->
  In (v_path v, newval) (apply_updates_flat (state_of wrt (o_vars o)) (fst (tx_update grads (o_state o) (state_of wrt (o_vars o))))) ->
  In (mkVar (v_path v) (v_mro v) newval) (o_vars (opt_update O tx_update wrt o grads)).
Proof. exact opt_update_selected. Qed.
Print Assumptions C17_nnx_update_selected.

Theorem C17_opt_state_wrap_roundtrip : forall l, unwrap (wrap l) = l.
Proof. exact opt_state_wrap_roundtrip. Qed.

(* metrics: the state after any split of a value stream into update calls is the state of the whole stream *)
Theorem C17_average_batching : forall batches s,
  (fst (fold_left avg_update batches s) == fst s + qsum (concat batches))%Q /\
  (snd (fold_left avg_update batches s) == snd s + qlen (concat batches))%Q.
Proof. exact average_batching. Qed.
Print Assumptions C17_average_batching.

Theorem C17_welford_batching : forall b0 batches, b0 <> [] -> Forall (fun b => b <> []) batches ->
  let all := concat (b0 :: batches) in
  eq3 (fold_left wf_update (b0 :: batches) wf_init) (of_sums (qlen all) (qsum all) (qsumsq all)).
Proof. exact welford_batching. Qed.
Print Assumptions C17_welford_batching.

Theorem C17_welford_partition_independent : forall b0 bs c0 cs,
  b0 <> [] -> Forall (fun b => b <> []) bs -> c0 <> [] -> Forall (fun b => b <> []) cs ->
  concat (b0 :: bs) = concat (c0 :: cs) ->
  eq3 (fold_left wf_update (b0 :: bs) wf_init) (fold_left wf_update (c0 :: cs) wf_init).
Proof. exact welford_partition_independent. Qed.
Print Assumptions C17_welford_partition_independent.

Example C17_example :
  let s := fold_left wf_update [[1; 2]; [3]; [4; 5; 6]]%Q wf_init in
  (wf_mean s == 7 # 2)%Q /\ (wf_variance s == 35 # 12)%Q.
Proof. vm_compute. split; reflexivity. Qed.
