(* C09 -- Random keys are deterministic, position-addressed and never reused.
   Assumption (stated, not proved): the PRNG is idealised -- jax.random.key / fold_in / split are free constructors,
   SHA-1 (of which flax keeps 32 bits) is injective on the hashed byte strings. *)
From Flaxm Require Import Lib.Harness Model.Filters Model.Linen Proofs.Linen Model.Rng Proofs.Rng.

(* Linen: every draw is addressed by (stream after fallback, module path, per-scope count); within one init/apply
   no two draws have the same address -- for every module program *)
Theorem C09_linen_no_reuse : forall ev top vars x y s, apply_m ev top vars x = Ok (y, s) -> NoDup (keys_of (s_trace s)).
Proof. exact keys_never_reused. Qed.
Print Assumptions C09_linen_no_reuse.

(* the key is a function of the seed, the stream name and that address only: make_rng adds exactly one event whose
   count is the counter of (path, stream) after the increment, and touches nothing else *)
Theorem C09_linen_key_formula : forall ev p stream s s', make_rng ev p stream s = Ok s' ->
  exists t, (t = stream \/ (memN stream (e_streams ev) = false /\ t = e_params ev)) /\
            s_trace s' = s_trace s ++ [KeyDrawn t p (S (counter (s_counters s) p t))] /\ s_vars s' = s_vars s.
Proof.
  intros ev p stream s s' H. unfold make_rng in H. destruct (memN stream (e_streams ev)) eqn:E.
  - inversion H; subst. exists stream. simpl. auto.
  - destruct (memN (e_params ev) (e_streams ev)); [|discriminate]. inversion H; subst. exists (e_params ev). simpl. auto.
Qed.
Print Assumptions C09_linen_key_formula.

(* with the RNG-separator fix the hashed bytes determine the path: any two different paths (zero-free names and
   counts) hash different bytes; F8 and the no-separator collision are the refutations outside that domain *)
Theorem C09_enc_injective : forall s1 s2,
  Forall (fun x => zero_free (bytes_of x)) s1 -> Forall (fun x => zero_free (bytes_of x)) s2 ->
  enc true s1 = enc true s2 -> map bytes_of s1 = map bytes_of s2.
Proof. exact enc_sep_injective. Qed.
Print Assumptions C09_enc_injective.
Theorem C09_count_bytes_injective : forall n m, (n < 256 ^ 16)%N -> (m < 256 ^ 16)%N -> int_bytes n = int_bytes m -> n = m.
Proof. exact int_bytes_injective. Qed.
Print Assumptions C09_count_bytes_injective.
Theorem C09_enc_sep_refuted : enc true [FStr [120%N]; FInt 6356993%N] = enc true [FStr [120%N]; FStr [97%N]; FInt 1%N].
Proof. exact enc_sep_refuted. Qed.
Theorem C09_enc_nosep_collision : enc false [FStr [97; 98]%N; FStr [99%N]] = enc false [FStr [97%N]; FStr [98; 99]%N].
Proof. exact enc_nosep_collision. Qed.

(* Linen under lift.jit / fold_rngs (nn.jit, nn.fold_rngs; after the `fix:` commit for F31): the rngs of every scope handed
   to the transform are materialised -- the path is folded into the key data -- so scopes whose paths are hashed
   differently draw different keys inside the transform, none of which is a key the root scope draws; the keys of the
   transformed module itself (forked first, empty suffix) are unchanged; different counts stay apart *)
Theorem C09_jit_keeps_paths_apart : forall sep root p q c d, p <> [] -> q <> [] -> enc sep p <> enc sep q ->
  make_rng_key sep (materialise sep (mkLazy root p)) c <> make_rng_key sep (materialise sep (mkLazy root q)) d.
Proof. exact jit_keeps_paths_apart. Qed.
Print Assumptions C09_jit_keeps_paths_apart.
Theorem C09_jit_keys_not_root_keys : forall sep root p c d, p <> [] ->
  make_rng_key sep (materialise sep (mkLazy (LRoot root) p)) c <> make_rng_key sep (mkLazy (LRoot root) []) d.
Proof. exact jit_keys_not_root_keys. Qed.
Print Assumptions C09_jit_keys_not_root_keys.
Theorem C09_jit_forked_rngs_unchanged : forall sep k, materialise sep (mkLazy k []) = mkLazy k [].
Proof. exact materialise_forked. Qed.
Theorem C09_jit_counts_apart : forall sep r c d, enc sep [FInt c] <> enc sep [FInt d] ->
  make_rng_key sep (materialise sep r) c <> make_rng_key sep (materialise sep r) d.
Proof. exact jit_counts_apart. Qed.
Print Assumptions C09_jit_counts_apart.
(* what the code did before that repair (clear_suffix): every scope handed to lift.jit drew the keys of the root scope *)
Theorem C09_jit_clear_suffix_refuted : forall sep root p q c,
  make_rng_key sep (clear_suffix (mkLazy root p)) c = make_rng_key sep (clear_suffix (mkLazy root q)) c /\
  make_rng_key sep (clear_suffix (mkLazy root p)) c = make_rng_key sep (mkLazy root []) c.
Proof. exact clear_suffix_collides. Qed.
Example C09_jit_example :
  make_rng_key false (materialise false (child_rng (mkLazy (LRoot 0) []) [98%N])) 0 = LFold (LFold (LRoot 0) [98%N]) [] /\
  make_rng_key false (child_rng (mkLazy (LRoot 0) []) [98%N]) 1 = LFold (LRoot 0) [98; 1]%N.
Proof. vm_compute. split; reflexivity. Qed.

(* NNX: the k-th call of a stream returns fold_in(key, k); a missing stream uses 'default'; for every history of
   draws, split_rngs and restore_rngs no key is replayed; reseed restarts the stream *)
Theorem C09_nnx_stream_formula : forall k c, draw (Plain k c) = ([KFold k c], Plain k (c + 1)).
Proof. exact nnx_stream_formula. Qed.
Theorem C09_nnx_missing_stream_uses_default : forall nm ss st, sassoc nm ss = None -> sassoc default_stream ss = Some st ->
  resolve nm ss = Some default_stream.
Proof. exact nnx_missing_stream_uses_default. Qed.
Theorem C09_nnx_split_restore_never_replays : forall s0 ops, NoDup (snd (fold_left sstep ops (Plain (KSeed s0) 0, []))).
Proof. exact nnx_stream_never_replays. Qed.
Print Assumptions C09_nnx_split_restore_never_replays.
Theorem C09_nnx_reseed_restarts : forall nm seed ss k c out sq, sassoc nm ss = Some (Plain k c) ->
  rstep (mkR ss out sq) (RReseed nm seed) = Some (mkR (sset nm (Plain (KSeed seed) 0) ss) out sq).
Proof. exact nnx_reseed_restarts. Qed.

Example C09_example :
  snd (fold_left sstep [SDraw; SSplit 2; SDraw; SRestore; SDraw] (Plain (KSeed 7) 0, []))
  = [KFold (KSeed 7) 0; KFold (KSplit (KFold (KSeed 7) 1) 0) 0; KFold (KSplit (KFold (KSeed 7) 1) 1) 0; KFold (KSeed 7) 2]%N.
Proof. vm_compute. reflexivity. Qed.

(* rng counters through nn.cond / nn.switch: every branch is traced in turn on the shared counters, so the branch at position i
   draws the counts after those of the branches before it and the draw after the transform comes after all of them; whatever the
   branches draw, the counts of the branch that ran and of the later draw are pairwise different and all new *)
Theorem C09_branch_draws_distinct : forall entry ds i, i < length ds ->
  NoDup (branch_counts entry ds i ++ [count_after entry ds]) /\
  forall c, In c (branch_counts entry ds i ++ [count_after entry ds]) -> entry < c.
Proof. exact branch_draws_distinct. Qed.
Print Assumptions C09_branch_draws_distinct.
