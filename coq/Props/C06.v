(* C06 -- Lifted scan and vmap equal the explicit loop and the per-example stack. *)
From Coq Require Import ZArith.
From Flaxm Require Import Lib.Harness Model.NnxFilters Model.NnxLift Model.LinenLoop Model.Axes Proofs.NnxLift Proofs.LinenLoop Proofs.Axes.
From Flaxm Require Model.Filters Model.Lift Proofs.Lift.

(* nn.scan: for every body that leaves the broadcast collections alone, every assignment of variables to axis /
   broadcast / carry, length, direction, carry and inputs, the lifted scan IS the unrolled Python loop over sliced
   variables (axis slices written back at their index, carry threaded, broadcast shared); `unroll` does not occur *)
Theorem C06_scan_is_loop : forall sa b rev0 vs c0 xs specs,
  all_specs sa vs = Some specs -> scan_inv specs (map v_val vs) (map v_val vs) ->
  (forall j, nth_error specs j = Some SNone -> writes b j = false) ->
  lscan_model sa b rev0 vs c0 xs =
    (let order := if rev0 then rev (seq 0 (length xs)) else seq 0 (length xs) in
     let '(cur, c, ys) := loop_ref specs b order xs (map v_val vs, c0) [] in Ok (cur, c, ys_in_order (length xs) ys)).
Proof. exact lscan_is_loop. Qed.
Print Assumptions C06_scan_is_loop.

(* a write to a broadcast collection is accepted only if its value is the same for every iteration, input and carry
   (otherwise the call is rejected) -- so "shared and initialised once" is well defined *)
Theorem C06_broadcast_prepass_well_defined : forall sa b rev0 vs c0 xs r specs,
  lscan_model sa b rev0 vs c0 xs = Ok r -> all_specs sa vs = Some specs -> rep_ok specs (map v_val vs) ->
  forall j i1 i2 x1 x2 c1 c2, nth_error specs j = Some SNone ->
    nth j (fst (fst (brun b (map (view i1) (map v_val vs)) x1 c1))) [] = nth j (fst (fst (brun b (map (view i2) (map v_val vs)) x2 c2))) [].
Proof. exact prepass_well_defined. Qed.
Print Assumptions C06_broadcast_prepass_well_defined.

(* nn.vmap: whenever the call is accepted, what is left in a None-axis collection is the same at every index *)
Theorem C06_vmap_shared_is_shared : forall sa b vs xs out ys specs,
  vmap_model sa b vs xs = Ok (out, ys) -> all_specs sa vs = Some specs -> rep_ok specs (map v_val vs) ->
  forall j i1 i2, nth_error specs j = Some SNone ->
    nth j (fst (fst (brun b (map (fun v => view i1 (v_val v)) vs) (nth i1 xs 0%Z) 0%Z))) [] =
    nth j (fst (fst (brun b (map (fun v => view i2 (v_val v)) vs) (nth i2 xs 0%Z) 0%Z))) [].
Proof. exact vmap_none_index_independent. Qed.
Print Assumptions C06_vmap_shared_is_shared.

(* F25 inside the model: bc += 1 over three iterations; nn.scan leaves bc + 1 (and every iteration sees bc + 1), the loop bc + 3 *)
(* the axis arithmetic of nn.scan (in_axes / out_axes / variable_axes at any position, negative included): moving the scan
   axis of a stack of L slices to the front exposes the slices, and transpose_from_front undoes transpose_to_front, as
   permutations and on shapes, for every rank *)
Theorem C06_scan_axis_to_front : forall L s ax, valid_axis (S (length s)) ax ->
  transpose_shape (stack_shape L s ax) (to_front_perm (S (length s)) ax) = L :: s.
Proof. exact stack_to_front. Qed.
Print Assumptions C06_scan_axis_to_front.
Theorem C06_scan_axes_inverse : forall n ax, valid_axis n ax -> compose_perm (to_front_perm n ax) (from_front_perm n ax) = seq 0 n.
Proof. exact from_front_after_to_front. Qed.
Print Assumptions C06_scan_axes_inverse.
Theorem C06_scan_axes_roundtrip : forall s ax, valid_axis (length s) ax ->
  transpose_shape (transpose_shape s (to_front_perm (length s) ax)) (from_front_perm (length s) ax) = s.
Proof. exact scan_axes_roundtrip. Qed.
Print Assumptions C06_scan_axes_roundtrip.
Example C06_axes_example :
  to_front_perm 4 (-2) = [2; 0; 1; 3] /\ from_front_perm 4 (-2) = [1; 2; 0; 3] /\ stack_shape 7 [2; 3] (-1) = [2; 3; 7] /\
  valid_axis 4 (-2) /\ compose_perm [2; 0; 1; 3] [2; 0; 1; 3] <> seq 0 4.
Proof. vm_compute. repeat split; try reflexivity; try discriminate. Qed.

(* nn.remat_scan(lengths): the nested scans over a stack of layers of shape `lengths` are the loop over prod(lengths)
   layers in row-major order, for every nesting depth and every layer function *)
Theorem C06_remat_scan_is_loop : forall C W (layer : C -> W -> C) t c, nscan C W layer c t = fold_left layer (nflatten W t) c.
Proof. exact @nested_scan_is_loop. Qed.
Print Assumptions C06_remat_scan_is_loop.

(* variable_axes entries wrapped in flax.typing.In / Out (lift._split_in_out_axes feeding lift.pack): a collection that only
   Out(axis) entries match is not handed to the mapped / scanned function, whatever the caller passes in; a collection that
   only In(axis) entries match comes back unchanged, whatever the function does; an entry without a marker is both *)
Theorem C06_out_only_not_sliced_in : forall xs vars cv,
  (forall f m, In (f, m) xs -> Flaxm.Model.Filters.in_filter f (fst cv) = true -> Flaxm.Model.Lift.is_out m = true) ->
  ~ In cv (Flaxm.Model.Lift.inner_vars vars (Flaxm.Model.Lift.in_filters xs)).
Proof. exact Flaxm.Proofs.Lift.out_only_not_lifted_in. Qed.
Print Assumptions C06_out_only_not_sliced_in.
Theorem C06_in_only_not_written_back : forall Y body om xs mf vars y vars' c,
  Flaxm.Model.Lift.pack Y body om (Flaxm.Model.Lift.in_filters xs) (Flaxm.Model.Lift.out_filters xs) mf vars = Flaxm.Model.Lift.POk Y y vars' ->
  (forall f m, In (f, m) xs -> Flaxm.Model.Filters.in_filter f c = true -> Flaxm.Model.Lift.is_in m = true) ->
  Flaxm.Model.Lift.cv_get c vars' = Flaxm.Model.Lift.cv_get c vars.
Proof. exact Flaxm.Proofs.Lift.in_only_not_written_back. Qed.
Print Assumptions C06_in_only_not_written_back.
Theorem C06_unmarked_axis_is_in_and_out : forall xs f a, In (f, Flaxm.Model.Lift.AxBoth a) xs ->
  In f (Flaxm.Model.Lift.in_filters xs) /\ In f (Flaxm.Model.Lift.out_filters xs).
Proof. exact Flaxm.Proofs.Lift.unmarked_is_both. Qed.

Example C06_broadcast_write_refuted :
  let sa := [(NEllipsis, SNone)] in
  let vs := [mkVar (mkLeaf [] [] None 0) (Whole [4%Z])] in
  let b := mkBody [BAddTo 0 (BConst 1)] (BSum 0) in
  lscan_model sa b false vs 0%Z [0; 0; 0]%Z = Ok ([Whole [5%Z]], 0%Z, [6; 6; 6]%Z) /\
  loop_ref [SNone] b [0; 1; 2] [0; 0; 0]%Z ([Whole [4%Z]], 0%Z) [] = ([Whole [7%Z]], 0%Z, [(0, 5%Z); (1, 6%Z); (2, 7%Z)]).
Proof. vm_compute. split; reflexivity. Qed.

(* NOT proved: the moveaxis / transpose_to_front arithmetic (axis collections are slices in the model), in_axes / out_axes
   prefix trees, init inside the loop (one slice per iteration, a carry collection cannot be created), split_rngs:
   decided per run by the correspondence and the loop oracle on the real code. *)
