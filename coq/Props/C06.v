From Flaxm Require Import Lib.Harness.
Example C06_placeholder : True. Proof. exact I. Qed.
