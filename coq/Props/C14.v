(* C14 -- Filters form a Boolean algebra; grouping by filters is a first-match partition.
   Only statements, each closed by `exact`, with Print Assumptions beneath. *)
From Coq Require Import Permutation.
From Flaxm Require Import Lib.Harness Model.Filters Proofs.Filters Model.NnxFilters Proofs.NnxFilters.

(* union / intersection / subtraction select exactly or / and / and-not of the operands' membership,
   for every pair of filters of every form and nesting depth and every collection name *)
Theorem C14_comb_sound : forall o a b r c,
  comb_top o a b = Some r -> in_filter r c = sem o (in_filter a c) (in_filter b c).
Proof. exact comb_top_sound. Qed.
Print Assumptions C14_comb_sound.

(* ... and they are total: the 'Infinite set' assertion is unreachable, the recursion terminates *)
Theorem C14_comb_total : forall o a b, exists r, comb_top o a b = Some r.
Proof. exact comb_top_total. Qed.
Print Assumptions C14_comb_total.

(* a filter is reported empty exactly when no collection name can match it *)
Theorem C14_empty_iff : forall f, is_empty f = true <-> forall c, in_filter f c = false.
Proof. exact is_empty_iff. Qed.
Print Assumptions C14_empty_iff.

(* the stub-probing emptiness test (the code before the `fix:` commit) is refuted *)
Theorem C14_empty_stub_refuted_nested : forall stub,
  exists f c, is_empty_stub stub f = true /\ in_filter f c = true /\ (forall n, f <> FDeny (FName n) \/ n <> stub).
Proof. exact is_empty_stub_refuted_nested. Qed.
Print Assumptions C14_empty_stub_refuted_nested.

(* group_collections: every collection lands in the first group whose filter matches, in no other;
   unmatched collections are dropped; each group is an order-preserving sub-list of the input *)
Theorem C14_group_partition : forall fs cols i g c,
  nth_error (group cols fs) i = Some g -> (In c g <-> In c cols /\ first_match fs c = Some i).
Proof. exact group_partition. Qed.
Print Assumptions C14_group_partition.

Theorem C14_group_is_filter : forall fs cols i,
  nth_error (group cols fs) i =
  if Nat.ltb i (length fs)
  then Some (filter (fun c => match first_match fs c with Some j => Nat.eqb j i | None => false end) cols)
  else None.
Proof. exact group_first_match. Qed.
Print Assumptions C14_group_is_filter.

(* non-vacuity: a nested-DenyList instance *)
Example C14_example :
  comb_top OSub (FBool true) (FDeny (FName 1%N)) = Some (FDeny (FDeny (FName 1%N))) /\
  is_empty (FDeny (FDeny (FName 1%N))) = false.
Proof. vm_compute. split; reflexivity. Qed.

(* ---------------- NNX ---------------- *)
(* Any / All / Not / sequences denote the predicate combinations *)
Theorem C14_nnx_any : forall l x, denote (NAny l) x = existsb (fun g => denote g x) l.
Proof. exact denote_any. Qed.
Print Assumptions C14_nnx_any.
Theorem C14_nnx_all : forall l x, denote (NAll l) x = forallb (fun g => denote g x) l.
Proof. exact denote_all. Qed.
Theorem C14_nnx_not : forall f x, denote (NNot f) x = negb (denote f x).
Proof. exact denote_not. Qed.
Theorem C14_nnx_seq_is_any : forall l x, denote (NSeq l) x = denote (NAny l) x.
Proof. exact denote_seq. Qed.
Theorem C14_nnx_de_morgan_any : forall l x, denote (NNot (NAny l)) x = denote (NAll (map NNot l)) x.
Proof. exact de_morgan_any. Qed.
Print Assumptions C14_nnx_de_morgan_any.
Theorem C14_nnx_de_morgan_all : forall l x, denote (NNot (NAll l)) x = denote (NAny (map NNot l)) x.
Proof. exact de_morgan_all. Qed.
Print Assumptions C14_nnx_de_morgan_all.

(* every split by filters is a first-match partition: bucket i holds, in order, exactly the leaves whose
   first matching filter is i (bucket n: no match) ... *)
Theorem C14_first_match_buckets : forall fs ls i,
  nth_error (split_loop fs ls) i =
  if Nat.ltb i (S (length fs)) then Some (filter (fun x => Nat.eqb (first_idx fs x) i) ls) else None.
Proof. exact split_loop_spec. Qed.
Print Assumptions C14_first_match_buckets.

Theorem C14_first_match_partition : forall fs ls i b x,
  nth_error (split_loop fs ls) i = Some b -> (In x b <-> In x ls /\ first_idx fs x = i).
Proof. exact split_loop_first_match. Qed.
Print Assumptions C14_first_match_partition.

Theorem C14_first_idx_is_first : forall fs x i, first_idx fs x = i -> i < length fs ->
  (exists f, nth_error fs i = Some f /\ denote f x = true) /\
  (forall j g, j < i -> nth_error fs j = Some g -> denote g x = false).
Proof. exact first_idx_spec. Qed.
Print Assumptions C14_first_idx_is_first.

(* ... that loses and duplicates nothing *)
Theorem C14_split_permutation : forall fs ls, Permutation (concat (split_loop fs ls)) ls.
Proof. exact split_loop_permutation. Qed.
Print Assumptions C14_split_permutation.

Theorem C14_catchall_no_rest : forall fs f ls,
  is_catchall f = true -> nth_error (split_loop (fs ++ [f]) ls) (S (length fs)) = Some [].
Proof. exact catchall_no_rest. Qed.
Print Assumptions C14_catchall_no_rest.
