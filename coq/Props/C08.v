(* C08 -- NNX vmap/scan/grad match the loop, the stack and jax.grad of the functional form. *)
From Coq Require Import ZArith.
From Flaxm Require Import Lib.Harness Model.NnxFilters Model.NnxLift Model.Axes Proofs.NnxLift Proofs.Axes Model.Alias Proofs.Alias.

(* StateAxes: every Variable gets the axis of the FIRST filter that matches it *)
Theorem C08_axis_of_first_match : forall sa v s, spec_of sa v = Some s ->
  exists i f, nth_error sa i = Some (f, s) /\ denote f (v_leaf v) = true /\
    forall j g s', j < i -> nth_error sa j = Some (g, s') -> denote g (v_leaf v) = false.
Proof. exact spec_first_match. Qed.
Print Assumptions C08_axis_of_first_match.

(* vmap: whenever the call is accepted, what the function leaves in a None-group (shared) Variable is the same at
   every index -- for every body, every input, every pair of indices: the per-index reference and the single shared
   update cannot differ; a body whose write depends on the index is rejected (E_BATCHED) instead of resolved silently *)
Theorem C08_vmap_shared_state_is_shared : forall sa b vs xs out ys specs,
  vmap_model sa b vs xs = Ok (out, ys) -> all_specs sa vs = Some specs -> rep_ok specs (map v_val vs) ->
  forall j i1 i2, nth_error specs j = Some SNone ->
    nth j (fst (fst (brun b (map (fun v => view i1 (v_val v)) vs) (nth i1 xs 0%Z) 0%Z))) [] =
    nth j (fst (fst (brun b (map (fun v => view i2 (v_val v)) vs) (nth i2 xs 0%Z) 0%Z))) [].
Proof. exact vmap_none_index_independent. Qed.
Print Assumptions C08_vmap_shared_state_is_shared.

(* scan: for every body that does not write broadcast state, every order of steps (forward, reverse), every carry and
   inputs, the scan (slices collected, carry threaded, broadcast state re-read from the original) IS the Python loop
   in which every write persists.  For bodies that do write broadcast state the two differ: known finding F22. *)
Theorem C08_scan_is_loop : forall specs b orig order xs st ys,
  scan_inv specs orig (fst st) -> (forall j, nth_error specs j = Some SNone -> writes b j = false) ->
  scan_loop specs b orig order xs st ys = loop_ref specs b order xs st ys.
Proof. exact scan_is_loop. Qed.
Print Assumptions C08_scan_is_loop.

(* grad: the gradient lists exactly the Variables selected by wrt / DiffState, unselected state is absent; and the
   number attached to Variable i is the derivative of the loss in that Variable *)
Theorem C08_grad_paths_selected : forall wrt vs vals x loss bumps,
  map fst (g_grads (grad_model wrt vs vals x loss bumps)) = map lpath (filter (denote wrt) vs).
Proof. exact grad_paths_selected. Qed.
Print Assumptions C08_grad_paths_selected.
Theorem C08_deriv_is_derivative : forall i vals x e h, i < length vals ->
  exists r, geval (upd i (Z.add h) vals) x e = (geval vals x e + h * geval vals x (deriv i e) + h * h * r)%Z.
Proof. exact deriv_is_derivative. Qed.
Print Assumptions C08_deriv_is_derivative.

(* F22 inside the model: a body that increments a broadcast Variable; scan drops the write, the loop keeps it *)
(* the axis arithmetic of nnx.scan / nnx.vmap state: jnp.moveaxis(x, axis, 0) on the way in and jnp.moveaxis(x, 0, axis)
   on the way out are the transpositions to_front / from_front, which are inverse for every rank and (negative) axis *)
Theorem C08_moveaxis_in : forall n ax, 0 < n -> moveaxis_perm n ax 0 = to_front_perm n ax.
Proof. exact moveaxis_to_front. Qed.
Theorem C08_moveaxis_out : forall n ax, valid_axis n ax -> moveaxis_perm n 0 ax = from_front_perm n ax.
Proof. exact moveaxis_from_front. Qed.
Theorem C08_moveaxis_inverse : forall n ax, valid_axis n ax -> 0 < n ->
  compose_perm (moveaxis_perm n ax 0) (moveaxis_perm n 0 ax) = seq 0 n.
Proof. exact moveaxis_inverse. Qed.
Print Assumptions C08_moveaxis_inverse.

(* arguments that alias one Variable: the call is accepted exactly when no Variable is reached under two different
   specifications, and then every occurrence carries the one specification the Variable is treated under *)
Theorem C08_aliasing_accepted_iff_consistent : forall os, alias_ok os = true <-> forall v p q, In (v, p) os -> In (v, q) os -> p = q.
Proof. exact alias_ok_spec. Qed.
Print Assumptions C08_aliasing_accepted_iff_consistent.
Theorem C08_aliased_arguments_are_one_object : forall os v p, alias_ok os = true -> In (v, p) os -> spec_for v os = Some p.
Proof. exact alias_ok_one_spec. Qed.
Print Assumptions C08_aliased_arguments_are_one_object.

Example C08_broadcast_write_refuted :
  let specs := [SAxis 0; SNone] in
  let b := mkBody [BAddTo 1 (BConst 1); BSetC (BAdd BC (BAdd BX (BSum 1)))] BC in
  let orig := [Slices [[0]; [1]; [2]]; Whole [5]]%Z in
  snd (fst (scan_loop specs b orig [0; 1; 2] [0; 1; 2]%Z (orig, 0%Z) [])) = 21%Z /\
  snd (fst (loop_ref specs b [0; 1; 2] [0; 1; 2]%Z (orig, 0%Z) [])) = 24%Z.
Proof. vm_compute. split; reflexivity. Qed.

(* non-vacuity of C08_scan_is_loop and of the vmap theorem *)
Example C08_example :
  let sa := [(NType 11, SAxis 0); (NType 12, SCarry); (NEllipsis, SNone)] in
  let vs := [mkVar (mkLeaf [1%N] [11; 10]%N None 0) (Slices [[1; 2]; [3; 4]]%Z);
             mkVar (mkLeaf [2%N] [12; 10]%N None 0) (Whole [7]%Z);
             mkVar (mkLeaf [3%N] [13; 10]%N None 0) (Whole [5]%Z)] in
  let b := mkBody [BAddTo 0 (BAdd BX (BSum 2)); BAddTo 1 (BSum 0); BSetC (BAdd BC (BSum 1))] (BMul BC BX) in
  all_specs sa vs = Some [SAxis 0; SCarry; SNone] /\
  scan_inv [SAxis 0; SCarry; SNone] (map v_val vs) (map v_val vs) /\
  writes b 2 = false /\
  scan_model sa b true vs 1%Z [2; 3]%Z = Ok ([Slices [[8; 9]; [11; 12]]; Whole [47]]%Z ++ [Whole [5]%Z], 78%Z, [156; 93]%Z).
Proof.
  split; [reflexivity|]. split; [|split; reflexivity].
  split; [reflexivity|]. split; [reflexivity|].
  intros j s H. destruct j as [|[|[|j]]]; cbn in H; try (destruct j; discriminate); inversion H; subst; cbn; auto.
Qed.
