(* C18 -- Linen<->NNX bridge wrappers behave like the module they wrap. *)
From Flaxm Require Import Lib.Harness Model.Filters Model.Linen Model.Bridge Proofs.Bridge.

(* the name <-> type registry: asking for the type of a collection name (creating one if needed) and asking for the
   name of a type (registering the class name if needed) keep the registry injective and are inverse to each other *)
Theorem C18_type_from_name : forall r nm t r', reg_inj r -> type_from_name r nm = (t, r') ->
  reg_inj r' /\ type_of_name r' nm = Some t /\ name_of_type r' t = Some nm /\ (forall n0 t0, In (n0, t0) r -> In (n0, t0) r').
Proof. exact type_from_name_spec. Qed.
Print Assumptions C18_type_from_name.
Theorem C18_name_from_type : forall r t cn n r', reg_inj r -> name_from_type r t cn = Some (n, r') ->
  reg_inj r' /\ type_of_name r' n = Some t /\ name_of_type r' t = Some n.
Proof. exact name_from_type_spec. Qed.
Print Assumptions C18_name_from_type.

(* ToNNX merging the updates of mutable collections: exactly the updated leaves change, at any depth *)
(* register_variable_name(name, typ, overwrite): afterwards the name maps to the type and every other name keeps its type
   (so a type that lost its name is looked up afresh); without overwrite a taken name is refused *)
Theorem C18_register_spec : forall r nm t ow r', reg_register r nm t ow = Some r' ->
  forall nm', type_of_name r' nm' = if N.eqb nm nm' then Some t else type_of_name r nm'.
Proof. exact register_spec. Qed.
Theorem C18_register_refuses_taken_name : forall r nm t t0, type_of_name r nm = Some t0 -> reg_register r nm t false = None.
Proof. exact register_refuses_taken_name. Qed.
Print Assumptions C18_register_spec.

Theorem C18_merge_updates : forall a upd q,
  fm_get q (merge_updates a upd) = match fm_get q (to_nnx upd) with Some v => Some v | None => fm_get q a end.
Proof. exact merge_updates_get. Qed.
Print Assumptions C18_merge_updates.

(* reading the attributes back as Linen variables: collection c holds x at path p exactly when the attribute at p has
   the type registered for c and the value x; so names and values survive the conversion *)
Theorem C18_to_linen_faithful : forall a c p x, NoDup (map fst a) ->
  (lv_get (to_linen a) c p = Some x <-> fm_get p a = Some (c, x)).
Proof. exact to_linen_get. Qed.
Print Assumptions C18_to_linen_faithful.
Theorem C18_tonnx_state_after_call : forall a upd c p x, NoDup (map fst a) ->
  (lv_get (to_linen (merge_updates a upd)) c p = Some x <->
   match fm_get p (to_nnx upd) with Some v => v = (c, x) | None => fm_get p a = Some (c, x) end).
Proof. exact tonnx_state_after_call. Qed.
Print Assumptions C18_tonnx_state_after_call.

(* F11: one name in two collections at one path -- the attribute tree keeps only the later collection's entry *)
Example C18_same_name_refuted :
  let v : lvars := [(5%N, [([NExp 1], SVec [1%Z])]); (8%N, [([NExp 1], SVec [5%Z])])] in
  lv_get (to_linen (to_nnx v)) 5 [NExp 1] = None /\ lv_get v 5 [NExp 1] = Some (SVec [1%Z]).
Proof. vm_compute. split; reflexivity. Qed.

(* F23 (repaired): the shallow union dropped the parameters of a module nested two levels deep *)
Example C18_shallow_merge_refuted :
  let a : attrs := [([NExp 1; NExp 2; NExp 3], (5%N, SVec [1%Z])); ([NExp 1; NExp 2; NExp 4], (1%N, SVec [0%Z]))] in
  let upd : lvars := [(1%N, [([NExp 1; NExp 2; NExp 4], SVec [1%Z])])] in
  fm_get [NExp 1; NExp 2; NExp 3] (merge_updates_old a upd) = None /\
  fm_get [NExp 1; NExp 2; NExp 3] (merge_updates a upd) = Some (5%N, SVec [1%Z]) /\
  fm_get [NExp 1; NExp 2; NExp 4] (merge_updates a upd) = Some (1%N, SVec [1%Z]).
Proof. vm_compute. repeat split; reflexivity. Qed.

(* NOT proved (decided per run by the correspondence, which runs Model/Linen.v's apply_m on the variables the wrapper
   holds and compares output and merged state with the real ToNNX, and Model/NnxLift.v's body on the state ToLinen
   receives): that the wrapper's output IS the wrapped module's -- the wrappers call the module itself. *)
