(* C10 -- State-dict/msgpack serialization round-trips exactly and rejects mismatches. *)
From Coq Require Import Permutation.
From Flaxm Require Import Lib.Harness Model.Flatten Model.Serial Proofs.Serial Model.Msgpack Proofs.Msgpack.

(* from_state_dict(t, to_state_dict(t)) = t for every pytree of dict / FrozenDict / list / tuple / namedtuple /
   struct dataclass, nested arbitrarily, any leaves *)
Theorem C10_state_dict_roundtrip : forall t, pwf t = true -> from_state_dict t (to_sd t) = Ok t.
Proof. exact state_dict_roundtrip. Qed.
Print Assumptions C10_state_dict_roundtrip.

(* chunking is undone exactly, for every threshold, rank 0 and multi-dimensional arrays included *)
Theorem C10_unchunk_chunk : forall th s, clean s -> unchunk_leaves (chunk_leaves th s) = Some s.
Proof. exact unchunk_chunk_leaves. Qed.
Print Assumptions C10_unchunk_chunk.
Theorem C10_threshold_irrelevant : forall th1 th2 s, clean s ->
  unchunk_leaves (chunk_leaves th1 s) = unchunk_leaves (chunk_leaves th2 s).
Proof. exact threshold_irrelevant. Qed.
Print Assumptions C10_threshold_irrelevant.
Theorem C10_concat_chunks : forall (n : nat) (l : list N), 1 <= n -> concat (chunks n l) = l.
Proof. intros n l. exact (concat_chunks n l). Qed.
Print Assumptions C10_concat_chunks.

(* list / tuple indices are stored under str(i), and str is injective *)
Theorem C10_index_keys_injective : forall i j, dec i = dec j -> i = j.
Proof. exact dec_inj. Qed.
Print Assumptions C10_index_keys_injective.

(* restoring matches by key: permuting the saved dict's entries changes nothing *)
Theorem C10_restore_by_key : forall fuel p t st1 st2, (forall l, t <> PLeaf l) ->
  Permutation st1 st2 -> NoDup (map fst st1) -> from_sd fuel p t (SDict st1) = from_sd fuel p t (SDict st2).
Proof. exact restore_by_key. Qed.
Print Assumptions C10_restore_by_key.

(* mismatches raise an error naming the path; nothing is invented *)
Theorem C10_missing_key_raises : forall f p kids st k, In k (map fst kids) -> has_key k st = false ->
  from_sd (S f) p (PDict kids) (SDict st) = Err (EMissingKeys p) /\
  from_sd (S f) p (PFrozen kids) (SDict st) = Err (EMissingKeys p).
Proof. exact missing_key_raises. Qed.
Print Assumptions C10_missing_key_raises.
Theorem C10_length_mismatch_raises : forall f p xs st, length st <> length xs ->
  from_sd (S f) p (PList xs) (SDict st) = Err (ELength p) /\ from_sd (S f) p (PTuple xs) (SDict st) = Err (ELength p).
Proof. exact length_mismatch_raises. Qed.
Print Assumptions C10_length_mismatch_raises.
Theorem C10_namedtuple_fields_raise : forall f p ty fields st,
  keyset_eq (map fst st) (map fst fields) = false -> from_sd (S f) p (PNamed ty fields) (SDict st) = Err (EFields p).
Proof. exact field_mismatch_raises. Qed.
Print Assumptions C10_namedtuple_fields_raise.
Theorem C10_dataclass_fields_raise : forall f p c fields st k,
  (In k (map fst fields) /\ has_key k st = false) \/ (In k (map fst st) /\ existsb (key_eqb k) (map fst fields) = false) ->
  from_sd (S f) p (PData c fields) (SDict st) = Err (EFields p).
Proof. exact dataclass_mismatch_raises. Qed.
Print Assumptions C10_dataclass_fields_raise.

(* ---- the wire format: msgpack-python's decoder inverts its encoder on every value within the format's limits,
   consuming exactly the encoding (so trailing or missing bytes are rejected) ---- *)
Theorem C10_decode_encode : forall v, mv_wfb v = true ->
  forall f rest, mv_depth v <= f -> decode f (encode v ++ rest) = Some (v, rest).
Proof. exact decode_encode. Qed.
Print Assumptions C10_decode_encode.

Theorem C10_unpackb_exact : forall v rest, mv_wfb v = true ->
  unpackb (encode v ++ rest) = match rest with [] => Some v | _ => None end.
Proof. exact decode_consumes. Qed.
Print Assumptions C10_unpackb_exact.

(* msgpack_restore(msgpack_serialize(s)) = s: ext payloads of arrays / numpy scalars / complex numbers, nested dicts,
   chunked or not, for every chunk threshold *)
Theorem C10_restore_serialize : forall isz_of th s, clean s -> sd_fits isz_of (chunk_leaves th s) = true ->
  msgpack_restore isz_of (encode (sd_mv (chunk_leaves th s))) = Some s.
Proof. exact restore_serialize. Qed.
Print Assumptions C10_restore_serialize.

(* from_bytes(t, to_bytes(t)) = t: the whole sentence, bytes included *)
Theorem C10_from_bytes_to_bytes : forall isz_of th t, pwf t = true -> clean (to_sd t) ->
  sd_fits isz_of (chunk_leaves th (to_sd t)) = true -> from_bytes isz_of t (to_bytes th t) = Ok t.
Proof. exact from_bytes_to_bytes. Qed.
Print Assumptions C10_from_bytes_to_bytes.

Example C10_bytes_example :
  let isz := isz_table [([105; 56]%N, 1%N)] in
  let a := PLeaf (LArr [105; 56]%N [2; 2]%N 1 [1; 2; 3; 4]%N) in
  let t := PDict [([112]%N, PList [a; PTuple [PLeaf (LInt (-300)); PLeaf LNone; PLeaf (LComplex 7 9)]]); ([113]%N, PNamed 1 [([120]%N, a)])] in
  pwf t = true /\ sd_fits isz (chunk_leaves 1 (to_sd t)) = true /\ from_bytes isz t (to_bytes 1 t) = Ok t /\
  from_bytes isz t (removelast (to_bytes 1 t)) = Err EOther /\ length (to_bytes 1 t) = 256.
Proof. vm_compute. repeat split; reflexivity. Qed.

(* non-vacuity *)
Example C10_example :
  let a := PLeaf (LArr [105; 56]%N [2; 2]%N 1 [1; 2; 3; 4]%N) in
  let t := PDict [([112]%N, PList [a; PTuple [PLeaf (LInt 5); PLeaf LNone]]); ([113]%N, PNamed 1 [([120]%N, a)])] in
  pwf t = true /\ from_state_dict t (to_sd t) = Ok t /\
  unchunk_leaves (chunk_leaves 1 (to_sd t)) = Some (to_sd t) /\ chunk_leaves 1 (to_sd t) <> to_sd t.
Proof. vm_compute. repeat split; try reflexivity. discriminate. Qed.
