(* C19 -- Partition metadata stays aligned with array axes through boxing and transforms. *)
From Flaxm Require Import Lib.Harness Model.Partition Proofs.Partition Model.StateAxesMeta Proofs.StateAxesMeta.

(* stacking a rank-r variable along axis k (any k in [-(r+1), r]) gives names with one entry per dimension and
   the declared partition name at exactly the position where the array gained its axis *)
Theorem C19_add_axis_aligned : forall r k nm names, length names = r -> (- (Z.of_nat r + 1) <= k <= Z.of_nat r)%Z ->
  length (add_axis (Z.of_nat r + 1) k nm names) = S r /\
  nth_error (add_axis (Z.of_nat r + 1) k nm names) (pos r k) = Some (Some nm).
Proof. exact add_axis_aligned. Qed.
Print Assumptions C19_add_axis_aligned.
Theorem C19_stack_same_position : forall r k n shape, length shape = r -> (- (Z.of_nat r + 1) <= k <= Z.of_nat r)%Z ->
  length (stack_shape k n shape) = S r /\ nth_error (stack_shape k n shape) (pos r k) = Some n.
Proof. exact stack_shape_same_position. Qed.
Print Assumptions C19_stack_same_position.

(* slicing removes it again; scan-inside-vmap and vmap-inside-scan are compositions of these *)
Theorem C19_remove_add : forall r k nm names, length names = r -> (- (Z.of_nat r + 1) <= k <= Z.of_nat r)%Z ->
  remove_axis (Z.of_nat r + 1) k nm (add_axis (Z.of_nat r + 1) k nm names) = Some names.
Proof. exact remove_add. Qed.
Print Assumptions C19_remove_add.
Theorem C19_add_remove : forall fr k nm names rest, Z.of_nat (length names) = fr -> (- fr <= k < fr)%Z ->
  remove_axis fr k nm names = Some rest -> add_axis fr k nm rest = names.
Proof. exact add_remove. Qed.
Print Assumptions C19_add_remove.
Theorem C19_add_axis_short_names : forall fr k nm names, (Z.of_nat (length names) <= k)%Z ->
  add_axis fr k nm names = names ++ repeat None (Z.to_nat k - length names) ++ [Some nm].
Proof. exact add_axis_short. Qed.
Print Assumptions C19_add_axis_short_names.

(* F4: the arithmetic before the fix *)
Theorem C19_negative_axis_old_refuted :
  let a := Some 1%N in let b := Some 2%N in
  add_axis_old (-1) 9 [a; b] = [a; Some 9%N; b] /\ stack_shape (-1) 4 [2; 3]%N = [2; 3; 4]%N /\
  remove_axis_old (-1) 9 (add_axis_old (-1) 9 [a; b]) = None.
Proof. exact negative_axis_old_refuted. Qed.

(* logical_to_mesh_axes never uses one mesh axis for two dimensions, and assigns by rule priority *)
Theorem C19_mesh_axes_disjoint : forall names rules res, logical_to_mesh names rules = Some res -> disjoint_entries res.
Proof. exact mesh_axes_disjoint. Qed.
Print Assumptions C19_mesh_axes_disjoint.
Theorem C19_mesh_priority : forall names rules1 rules2 res0 i e,
  nth_error (fold_left (apply_rule names) rules1 res0) i = Some e -> e <> EUnassigned ->
  nth_error (fold_left (apply_rule names) (rules1 ++ rules2) res0) i = Some e.
Proof. exact mesh_priority. Qed.
Print Assumptions C19_mesh_priority.
Theorem C19_rule_fires : forall names res r p, index_of_name (fst r) names = Some p -> nth_error res p = Some EUnassigned ->
  mesh_free (snd r) res = true -> nth_error (apply_rule names res r) p = Some (EMesh (snd r)).
Proof. exact rule_fires. Qed.
Print Assumptions C19_rule_fires.
Theorem C19_spec_length : forall names rules res, logical_to_mesh names rules = Some res -> length res = length names.
Proof. exact length_preserved. Qed.
Print Assumptions C19_spec_length.

Example C19_example :
  logical_to_mesh [Some 1; None; Some 2; Some 3]%N [(1, [10]); (3, [10]); (2, [11; 12]); (1, [13])]%N
  = Some [EMesh [10%N]; ENone; EMesh [11; 12]%N; EUnassigned].
Proof. vm_compute. reflexivity. Qed.

(* NNX transform_metadata with a StateAxes (Model/StateAxesMeta.v): under nnx.vmap (one substate per filter) and under nnx.scan
   (only the vectorized substates are kept) every substate whose filter has an integer axis gets the partition name added /
   removed at THAT axis and every other substate is left alone -- wherever the broadcast / carry filters stand *)
Theorem C19_stateaxes_vmap : forall S (axis_fn : S -> Z -> S) states axes, length states = length axes ->
  update_meta S axis_fn states axes = spec_update S axis_fn states axes.
Proof. exact vmap_update. Qed.
Print Assumptions C19_stateaxes_vmap.
Theorem C19_stateaxes_scan : forall S (axis_fn : S -> Z -> S) per_filter axes placeholder, length per_filter = length axes ->
  let vec := filter (fun sa => is_int (snd sa)) (combine per_filter axes) in
  vec <> [] -> length vec <> length axes \/ Forall (fun a => is_int a = true) axes ->
  update_meta S axis_fn (scan_states S per_filter axes placeholder) axes =
  map (fun sa => match snd sa with SAInt k => axis_fn (fst sa) k | _ => fst sa end) vec.
Proof. exact scan_update. Qed.
Print Assumptions C19_stateaxes_scan.
(* the pairing before the fix (F34) left the vectorized substate untouched when a broadcast filter came first *)
Example C19_stateaxes_scan_old_refuted :
  let f := fun (s : Z) (k : Z) => (s + 100 * (k + 1))%Z in
  update_meta_old Z f (scan_states Z [7; 8]%Z [SANone; SAInt 1] 0%Z) [SANone; SAInt 1] = [8%Z] /\
  update_meta Z f (scan_states Z [7; 8]%Z [SANone; SAInt 1] 0%Z) [SANone; SAInt 1] = [208%Z].
Proof. exact scan_update_old_refuted. Qed.
