(* C11 -- Checkpoint directory survives crashes; retention and step ordering are exact. *)
From Flaxm Require Import Lib.Harness Model.Ckpt Proofs.Ckpt.

(* If save_checkpoint (legacy or Orbax back-end, overwrite=False) is interrupted after ANY number k of atomic
   file-system operations -- torn write of the temporary file included -- the latest checkpoint is complete and
   restorable, and it is the previous latest or the new one (never a partial or temporary file). *)
Theorem C11_crash_atomic : forall d q k, r_overwrite q = false -> wfd d -> LatestOK d ->
  let d' := fst (run_save d q (Some k)) in
  LatestOK d' /\ (latest d' = latest d \/ latest d' = Some (NStep (r_step q))) /\ wfd d'.
Proof. exact crash_safe. Qed.
Print Assumptions C11_crash_atomic.

(* ... for every history of saves each of which may die at any point (or complete); saving continues normally *)
Theorem C11_history_safe : forall h, Forall (fun qc => r_overwrite (fst qc) = false) h -> forall d, wfd d -> LatestOK d ->
  LatestOK (run_history h d) /\ wfd (run_history h d).
Proof. exact history_safe. Qed.
Print Assumptions C11_history_safe.

(* temporaries are never listed *)
Theorem C11_temporaries_never_listed : forall d n, In n (all_checkpoints d) -> is_step n = true.
Proof. exact temporaries_never_listed. Qed.
Print Assumptions C11_temporaries_never_listed.

(* 'latest' is the numerically largest step *)
Theorem C11_latest_is_numeric_max : forall d,
  match latest d with
  | Some n => exists M, n = NStep M /\ present d M /\ forall s, present d s -> (s <= M)%Z
  | None => forall s, ~ present d s
  end.
Proof. exact latest_spec. Qed.
Print Assumptions C11_latest_is_numeric_max.

(* a save at an existing step without overwrite raises and changes nothing, crash point or not *)
Theorem C11_existing_step_raises_unchanged : forall d q c, r_overwrite q = false -> present d (r_step q) ->
  run_save d q c = (d, ErrExists).
Proof. exact existing_step_raises_unchanged. Qed.
Print Assumptions C11_existing_step_raises_unchanged.

(* the legacy back-end rejects every step older than the latest *)
Theorem C11_legacy_rejects_older : forall d q c x, r_orbax q = false -> r_overwrite q = false ->
  present d x -> (r_step q < x)%Z -> exists e, run_save d q c = (d, e) /\ e <> Saved.
Proof. exact legacy_rejects_older. Qed.
Print Assumptions C11_legacy_rejects_older.

(* without overwrite the retention pass only ever removes steps strictly below the newest one *)
Theorem C11_retention_spares_latest : forall d q M, r_overwrite q = false -> wfd d -> present d M ->
  (forall s, present d s -> (s <= M)%Z) -> Forall (below M) (retention_ops d q).
Proof. exact retention_below. Qed.
Print Assumptions C11_retention_spares_latest.

(* F14 (known finding): Orbax + overwrite of the existing latest step is not crash-atomic *)
Theorem C11_orbax_overwrite_crash_refuted :
  let d := [(NStep 3, EDir (Complete 30)); (NStep 2, EDir (Complete 20))] in
  let q := mkReq 3 31 5 true None true in
  LatestOK d /\ let d' := fst (run_save d q (Some 1)) in latest d' = Some (NStep 3%Z) /\ restore d' (NStep 3%Z) = None.
Proof. exact orbax_overwrite_crash_refuted. Qed.

(* non-vacuity: a history with a torn write, a retry and retention with keep_every_n_steps *)
Example C11_example :
  let q (s : Z) (p : N) := mkReq s p 1 false (Some 2%Z) false in
  let h := [(q 1%Z 11%N, None); (q 2%Z 12%N, Some 1); (q 2%Z 13%N, None); (q 3%Z 14%N, None); (q 4%Z 15%N, Some 4); (q 5%Z 16%N, None)] in
  all_checkpoints (run_history h []) = [NStep 1; NStep 3; NStep 5]%Z /\ restore (run_history h []) (NStep 5%Z) = Some 16%N.
Proof. vm_compute. split; reflexivity. Qed.
