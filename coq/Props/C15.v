(* C15 -- FrozenDict and struct dataclasses are immutable values and faithful pytrees. *)
From Coq Require Import Permutation.
From Flaxm Require Import Lib.Harness Model.Frozen Proofs.Frozen Model.Struct Proofs.Struct.

(* A FrozenDict never changes after construction: for every sequence of API calls (freeze, FrozenDict(),
   unfreeze, indexing, copy, pop, tree_map / flatten+unflatten, pickle, module-level copy/pop) interleaved with
   arbitrary mutations of every plain dict the caller holds, before and after. *)
Theorem C15_frozen_never_changes : forall ops1 ops2 l,
  flag_of (st_heap (run ops1)) l = Some true ->
  denote FUEL (st_heap (run (ops1 ++ ops2))) (DFrozen l) = denote FUEL (st_heap (run ops1)) (DFrozen l).
Proof. exact frozen_never_changes. Qed.
Print Assumptions C15_frozen_never_changes.

Theorem C15_held_frozen_is_private : forall ops i l,
  nth_error (st_reg (run ops)) i = Some (DFrozen l) -> flag_of (st_heap (run ops)) l = Some true.
Proof. exact held_frozen_is_private. Qed.
Print Assumptions C15_held_frozen_is_private.

(* it shares no mutable nested dict with what it was built from or with anything it returns *)
Theorem C15_no_private_leak : forall ops i l,
  nth_error (st_reg (run ops)) i = Some (DDict l) -> is_priv (st_heap (run ops)) l = false.
Proof. exact no_private_leak. Qed.
Print Assumptions C15_no_private_leak.
Theorem C15_public_cells_closed : forall ops l c k n,
  is_priv (st_heap (run ops)) l = false -> get_cell (st_heap (run ops)) l = Some c -> In (k, DDict n) c ->
  is_priv (st_heap (run ops)) n = false.
Proof. exact public_cells_closed. Qed.
Print Assumptions C15_public_cells_closed.

(* no API mutates it *)
Theorem C15_no_mutating_api : forall s o s', good s -> step s o = Some s' -> priv_frame (st_heap s) (st_heap s').
Proof. exact api_never_writes_private. Qed.
Print Assumptions C15_no_mutating_api.
Theorem C15_reachable_states_good : forall ops, good (run ops).
Proof. exact run_good. Qed.
Print Assumptions C15_reachable_states_good.

(* equal contents hash equal regardless of insertion order (hash = xor of the entry hashes) *)
Theorem C15_hash_order_independent : forall l1 l2, Permutation l1 l2 -> xor_hash l1 = xor_hash l2.
Proof. exact xor_hash_perm. Qed.
Print Assumptions C15_hash_order_independent.

(* struct.dataclass / PyTreeNode *)
Theorem C15_struct_flatten_roundtrip : forall x, sunflatten (snd (sflatten x)) (fst (sflatten x)) = x.
Proof. exact struct_flatten_roundtrip. Qed.
Print Assumptions C15_struct_flatten_roundtrip.
Theorem C15_struct_leaves_are_data_fields : forall x, fst (sflatten x) = map snd (filter fst (i_fields x)).
Proof. exact struct_leaves_are_data_fields. Qed.
Theorem C15_struct_tree_map_same_class : forall x (g : N -> N),
  let y := sunflatten (snd (sflatten x)) (map g (fst (sflatten x))) in
  i_cls y = i_cls x /\ snd (sflatten y) = snd (sflatten x).
Proof. exact struct_tree_map_same_class. Qed.
Print Assumptions C15_struct_tree_map_same_class.
Theorem C15_replace_only_named : forall x i v j, j <> i -> nth_error (i_fields (replace x i v)) j = nth_error (i_fields x) j.
Proof. exact struct_replace_only_named. Qed.
Theorem C15_struct_data_not_in_treedef : forall x i v w, nth_error (i_fields x) i = Some (true, w) ->
  snd (sflatten (replace x i v)) = snd (sflatten x).
Proof. exact struct_data_not_in_treedef. Qed.
Print Assumptions C15_struct_data_not_in_treedef.
Theorem C15_struct_static_in_treedef : forall x i v w, nth_error (i_fields x) i = Some (false, w) -> v <> w ->
  snd (sflatten (replace x i v)) <> snd (sflatten x).
Proof. exact struct_static_in_treedef. Qed.
Print Assumptions C15_struct_static_in_treedef.

(* non-vacuity: freeze a nested dict, mutate the source and an unfrozen copy, the FrozenDict still reads the same *)
Example C15_example :
  let ops1 := [ONewDict; ONewDict; ONewLeaf 5; OMutSet 1 0%N 2; OMutSet 0 1%N 1; OFreeze 0] in
  let ops2 := [OMutSet 1 0%N 2; OUnfreeze 3; OGet 4 1%N; OMutSet 5 0%N 2; OMutDel 0 1%N] in
  nth_error (st_reg (run ops1)) 3 = Some (DFrozen 4) /\
  denote FUEL (st_heap (run (ops1 ++ ops2))) (DFrozen 4) = Some (BFrozen [(1%N, BFrozen [(0%N, BLeaf 5)])]) /\
  denote FUEL (st_heap (run (ops1 ++ ops2))) (DDict 0) = Some (BDict []).
Proof. vm_compute. repeat split; reflexivity. Qed.
