(* C01 -- Linen init/apply are pure functions with an explicit mutability contract. *)
From Flaxm Require Import Lib.Harness Model.Filters Model.Linen Proofs.Linen Proofs.LinenInit Proofs.LinenSow.

(* apply is a function of (program, mutable, variables, rngs, arguments): it is a Gallina function; the repeated-
   call oracle of the correspondence check is its implementation-side counterpart *)
Theorem C01_apply_is_function : forall ev top vars x r1 r2, apply_m ev top vars x = r1 -> apply_m ev top vars x = r2 -> r1 = r2.
Proof. intros; congruence. Qed.

(* Only the collections selected by `mutable` can change: every other collection of the final tree is exactly the
   one passed in; no collection disappears; what apply returns are exactly the final collections matching `mutable`
   (so every existing collection matching it, touched or not). For every module program and every filter. *)
Theorem C01_mutable_contract : forall ev top vars x y s, apply_m ev top vars x = Ok (y, s) ->
  (forall c, in_filter (e_mutable ev) c = false -> cassoc c (s_vars s) = cassoc c vars) /\
  (forall c, cassoc c vars <> None -> cassoc c (s_vars s) <> None) /\
  (forall c n, In (c, n) (returned ev (s_vars s)) <-> In (c, n) (s_vars s) /\ in_filter (e_mutable ev) c = true).
Proof. exact mutable_contract. Qed.
Print Assumptions C01_mutable_contract.

(* the same for any sub-computation (any module call at any path, any fuel) *)
Theorem C01_frame : forall ev fuel cls p v s y s', run_call fuel ev cls p v s = Ok (y, s') -> frame_rel ev s s'.
Proof. exact run_call_frame. Qed.
Print Assumptions C01_frame.

(* a write to any other collection raises instead of taking effect *)
Theorem C01_immutable_write_raises : forall ev call p input fr s col nm e v,
  eval (f_locals fr) input e = Some v -> in_filter (e_mutable ev) col = false ->
  step ev call p input fr s (SVarSet col nm e) = Err EModifyScope.
Proof. exact immutable_write_raises. Qed.
Print Assumptions C01_immutable_write_raises.
Theorem C01_immutable_param_init_raises : forall ev call p input fr s x nm n c,
  name_reserved (f_resv fr) nm (Some (e_params ev)) = false -> has_var (s_vars s) (e_params ev) p nm = false ->
  in_filter (e_mutable ev) (e_params ev) = false ->
  step ev call p input fr s (SParam x nm n c) = Err ECollectionNotFound \/ step ev call p input fr s (SParam x nm n c) = Err EParamNotFound.
Proof. exact immutable_param_init_raises. Qed.

(* sow into a collection that is not mutable stores nothing and changes nothing *)
Theorem C01_immutable_sow_is_noop : forall ev call p input fr s col nm e v,
  eval (f_locals fr) input e = Some v -> in_filter (e_mutable ev) col = false ->
  step ev call p input fr s (SSow col nm e) = Ok (fr, s).
Proof. exact immutable_sow_is_noop. Qed.

(* observation never changes the primary output: if the collection C is used by sow only (no variable of it is declared
   or assigned, it is neither the params nor the perturbations collection), then taking C out of `mutable` -- so that
   every sow stores nothing -- gives the same output and the same contents of every other collection, for every
   module program, input and filter *)
Theorem C01_sow_is_inert : forall C evA evB top vars x y sA,
  e_streams evB = e_streams evA -> e_classes evB = e_classes evA -> e_params evB = e_params evA -> e_perturb evB = e_perturb evA ->
  (forall c, c <> C -> in_filter (e_mutable evB) c = in_filter (e_mutable evA) c) -> in_filter (e_mutable evB) C = false ->
  e_params evA <> C -> e_perturb evA <> C -> sow_only C (e_classes evA) = true ->
  apply_m evA top vars x = Ok (y, sA) ->
  exists sB, apply_m evB top vars x = Ok (y, sB) /\ forall c, c <> C -> cassoc c (s_vars sA) = cassoc c (s_vars sB).
Proof. exact sow_is_inert. Qed.
Print Assumptions C01_sow_is_inert.

(* perturb without a perturbation collection returns its argument *)
Theorem C01_perturb_without_collection : forall ev call p input fr s x nm e v,
  eval (f_locals fr) input e = Some v -> in_filter (e_mutable ev) (e_perturb ev) = false -> cassoc (e_perturb ev) (s_vars s) = None ->
  step ev call p input fr s (SPerturb x nm e) = Ok (mkFrame ((x, v) :: f_locals fr) (f_resv fr) (f_auto fr) (f_insts fr), s).
Proof. exact perturb_without_collection. Qed.
Print Assumptions C01_perturb_without_collection.

(* the converse direction of C01_sow_is_inert is false, as in the code: a sown name is reserved only when something is
   stored, so a later child of the same name is accepted by the non-observing run and rejected by the observing one *)
Example C01_sow_reserves_only_when_stored :
  let leaf : mclass := ([], EInput) in
  let top : mclass := ([SSow 6 (NExp 9) EInput; SChild 1 7 (Some 9%N); SCall 1 1 EInput], ELocal 1) in
  let ev m := mkEnv m [0%N] [(7%N, leaf); (0%N, top)] 0 4 in
  match apply_m (ev (FBool true)) 0 [] [3]%Z, apply_m (ev (FDeny (FName 6))) 0 [] [3]%Z with
  | Err ENameInUse, Ok (y, _) => y = [3]%Z
  | _, _ => False end.
Proof. vm_compute. reflexivity. Qed.

Example C01_sow_example :
  let leaf : mclass := ([SParam 1 (NExp 0) 0 2; SSow 6 (NExp 2) (EMul (ELocal 1) EInput); SSow 6 (NExp 2) EInput], EMul (ELocal 1) EInput) in
  let top : mclass := ([SChild 1 7 None; SCall 1 1 EInput; SCall 2 1 (ELocal 1); SSow 6 (NExp 5) (ELocal 2)], ELocal 2) in
  let ev m := mkEnv m [0%N] [(7%N, leaf); (0%N, top)] 0 4 in
  sow_only 6 (e_classes (ev (FBool true))) = true /\
  match apply_m (ev (FBool true)) 0 [] [3]%Z, apply_m (ev (FDeny (FName 6))) 0 [] [3]%Z with
  | Ok (y, sA), Ok (y', sB) => y = y' /\ y = [12]%Z /\ cassoc 0%N (s_vars sA) = cassoc 0%N (s_vars sB) /\
                               cassoc 6%N (s_vars sA) <> None /\ cassoc 6%N (s_vars sB) = None
  | _, _ => False end.
Proof. vm_compute. repeat split; try reflexivity. discriminate. Qed.

(* non-vacuity: a nested program that updates batch_stats; with mutable='batch_stats' the params are untouched *)
Example C01_example :
  let child : mclass := ([SParam 1 (NExp 0) 2 3; SVar 2 1 (NExp 3) 2 0; SVarSet 1 (NExp 3) (EAdd (ELocal 2) EInput)], EMul (ELocal 1) EInput) in
  let top : mclass := ([SChild 1 7 None; SCall 1 1 EInput; SCall 2 1 (ELocal 1)], ELocal 2) in
  let ev m := mkEnv m [0%N] [(7%N, child); (0%N, top)] 0 4 in
  match apply_m (ev (FDeny (FName 3%N))) 0 [] [1; 2]%Z with
  | Ok (y, s) => y = [9; 18]%Z /\
      match apply_m (ev (FName 1%N)) 0 (s_vars s) [1; 2]%Z with
      | Ok (y', s') => y' = [9; 18]%Z /\ cassoc 0%N (s_vars s') = cassoc 0%N (s_vars s) /\ cassoc 1%N (s_vars s') <> cassoc 1%N (s_vars s)
      | Err _ => False end
  | Err _ => False end.
Proof. vm_compute. repeat split; try reflexivity. discriminate. Qed.
