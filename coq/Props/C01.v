From Flaxm Require Import Lib.Harness Model.Linen.
Example C01_placeholder : True. Proof. exact I. Qed.
