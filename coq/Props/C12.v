(* C12 -- Feed-forward layers compute their documented formulas; Linen and NNX agree. *)
From Coq Require Import ZArith QArith Permutation.
From Flaxm Require Import Lib.Harness Model.NdIndex Model.Layers Proofs.Layers Proofs.ConvT Proofs.Conv2 Proofs.NdIndex Proofs.DenseG Model.Dropout Proofs.Dropout Model.Einsum Proofs.Einsum.
Open Scope Z_scope.

(* Conv: what the code does (jnp.pad with the boundary rule, then a VALID convolution) is the documented direct sum
   over the extended signal, for every kernel, stride, dilation, grouping, boundary rule and pad amounts *)
Theorem C12_conv_impl_is_spec : forall c m lo hi x,
  (cv_stride c <> 0)%nat -> (keff c <= length x + lo + hi)%nat -> (ksize c <> 0)%nat ->
  conv_impl c m lo hi x = conv_spec c m (Z.of_nat lo) (out_len (length x) lo hi c) x.
Proof. exact conv_impl_is_spec. Qed.
Print Assumptions C12_conv_impl_is_spec.

(* CAUSAL padding: output position o does not depend on inputs after position o * stride *)
Theorem C12_causal_no_future : forall c x x' o f, length x = length x' ->
  (forall j, (j <= o * cv_stride c)%nat -> nth j x [] = nth j x' []) ->
  conv_out c PZero (Z.of_nat (cv_dil c * (ksize c - 1))) x o f = conv_out c PZero (Z.of_nat (cv_dil c * (ksize c - 1))) x' o f.
Proof. exact conv_causal_no_future. Qed.
Print Assumptions C12_causal_no_future.

(* SAME padding yields ceil(n / stride) output positions, whatever the kernel size and dilation *)
Theorem C12_same_out_len : forall c n, (cv_stride c <> 0)%nat -> (n <> 0)%nat ->
  let '(_, lo, hi) := pads_of PadSame n c in out_len n lo hi c = ceil_div n (cv_stride c).
Proof. exact same_out_len. Qed.
Print Assumptions C12_same_out_len.

(* pooling: the maximum of a window is an element of the window that bounds all of them; a window entirely in the
   padding has no element *)
Theorem C12_max_pool_spec : forall l m, max_list l = Some m -> In m l /\ forall z, In z l -> z <= m.
Proof. exact max_list_spec. Qed.
Print Assumptions C12_max_pool_spec.

(* Embed is a table lookup *)
Theorem C12_embed_lookup : forall table ids j, (j < length ids)%nat -> nth j (embed_lookup table ids) [] = nth (nth j ids 0%nat) table [].
Proof. exact embed_lookup_nth. Qed.
Print Assumptions C12_embed_lookup.

(* normalisation: masked positions cannot influence the statistics; the deviations from the mean sum to zero;
   the running averages at momentum 1 and 0 *)
Theorem C12_norm_mask_noninterference : forall xs xs' mask, length xs = length xs' ->
  (forall j, nth j mask false = true -> nth j xs 0 = nth j xs' 0) -> stats xs mask = stats xs' mask.
Proof. exact stats_mask_noninterference. Qed.
Print Assumptions C12_norm_mask_noninterference.
Theorem C12_layernorm_centered : forall v, v <> [] -> (qsum (map (fun z => inject_Z z - qmean v) v) == 0)%Q.
Proof. exact layernorm_centered. Qed.
Print Assumptions C12_layernorm_centered.
Theorem C12_batchnorm_running_extremes : forall old batch, (running 1 old batch == old /\ running 0 old batch == batch)%Q.
Proof. exact running_extremes. Qed.
Print Assumptions C12_batchnorm_running_extremes.

(* Conv with two spatial dimensions: padding both with jnp.pad (one boundary rule) and convolving VALID is the direct sum
   over the extended image, for every kernel, strides, dilations, grouping, boundary rule and pad amounts *)
Theorem C12_conv2_impl_is_spec : forall c m lo1 hi1 lo2 hi2 w x,
  rect w x -> (c2_s1 c <> 0)%nat -> (c2_s2 c <> 0)%nat ->
  (keff1 c <= length x + lo1 + hi1)%nat -> (keff2 c <= w + lo2 + hi2)%nat ->
  conv2_impl c m lo1 hi1 lo2 hi2 w x =
  conv2_spec c m (Z.of_nat lo1) (Z.of_nat lo2) (olen (length x) lo1 hi1 (keff1 c) (c2_s1 c)) (olen w lo2 hi2 (keff2 c) (c2_s2 c)) x.
Proof. exact conv2_impl_is_spec. Qed.
Print Assumptions C12_conv2_impl_is_spec.
Example C12_conv2_example :
  let c := mkConv2 [[[[1]]; [[2]]]; [[[3]]; [[4]]]] None 1 1 1 1 1 1 1 in
  let x : img := [[[1]; [2]; [3]]; [[4]; [5]; [6]]; [[7]; [8]; [9]]] in
  conv2d c PadValid PadValid 3 x = [[[37]; [47]]; [[67]; [77]]] /\
  conv2d c PadCircular PadCircular 3 x = [[[37]; [47]; [39]]; [[67]; [77]; [69]]; [[34]; [44]; [36]]] /\ rect 3 x.
Proof. vm_compute. repeat split; try reflexivity. repeat constructor. Qed.

(* ---- ConvTranspose (one spatial dimension): lax.conv_transpose is a stride-1 convolution over the input dilated by the
   stride; every output entry is the direct sum over the input rows x[(o + t*d - pa) / s] that the taps meet *)
Theorem C12_convT_dilated_signal : forall s x, (1 <= s)%nat ->
  forall u, nth u (dilate s x) [] = if Nat.eqb (u mod s) 0 then nth (u / s) x [] else [].
Proof. exact nth_dilate. Qed.
Print Assumptions C12_convT_dilated_signal.

Theorem C12_convT_direct_sum : forall c p x o f, (1 <= cv_stride c)%nat -> (o < length (convT_lin c p x))%nat -> (f < cv_feats c)%nat ->
  getc (nth o (convT_lin c p x) []) f =
  zsum (map (fun t => zsum (map (fun ci => getc (tsrc c x (fst (tpads (keff c) (cv_stride c) p)) o t) ci * kget c t ci f) (seq 0 (cv_cin c))))
            (seq 0 (ksize c))).
Proof. exact convT_entry. Qed.
Print Assumptions C12_convT_direct_sum.

(* SAME gives n * s positions, VALID n * s + max(k_eff - s, 0), for every kernel, stride and dilation *)
Theorem C12_convT_same_length : forall c x, x <> [] -> (1 <= cv_stride c)%nat -> length (convT_lin c TSame x) = (length x * cv_stride c)%nat.
Proof. exact convT_same_length. Qed.
Theorem C12_convT_valid_length : forall c x, x <> [] -> (1 <= cv_stride c)%nat ->
  length (convT_lin c TValid x) = (length x * cv_stride c + (keff c - cv_stride c))%nat.
Proof. exact convT_valid_length. Qed.
Print Assumptions C12_convT_valid_length.

(* CIRCULAR: padding the VALID result to whole periods and summing the periods (the layer's reshape + sum) adds up, at
   every position j of the period, exactly the entries whose shifted index is congruent to j *)
Theorem C12_convT_circular_wrap : forall P feats left y j f, (0 < P)%nat -> (j < P)%nat -> (f < feats)%nat ->
  getc (nth j (wrap_sum P feats left y) []) f = resid_sum P left j f y.
Proof. exact wrap_sum_spec. Qed.
Print Assumptions C12_convT_circular_wrap.

Example C12_convT_example :
  let c := mkConv [[[1]]; [[2]]; [[3]]] None 2 1 1 1 1 in
  let x := [[1]; [10]; [100]] in
  conv_transpose1d c TValid false x = [[3]; [2]; [31]; [20]; [310]; [200]; [100]] /\
  conv_transpose1d c TSame false x = [[3]; [2]; [31]; [20]; [310]; [200]] /\
  conv_transpose1d c TCircular false x = [[103]; [2]; [31]; [20]; [310]; [200]] /\
  conv_transpose1d c TCircular true x = [[2]; [31]; [20]; [310]; [200]; [103]].
Proof. vm_compute. repeat split; reflexivity. Qed.

(* the normalised outputs (LayerNorm / RMSNorm / GroupNorm / InstanceNorm) without square roots: what the per-run check
   demands of every unmasked element, at tolerance 0, is that y - bias is the root of
   (y - bias)^2 (var + eps) = scale^2 (x - mean)^2 that has the sign of scale (x - mean) *)
Theorem C12_norm_output_characterised : forall eps x mean var scale bias y, norm_ok 0 eps x mean var scale bias y = true ->
  ((y - bias) * (y - bias) * (var + eps) == scale * scale * ((x - mean) * (x - mean)) /\ 0 <= (y - bias) * scale * (x - mean))%Q.
Proof. exact norm_ok_exact. Qed.
Print Assumptions C12_norm_output_characterised.

(* which elements share their statistics.  The model computes the reduction groups of a whole layer from the shape and the
   axes (Model/NdIndex.v): row-major flat indices and multi-indices are inverse bijections, every element lies in exactly
   one group, and two elements are in one group exactly when ... *)
Theorem C12_flat_index_bijection : forall shape,
  (forall i, (i < prod shape)%nat -> ravel shape (unravel shape i) = i /\ in_range shape (unravel shape i) = true) /\
  (forall idx, in_range shape idx = true -> unravel shape (ravel shape idx) = idx).
Proof. intros shape. split; [exact (ravel_unravel shape)|exact (unravel_ravel shape)]. Qed.
Print Assumptions C12_flat_index_bijection.
Theorem C12_norm_groups_partition : forall (key : nat -> list nat) n i, (i < n)%nat ->
  exists g, In g (groups_by list_nat_eqb key n) /\ In i g /\ forall g', In g' (groups_by list_nat_eqb key n) -> In i g' -> g' = g.
Proof. intros key n i. exact (groups_by_member list_nat_eqb list_nat_eqb_spec key n i). Qed.
Print Assumptions C12_norm_groups_partition.
Theorem C12_norm_group_members : forall (key : nat -> list nat) n g i j, In g (groups_by list_nat_eqb key n) -> In i g ->
  (In j g <-> (j < n)%nat /\ key j = key i).
Proof. intros key n g i j. exact (groups_by_same_key list_nat_eqb list_nat_eqb_spec key n g i j). Qed.
Print Assumptions C12_norm_group_members.
(* ... LayerNorm / RMSNorm / InstanceNorm: they agree on every axis that is not a reduction axis *)
Theorem C12_layer_norm_same_statistics : forall shape red i j,
  reduce_key shape red i = reduce_key shape red j <->
  forall a, (a < length shape)%nat -> ~ In a red -> nth a (unravel shape i) 0%nat = nth a (unravel shape j) 0%nat.
Proof. exact reduce_key_same. Qed.
Print Assumptions C12_layer_norm_same_statistics.
(* ... GroupNorm with g groups over c = g * gs channels: same batch row, and channels in the same block of gs consecutive
   channels (the channel of a flat index is its remainder modulo c) *)
Theorem C12_group_norm_same_statistics : forall s c g gs i j, s <> [] -> c = (g * gs)%nat -> g <> 0%nat -> gs <> 0%nat ->
  (i < prod (s ++ [c]))%nat -> (j < prod (s ++ [c]))%nat ->
  (group_key (s ++ [c]) g i = group_key (s ++ [c]) g j <->
   nth 0 (unravel (s ++ [c]) i) 0%nat = nth 0 (unravel (s ++ [c]) j) 0%nat /\ ((i mod c) / gs = (j mod c) / gs)%nat).
Proof. exact group_key_same. Qed.
Print Assumptions C12_group_norm_same_statistics.
Theorem C12_channel_of_flat_index : forall s c i, (i < prod (s ++ [c]))%nat -> last (unravel (s ++ [c]) i) 0%nat = (i mod c)%nat.
Proof. exact channel_is_mod. Qed.
Print Assumptions C12_channel_of_flat_index.
Example C12_groups_example :
  groups_by list_nat_eqb (group_key [2; 2; 4]%nat 2) 16 = [[0; 1; 4; 5]; [2; 3; 6; 7]; [8; 9; 12; 13]; [10; 11; 14; 15]]%nat /\
  groups_by list_nat_eqb (reduce_key [2; 3; 2]%nat [1]%nat) 12 = [[0; 2; 4]; [1; 3; 5]; [6; 8; 10]; [7; 9; 11]]%nat.
Proof. vm_compute. split; reflexivity. Qed.

(* DenseGeneral / LinearGeneral (no batch_dims): the model is the stated contraction over the flat tensors; the order in which
   the contracted axes are written is irrelevant (kernel dimensions follow them in ascending order) *)
Theorem C12_dense_general_axes_order : forall xshape axes axes' fshape x k bias, Permutation.Permutation axes axes' ->
  dense_general xshape axes fshape x k bias = dense_general xshape axes' fshape x k bias.
Proof. exact dense_general_axes_order. Qed.
Print Assumptions C12_dense_general_axes_order.
Theorem C12_dense_general_shape : forall xshape axes fshape x k bias,
  length (dense_general xshape axes fshape x k bias) = prod (dense_general_oshape xshape axes fshape).
Proof. exact dense_general_length. Qed.
(* ... and over the last axis of a matrix it is Dense: the flat-tensor model and the row model of Dense agree *)
Theorem C12_dense_general_is_dense : forall n cin nout (xs k : list row) b,
  (0 < nout)%nat -> length xs = n -> Forall (fun r => length r = cin) xs -> length k = cin -> Forall (fun r => length r = nout) k ->
  dense_general [n; cin]%nat [1]%nat [nout]%nat (concat xs) (concat k) b = concat (dense k b nout xs).
Proof. exact dense_general_is_dense. Qed.
Print Assumptions C12_dense_general_is_dense.
Example C12_dense_general_example :
  dense_general [2; 3]%nat [1]%nat [2]%nat [1; 2; 3; 4; 5; 6] [1; 0; 0; 1; 1; 1] (Some [10; 20]) = [14; 25; 20; 31] /\
  dense_general [2; 2; 2]%nat [2; 0]%nat [1]%nat [1; 2; 3; 4; 5; 6; 7; 8] [1; 10; 100; 1000] None = [6521; 8743].
Proof. vm_compute. split; reflexivity. Qed.

(* Dropout (Model/Dropout.v; the bits of the Bernoulli draw are a parameter): identity when deterministic or at rate 0,
   zero at rate 1, otherwise entry i is x_i / (1 - rate) where the mask bit of its broadcast position is set and 0
   elsewhere; the mask does not depend on the data; elements that differ only along broadcast_dims share their bit; the
   position read lies inside the broadcast shape *)
Theorem C12_dropout_identity : forall det rate shape bd bits x, det = true \/ (rate == 0)%Q -> dropout det rate shape bd bits x = x.
Proof. exact dropout_identity. Qed.
Print Assumptions C12_dropout_identity.
Theorem C12_dropout_rate_one : forall rate shape bd bits x, (rate == 1)%Q -> dropout false rate shape bd bits x = map (fun _ => 0%Q) x.
Proof. exact dropout_rate_one. Qed.
Print Assumptions C12_dropout_rate_one.
Theorem C12_dropout_entry : forall rate shape bd bits x i, ~ (rate == 0)%Q -> ~ (rate == 1)%Q -> (i < length x)%nat ->
  nth i (dropout false rate shape bd bits x) 0%Q =
  drop_entry (1 - rate)%Q (mask_at shape (norm_dims (length shape) bd) bits i) (nth i x 0%Q).
Proof. exact dropout_entry. Qed.
Print Assumptions C12_dropout_entry.
Theorem C12_dropout_mask_independent_of_data : forall rate shape bd bits, ~ (rate == 0)%Q -> ~ (rate == 1)%Q ->
  exists m : nat -> bool, forall x i, (i < length x)%nat ->
    nth i (dropout false rate shape bd bits x) 0%Q = drop_entry (1 - rate)%Q (m i) (nth i x 0%Q).
Proof. exact dropout_mask_independent_of_data. Qed.
Print Assumptions C12_dropout_mask_independent_of_data.
Theorem C12_dropout_mask_shared_along_broadcast_dims : forall shape bd bits i j,
  (forall a, (a < length shape)%nat -> ~ In a bd -> nth a (unravel shape i) 0%nat = nth a (unravel shape j) 0%nat) ->
  mask_at shape bd bits i = mask_at shape bd bits j.
Proof. exact mask_shared. Qed.
Print Assumptions C12_dropout_mask_shared_along_broadcast_dims.
Theorem C12_dropout_mask_position_in_range : forall shape bd i, (i < prod shape)%nat -> (mask_pos shape bd i < prod (bshape shape bd))%nat.
Proof. exact mask_pos_lt. Qed.
Print Assumptions C12_dropout_mask_position_in_range.
Example C12_dropout_example :
  map Qred (dropout false (1 # 2) [2; 3]%nat [(true, 2%nat)] [true; false; true] [1; 2; 3; 4; 5; 6]%Q) = [2; 0; 6; 8; 0; 12]%Q.
Proof. vm_compute. reflexivity. Qed.

(* Einsum (Model/Einsum.v): every entry of the layer is the stated contraction -- the sum, over all coordinates of the labels
   that do not occur in the result, of x at the input-side coordinates times the kernel at the kernel-side coordinates -- plus
   the bias entry addressed by the coordinates of the result axes whose label occurs in the kernel; for "ij,jk->ik" the
   contraction is the matrix product *)
Theorem C12_einsum_entry : forall sizes lhs rhs out x k bias o, (o < prod (shape_of sizes out))%nat ->
  nth o (einsum_layer sizes lhs rhs out x k bias) 0 =
  einsum_entry sizes lhs rhs out x k o + match bias with Some b => nth (bias_pos sizes rhs out o) b 0 | None => 0 end.
Proof. exact einsum_layer_entry. Qed.
Print Assumptions C12_einsum_entry.
Theorem C12_einsum_matmul : forall (I J K : nat) x k i kk, (i < I)%nat -> (kk < K)%nat ->
  einsum_entry [(0, I); (1, J); (2, K)]%nat [0; 1]%nat [1; 2]%nat [0; 2]%nat x k (i * K + kk) =
  fold_right Z.add 0 (map (fun j => nth (i * J + j) x 0 * nth (j * K + kk) k 0) (seq 0 J)).
Proof. exact einsum_matmul. Qed.
Print Assumptions C12_einsum_matmul.
Theorem C12_einsum_bias_follows_kernel_axes : forall sizes rhs out o o',
  map (fun lc => if in_rhs rhs (fst lc) then snd lc else 0%nat) (asg_of sizes out o) =
  map (fun lc => if in_rhs rhs (fst lc) then snd lc else 0%nat) (asg_of sizes out o') ->
  bias_pos sizes rhs out o = bias_pos sizes rhs out o'.
Proof. exact bias_pos_kernel_axes. Qed.
Print Assumptions C12_einsum_bias_follows_kernel_axes.
(* writing the result labels in another order only transposes the result: entry o' of the permuted equation is the entry of the
   original equation at the same coordinates *)
Theorem C12_einsum_result_order : forall sizes lhs rhs out out' x k o', Permutation out out' -> NoDup out' ->
  (o' < prod (shape_of sizes out'))%nat ->
  einsum_entry sizes lhs rhs out' x k o' =
  einsum_entry sizes lhs rhs out x k (ravel (shape_of sizes out) (coords (asg_of sizes out' o') out)).
Proof. exact einsum_out_permutation. Qed.
Print Assumptions C12_einsum_result_order.
Example C12_einsum_example :
  einsum_layer [(0, 2); (1, 3); (2, 2)]%nat [0; 1]%nat [1; 2]%nat [0; 2]%nat [1; 2; 3; 4; 5; 6] [1; 0; 0; 1; 1; 1] (Some [10; 20]) = [14; 25; 20; 31] /\
  einsum_layer [(0, 2); (1, 3); (2, 2)]%nat [0; 1]%nat [1; 2]%nat [2; 0]%nat [1; 2; 3; 4; 5; 6] [1; 0; 0; 1; 1; 1] (Some [10; 20]) = [14; 20; 25; 31].
Proof. vm_compute. split; reflexivity. Qed.

(* NOT proved (decided per run against the independent numpy reference and, for Dense / Conv1D / Embed / pooling /
   BatchNorm statistics, against this model): DenseGeneral batch_dims, 2-D ConvTranspose, ConvLocal,
   Linen = NNX. *)
Example C12_example :
  let c := mkConv [[[1]; [0]]; [[0]; [2]]; [[1]; [1]]] (Some [1]) 2 1 1 2 1 in
  let x := [[1; 2]; [3; 4]; [5; 6]; [7; 8]; [9; 10]] in
  conv1d c PadSame x = [[12]; [31]; [28]] /\ conv1d c PadCircular x = [[21]; [31]; [31]] /\ conv1d c PadCausal x = [[4]; [21]; [41]] /\
  (keff c <= length x + 1 + 1)%nat.
Proof. vm_compute. repeat split; try reflexivity. repeat constructor. Qed.
