(* C02 -- Variable tree mirrors the module tree; init, apply and shape-only init agree.  (PARTIAL: see the evidence notes) *)
From Flaxm Require Import Lib.Harness Model.Filters Model.Linen Proofs.Linen Proofs.LinenInit Proofs.LinenChild Proofs.LinenShape.

(* a name clash between submodules, between a submodule and a variable, or between two variables of one collection
   raises NameInUse; the same name in two different collections is allowed *)
Theorem C02_child_name_clash : forall ev call p input fr s i cls n,
  name_reserved (f_resv fr) (NExp n) None = true -> step ev call p input fr s (SChild i cls (Some n)) = Err ENameInUse.
Proof. exact child_name_clash. Qed.
Print Assumptions C02_child_name_clash.
Theorem C02_variable_name_clash : forall ev call p input fr s x col nm n c,
  name_reserved (f_resv fr) nm (Some col) = true -> step ev call p input fr s (SVar x col nm n c) = Err ENameInUse.
Proof. exact variable_name_clash. Qed.
Theorem C02_param_name_clash : forall ev call p input fr s x nm n c,
  name_reserved (f_resv fr) nm (Some (e_params ev)) = true -> step ev call p input fr s (SParam x nm n c) = Err ENameInUse.
Proof. exact param_name_clash. Qed.
Theorem C02_child_scope_blocks_every_use_of_its_name : forall r nm col, In (nm, None) r -> name_reserved r nm col = true.
Proof. exact reserved_child_blocks_all. Qed.
Print Assumptions C02_child_scope_blocks_every_use_of_its_name.
Theorem C02_same_name_other_collection_allowed : forall nm c c', c <> c' -> name_reserved [(nm, Some c)] nm (Some c') = false.
Proof. exact same_name_other_collection_allowed. Qed.

(* a missing or wrongly shaped parameter raises instead of being re-initialised *)
Theorem C02_missing_param_raises : forall ev call p input fr s x nm n c,
  name_reserved (f_resv fr) nm (Some (e_params ev)) = false -> has_var (s_vars s) (e_params ev) p nm = false ->
  in_filter (e_mutable ev) (e_params ev) = false ->
  step ev call p input fr s (SParam x nm n c) = Err ECollectionNotFound \/ step ev call p input fr s (SParam x nm n c) = Err EParamNotFound.
Proof. exact immutable_param_init_raises. Qed.
Print Assumptions C02_missing_param_raises.
Theorem C02_wrong_shape_raises : forall ev call p input fr s x nm n c v,
  name_reserved (f_resv fr) nm (Some (e_params ev)) = false -> has_var (s_vars s) (e_params ev) p nm = true ->
  get_var (s_vars s) (e_params ev) p nm = Some (SVec v) -> length v <> psize n input ->
  step ev call p input fr s (SParam x nm n c) = Err EParamShape.
Proof. exact wrong_shape_param_raises. Qed.
Print Assumptions C02_wrong_shape_raises.

(* the variables returned by init are exactly what apply consumes: for every module program that declares, sows and
   perturbs but never overwrites a variable (no put_variable), whatever `mutable` the first run used and whatever
   variables it started from ([] for init), applying the variables it left with the same input and nothing mutable
   returns the same output, finds every parameter and variable (a missing one would raise), runs no initialiser and
   returns the variables unchanged: nothing is created, dropped or renamed *)
Theorem C02_apply_reproduces_init : forall ev F top vars x y s1,
  (forall c, in_filter F c = false) -> ro_classes (e_classes ev) = true ->
  apply_m ev top vars x = Ok (y, s1) ->
  exists s2, apply_m (immut F ev) top (s_vars s1) x = Ok (y, s2) /\ s_vars s2 = s_vars s1 /\ pinits (s_trace s2) = [].
Proof. exact apply_reproduces_init. Qed.
Print Assumptions C02_apply_reproduces_init.

(* the restriction is needed: a program that overwrites a variable it read gives another output the second time *)
Example C02_apply_reproduces_init_needs_ro :
  let top : mclass := ([SVar 1 5 (NExp 0) 1 2; SVarSet 5 (NExp 0) (EAdd (ELocal 1) (ELocal 1))], EMul (ELocal 1) EInput) in
  let ev := mkEnv (FBool true) [0%N] [(0%N, top)] 0 4 in
  match apply_m ev 0 [] [3]%Z with
  | Ok (y, s1) => y = [6]%Z /\ match apply_m (immut (FBool false) ev) 0 (s_vars s1) [3]%Z with Err EModifyScope => True | _ => False end /\
                  match apply_m ev 0 (s_vars s1) [3]%Z with Ok (y2, _) => y2 = [12]%Z | _ => False end
  | Err _ => False end.
Proof. vm_compute. repeat split; reflexivity. Qed.

(* non-vacuity of C02_apply_reproduces_init: nested modules, a shared instance called twice, sow and perturb *)
Example C02_init_apply_example :
  let leaf : mclass := ([SParam 1 (NExp 0) 0 2; SVar 2 5 (NExp 1) 1 7; SSow 6 (NExp 2) (ELocal 1); SPerturb 3 (NExp 3) (EMul (ELocal 1) EInput)],
                        EAdd (ELocal 3) (ELocal 2)) in
  let top : mclass := ([SChild 1 7 None; SChild 2 7 (Some 9%N); SCall 1 1 EInput; SCall 2 2 (ELocal 1); SCall 3 1 (ELocal 2)], ELocal 3) in
  let ev := mkEnv (FDeny (FName 6)) [0%N] [(7%N, leaf); (0%N, top)] 0 4 in
  ro_classes (e_classes ev) = true /\
  match apply_m ev 0 [] [3]%Z with
  | Ok (y, s1) => match apply_m (immut (FBool false) ev) 0 (s_vars s1) [3]%Z with
                  | Ok (y2, s2) => y2 = y /\ y = [73]%Z /\ s_vars s2 = s_vars s1 /\ length (pinits (s_trace s1)) = 2 /\ pinits (s_trace s2) = []
                  | Err _ => False end
  | Err _ => False end.
Proof. vm_compute. repeat split; reflexivity. Qed.

(* shape-only initialisation agrees with concrete init: nothing a module program decides depends on the values arrays hold,
   only on their shapes.  For every program, `mutable`, streams, inputs x x' of the same shape and variable trees of the same
   structure and shapes (veq / trel: names and lengths agree, values are arbitrary): init / apply on the two fail with the
   same error, or succeed with outputs of the same shape, variable trees of the same structure and shapes, the same rng
   counters and the same trace of keys and parameter initialisations.  A shape-only run (eval_shape, jit or lazy_init of
   init) evaluates the program on an abstract array that carries exactly the shape, i.e. it is one of these runs. *)
Theorem C02_shape_only_init_agrees : forall ev top vars vars' x x', veq x x' -> trel vars vars' ->
  rrel outrel (apply_m ev top vars x) (apply_m ev top vars' x').
Proof. exact shape_only_agrees. Qed.
Print Assumptions C02_shape_only_init_agrees.
Theorem C02_shape_only_any_scope : forall ev fuel cls p x x' s s', veq x x' -> srel s s' ->
  rrel outrel (run_call fuel ev cls p x s) (run_call fuel ev cls p x' s').
Proof. exact run_call_shape. Qed.
Print Assumptions C02_shape_only_any_scope.
(* non-vacuity: an input-shaped parameter (like a Dense kernel), sow, perturb and a shared child; zeros vs data *)
Example C02_shape_only_example :
  let leaf : mclass := ([SParam 1 (NExp 0) 0 2; SVar 2 5 (NExp 1) 1 7; SSow 6 (NExp 2) (EMul (ELocal 1) EInput); SPerturb 3 (NExp 3) (EMul (ELocal 1) EInput)],
                        EAdd (ELocal 3) (ELocal 2)) in
  let top : mclass := ([SChild 1 7 None; SCall 1 1 EInput; SCall 2 1 (ELocal 1)], ELocal 2) in
  let ev := mkEnv (FBool true) [0%N] [(7%N, leaf); (0%N, top)] 0 4 in
  match apply_m ev 0 [] [3; -1; 4]%Z, apply_m ev 0 [] [0; 0; 0]%Z with
  | Ok (y, s1), Ok (y', s2) => length y = 3 /\ length y' = 3 /\ y <> y' /\ s_trace s1 = s_trace s2 /\ s_vars s1 <> s_vars s2
  | _, _ => False end.
Proof. vm_compute. repeat split; try reflexivity; discriminate. Qed.

(* each submodule's variables sit under the submodule's name, so a submodule applied on its own sub-tree computes what it
   computes inside its parent: for every program, class, scope path p, input and variable tree V in which p is a scope
   (not a variable), running the module at p on V and running it at the root on the dicts V holds at p give the same
   output (or the standalone run succeeds whenever the inner one does), and every variable the standalone run leaves at
   path q is the one the inner run leaves at p ++ q, in every collection *)
Theorem C02_child_alone_equals_child_inside : forall ev fuel cls p x V cs tr y sA',
  scope_ok p V -> run_call fuel ev cls p x (mkSt V cs tr) = Ok (y, sA') ->
  exists sB', run_call fuel ev cls [] x (mkSt (subtree p V) [] []) = Ok (y, sB') /\
              forall col q nm, get_var (s_vars sB') col q nm = get_var (s_vars sA') col (p ++ q) nm.
Proof. exact child_alone_vars. Qed.
Print Assumptions C02_child_alone_equals_child_inside.

(* the same for a module that is itself nested: any split of the scope path *)
Theorem C02_child_simulation : forall ev p fuel cls q x sA y sA', run_call fuel ev cls (p ++ q) x sA = Ok (y, sA') ->
  forall sB, Rsub p (s_vars sA) (s_vars sB) ->
  exists sB', run_call fuel ev cls q x sB = Ok (y, sB') /\ Rsub p (s_vars sA') (s_vars sB').
Proof. exact run_call_child. Qed.
Print Assumptions C02_child_simulation.

Example C02_child_alone_example :
  let leaf : mclass := ([SParam 1 (NExp 0) 0 2; SVar 2 5 (NExp 1) 1 7; SVarSet 5 (NExp 1) (EAdd (ELocal 2) (ELocal 2))], EAdd (EMul (ELocal 1) EInput) (ELocal 2)) in
  let mid : mclass := ([SChild 1 7 None; SParam 3 (NExp 4) 1 5; SCall 1 1 EInput], EAdd (ELocal 1) (ELocal 3)) in
  let top : mclass := ([SChild 1 8 (Some 9%N); SCall 1 1 EInput; SCall 2 1 (ELocal 1)], ELocal 2) in
  let ev := mkEnv (FBool true) [0%N] [(7%N, leaf); (8%N, mid); (0%N, top)] 0 4 in
  match apply_m ev 0 [] [3]%Z with
  | Ok (_, s1) =>
      let V := s_vars s1 in
      scope_okb [NExp 9] V = true /\
      match run_call FUEL ev 8 [NExp 9] [3]%Z (mkSt V [] []), run_call FUEL ev 8 [] [3]%Z (mkSt (subtree [NExp 9] V) [] []) with
      | Ok (y, sA), Ok (y', sB) => y = y' /\ y = [39]%Z /\
          get_var (s_vars sB) 5 [NAuto 7 0] (NExp 1) = get_var (s_vars sA) 5 [NExp 9; NAuto 7 0] (NExp 1) /\
          get_var (s_vars sB) 5 [NAuto 7 0] (NExp 1) = Some (SVec [56]%Z)
      | _, _ => False end
  | Err _ => False end.
Proof. vm_compute. repeat split; reflexivity. Qed.
Lemma C02_scope_check_sound : forall p V, scope_okb p V = true -> scope_ok p V.
Proof. exact scope_okb_ok. Qed.

(* deterministic automatic names: an unnamed child of class K created when k unnamed children of K exist gets the
   name K_k, and its scope is the parent's path extended by that name *)
Theorem C02_auto_name : forall ev call p input fr s i cls fr' s',
  step ev call p input fr s (SChild i cls None) = Ok (fr', s') ->
  let k := match lassoc cls (f_auto fr) with Some k => k | None => 0 end in
  lassoc i (f_insts fr') = Some (cls, p ++ [NAuto cls k]) /\ lassoc cls (f_auto fr') = Some (S k) /\ s' = s.
Proof.
  intros ev call p input fr s i cls fr' s' H. unfold step in H.
  destruct (name_reserved (f_resv fr) (NAuto cls match lassoc cls (f_auto fr) with Some k => k | None => 0 end) None); [discriminate|].
  inversion H; subst; clear H. simpl. unfold lassoc. simpl. rewrite !N.eqb_refl. simpl. auto.
Qed.
Print Assumptions C02_auto_name.

(* non-vacuity: two unnamed children of one class and one of another *)
Example C02_example :
  let leaf : mclass := ([SParam 1 (NExp 0) 1 2], EMul (ELocal 1) EInput) in
  let top : mclass := ([SChild 1 7 None; SChild 2 8 None; SChild 3 7 None; SCall 1 1 EInput; SCall 2 2 (ELocal 1); SCall 3 3 (ELocal 2)], ELocal 3) in
  let ev := mkEnv (FBool true) [0%N] [(7%N, leaf); (8%N, leaf); (0%N, top)] 0 4 in
  match apply_m ev 0 [] [3]%Z with
  | Ok (y, s) => y = [24]%Z /\ match cassoc 0%N (s_vars s) with Some (VNode kids) => map fst kids = [NAuto 7 0; NAuto 8 0; NAuto 7 1] | _ => False end
  | Err _ => False end.
Proof. vm_compute. split; reflexivity. Qed.
