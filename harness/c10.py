"""C10 -- state-dict / msgpack serialization: correspondence with Model/Serial.v, round-trip oracles."""
import common
from common import cN, cZ, cnat, cbool, clist, copt, cpair

PROOF_FILES = ['Proofs/Serial.v', 'Proofs/Msgpack.v']
ASSUMPTIONS = [
    'msgpack-python packb/unpackb are a correct codec pair for the wire format (the Coq encoder is compared byte-for-byte with packb, and the Coq decoder with unpackb + ext_hook on the real bytes, their strict prefixes and a trailing byte, on every run)',
    'numpy tobytes("C") / frombuffer / reshape / dtype.name; arrays are compared by dtype name, shape and C-order bytes in native byte order',
    'error paths are compared as "/"-joined strings; generated keys contain no "/"',
]
DTYPES = ['bool', 'int8', 'uint8', 'int16', 'uint16', 'int32', 'uint32', 'int64', 'uint64', 'float16', 'float32', 'float64',
          'bfloat16', 'float8_e4m3fn', 'float8_e5m2', 'int4', 'uint4', 'complex64', 'complex128']
SHAPES = [[], [0], [0, 3], [1], [2], [3], [5], [2, 2], [2, 3], [3, 1, 2], [2, 1, 2, 2], [7], [11], [3, 4], [13, 1], [1, 1, 1, 1, 1, 1, 1, 1, 1, 1, 1, 2], [25]]
LAYOUTS = ['C', 'C', 'C', 'F', 'strided', 'neg', 'bcast', 'big']
KEYS = ['a', 'b', 'c', 'params', 'kernel', 'bias', '0', '1', 'x', 'é', '']
HEADER = 'From Flaxm Require Import Lib.Harness Model.Flatten Model.Serial Model.Msgpack.\n'
NTFIELDS = {'NT1': ['a', 'b'], 'NT2': ['x'], 'NT3': ['a', 'c']}
DCFIELDS = {'DC1': ['p', 'q'], 'DC2': ['w'], 'DC3': ['p', 'r']}
TYCODE = {'NT1': 1, 'NT2': 2, 'NT3': 3, 'DC1': 11, 'DC2': 12, 'DC3': 13}


def gen_leaf(rng, seedbox):
  r = rng.random()
  seedbox[0] += 1
  if r < 0.6:
    return {'k': 'arr', 'dtype': rng.choice(DTYPES), 'shape': rng.choice(SHAPES), 'layout': rng.choice(LAYOUTS),
            'jax': rng.random() < 0.3, 'seed': seedbox[0]}
  if r < 0.68:
    return {'k': 'npscalar', 'dtype': rng.choice(['int32', 'float32', 'float64', 'int8', 'uint16']), 'v': rng.randint(0, 100)}
  if r < 0.76:
    return {'k': 'int', 'v': rng.choice([0, 1, -1, 127, 128, -32, -33, 255, 256, 65535, 65536, 2**31, 2**32 - 1, 2**32, 2**63 - 1, -2**63, -129, -32769, 2**64 - 1])}
  if r < 0.82:
    return {'k': 'float', 'v': rng.choice([0.0, -0.0, 1.5, -2.25, 1e300, 3.141592653589793, float('inf')])}
  if r < 0.86:
    return {'k': 'bool', 'v': rng.random() < 0.5}
  if r < 0.89:
    return {'k': 'none'}
  if r < 0.93:
    return {'k': 'str', 'v': rng.choice(['', 'abc', 'é日本', 'x' * 31, 'y' * 32, 'z' * 40])}
  if r < 0.97:
    return {'k': 'bytes', 'v': [rng.randint(0, 255) for _ in range(rng.choice([0, 1, 5, 33]))]}
  return {'k': 'complex', 're': rng.choice([0.0, 1.5, -2.0]), 'im': rng.choice([0.0, 0.25, -7.0])}


def gen_tree(rng, depth, seedbox, root=False):
  if not root and (depth <= 0 or rng.random() < 0.3):
    return gen_leaf(rng, seedbox)
  k = rng.choice(['dict', 'dict', 'frozen', 'list', 'tuple', 'named', 'data'])
  if k in ('dict', 'frozen'):
    ks = rng.sample(KEYS, rng.randint(0, 3))
    return {'k': k, 'kids': [[x, gen_tree(rng, depth - 1, seedbox)] for x in ks]}
  if k in ('list', 'tuple'):
    n = rng.choice([0, 1, 2, 3, 11]) if rng.random() < 0.1 else rng.randint(0, 3)
    return {'k': k, 'xs': [gen_tree(rng, depth - 1 if n < 5 else 0, seedbox) for _ in range(n)]}
  if k == 'named':
    ty = rng.choice(['NT1', 'NT2'])
    return {'k': 'named', 'ty': ty, 'kids': [[f, gen_tree(rng, depth - 1, seedbox)] for f in NTFIELDS[ty]]}
  ty = rng.choice(['DC1', 'DC2'])
  return {'k': 'data', 'ty': ty, 'kids': [[f, gen_tree(rng, depth - 1, seedbox)] for f in DCFIELDS[ty]]}


def container_paths(c, path=()):
  """paths (in state-dict keys) of every container of a canonical state dict"""
  out = []
  if c['k'] in ('dict', 'frozen'):
    out.append((list(path), [k for k, _ in c['kids']]))
    for k, v in c['kids']:
      out += container_paths(v, path + (k,))
  return out


def ckey(s):
  return clist([cN(b) for b in s.encode('utf-8')])


def hexbytes(h):
  return clist([cN(b) for b in bytes.fromhex(h)])


def cleaf(c):
  k = c['k']
  if k == 'arr':
    return '(LArr %s %s %s %s)' % (ckey(c['dtype']), clist([cN(d) for d in c['shape']]), cN(c['itemsize']), hexbytes(c['hex']))
  if k == 'npscalar':
    return '(LNpScalar %s %s %s)' % (ckey(c['dtype']), cN(c['itemsize']), hexbytes(c['hex']))
  if k == 'int':
    return '(LInt %s)' % cZ(c['v'])
  if k == 'float':
    return '(LFloat %s)' % cN(c['bits'])
  if k == 'bool':
    return '(LBool %s)' % cbool(c['v'])
  if k == 'none':
    return 'LNone'
  if k == 'str':
    return '(LStr %s)' % ckey(c['v'])
  if k == 'bytes':
    return '(LBytes %s)' % clist([cN(b) for b in c['v']])
  if k == 'complex':
    return '(LComplex %s %s)' % (cN(c['re']), cN(c['im']))
  raise ValueError(c)


def cptree(c):
  k = c['k']
  if k == 'dict':
    return '(PDict %s)' % clist([cpair(ckey(a), cptree(b)) for a, b in c['kids']])
  if k == 'frozen':
    return '(PFrozen %s)' % clist([cpair(ckey(a), cptree(b)) for a, b in c['kids']])
  if k == 'list':
    return '(PList %s)' % clist([cptree(x) for x in c['xs']])
  if k == 'tuple':
    return '(PTuple %s)' % clist([cptree(x) for x in c['xs']])
  if k == 'named':
    return '(PNamed %s %s)' % (cN(TYCODE[c['ty']]), clist([cpair(ckey(a), cptree(b)) for a, b in c['kids']]))
  if k == 'data':
    return '(PData %s %s)' % (cN(TYCODE[c['ty']]), clist([cpair(ckey(a), cptree(b)) for a, b in c['kids']]))
  return '(PLeaf %s)' % cleaf(c)


def csd(c):
  if c['k'] == 'dict':
    return '(SDict %s)' % clist([cpair(ckey(a), csd(b)) for a, b in c['kids']])
  return '(SLeaf %s)' % cleaf(c)


def collect_isz(c, acc):
  if c['k'] == 'dict':
    for _, v in c['kids']:
      collect_isz(v, acc)
  elif c['k'] in ('arr', 'npscalar'):
    acc[c['dtype']] = c['itemsize']


def is_sd(c):
  if c['k'] == 'dict':
    return all(is_sd(v) for _, v in c['kids'])
  return c['k'] in ('arr', 'npscalar', 'int', 'float', 'bool', 'none', 'str', 'bytes', 'complex')


def count_kinds(c, acc):
  acc[c['k']] = acc.get(c['k'], 0) + 1
  for _, v in c.get('kids', []):
    count_kinds(v, acc)
  for v in c.get('xs', []):
    count_kinds(v, acc)
  return acc


def strip_kind(c):
  if isinstance(c, dict):
    return {k: strip_kind(v) for k, v in c.items() if k != 'kind'}
  if isinstance(c, list):
    return [strip_kind(v) for v in c]
  return c


def run(chk):
  rng = chk.rng
  thorough = chk.tier == 'thorough'
  chk.proofs(PROOF_FILES)
  n = 8000 if thorough else 640
  cases = []
  seedbox = [chk.seed * 100000]
  for i in range(n):
    desc = gen_tree(rng, rng.randint(1, 4), seedbox, root=rng.random() < 0.9)
    ths = sorted(set(rng.sample([1, 2, 3, 7, 9, 16, 64], 2) + [2 ** 30]))
    cases.append({'desc': desc, 'thresholds': ths, 'want_bytes': i % 4 == 0, 'mutations': []})
  # mutations need the state dict's shape: generate them generically (the worker skips inapplicable ones)
  W = 12
  # first pass is avoided: mutations are chosen from the description (state-dict keys are predictable)
  def sd_keys(d, path=()):
    out = []
    k = d['k']
    if k in ('dict', 'frozen', 'named', 'data'):
      out.append((list(path), [a for a, _ in d['kids']], k))
      for a, b in d['kids']:
        out += sd_keys(b, path + (a,))
    elif k in ('list', 'tuple'):
      out.append((list(path), [str(i) for i in range(len(d['xs']))], k))
      for i, b in enumerate(d['xs']):
        out += sd_keys(b, path + (str(i),))
    return out
  for c in cases:
    conts = sd_keys(c['desc'])
    for _ in range(3):
      if not conts:
        break
      path, keys, kind = rng.choice(conts)
      op = rng.choice(['drop', 'add', 'rename', 'reverse'])
      if op in ('drop', 'rename') and not keys:
        op = 'add'
      m = {'path': path, 'op': op, 'kind': kind}
      if op in ('drop', 'rename'):
        m['key'] = rng.choice(keys)
      if op == 'add':
        m['key'] = rng.choice(['zz_extra', str(len(keys)), 'a'])
        if m['key'] in keys:
          m['key'] = 'zz_extra'
      if op == 'rename':
        m['new'] = 'zz_renamed'
      c['mutations'].append(m)
  tcases = []
  for i in range(40 if thorough else 8):
    tcases.append({'params': gen_params(rng, seedbox), 'tx': rng.choice(['sgd', 'adam', 'momentum', 'chain']), 'steps': rng.randint(0, 2),
                   'thresholds': [rng.choice([1, 3, 16]), 2 ** 30]})
  payloads = [{'cases': cases[i::W]} for i in range(W)]
  payloads[0]['trainstates'] = tcases
  results = common.run_impl_parallel('impl_c10.py', payloads, workers=W)
  obs = [None] * len(cases)
  for k, r in enumerate(results):
    for j, o in enumerate(r['cases']):
      obs[k + W * j] = o
  kinds = {}
  coq_cases = []
  n_mut = {'ok': 0, 'ELength': 0, 'EMissingKeys': 0, 'EFields': 0, 'EOther': 0}
  isz = {}
  n_dec = [0, 0]
  for i, (c, o) in enumerate(zip(cases, obs)):
    inp = o['input']
    acc = count_kinds(inp, {})
    for k, v in acc.items():
      kinds[k] = kinds.get(k, 0) + v
    nontriv = len([k for k in acc if k in ('dict', 'frozen', 'list', 'tuple', 'named', 'data')]) >= 2 and 'arr' in acc
    chk.count(c['desc'], nontriv)
    if i % 200 == 0:
      chk.sample({'desc': c['desc'], 'thresholds': c['thresholds'], 'mutations': c['mutations']})
    if 'sd_err' in o:
      chk.violation('oracle', 'to_state_dict raised %s' % o['sd_err'], {'desc': c['desc']})
      continue
    want = strip_kind(inp)
    # (i) round trips
    if o['sd_roundtrip'].get('ok') != want:
      chk.violation('oracle', 'from_state_dict(t, to_state_dict(t)) != t', {'desc': c['desc'], 'observed': o['sd_roundtrip']})
    elif o.get('sd_treedef_same', {}).get('ok') is False:
      chk.violation('oracle', 'from_state_dict(t, to_state_dict(t)) is another pytree than t: jax sees other node types (e.g. a FrozenDict node where t has a plain dict inside a FrozenDict)', {'desc': c['desc']})
    restored = set()
    for th, r in o['by_threshold'].items():
      if 'err' in r:
        chk.violation('oracle', 'to_bytes/from_bytes raised %s (threshold %s)' % (r['err'], th), {'desc': c['desc'], 'msg': r.get('msg')})
        continue
      if r['ok']['restored'] != want:
        chk.violation('oracle', 'from_bytes(t, to_bytes(t)) differs from t in structure, container types, dtype, shape or bytes (chunk threshold %s)' % th,
                      {'desc': c['desc'], 'threshold': th, 'restored': r['ok']['restored'], 'expected': want})
      elif r['ok'].get('treedef_same') is False:
        chk.violation('oracle', 'from_bytes(t, to_bytes(t)) is another pytree than t: jax sees other node types at some level (chunk threshold %s)' % th, {'desc': c['desc'], 'threshold': th})
      restored.add(common.canon_hash(r['ok']['raw_restored']))
    # (ii) threshold independence
    if len(restored) > 1:
      chk.violation('oracle', 'the restored value depends on the chunk-size threshold', {'desc': c['desc'], 'thresholds': c['thresholds']})
    # (iii) purity
    if not o['input_unchanged'] or not o['serialize_pure']:
      chk.violation('oracle', 'serialising modified its input', {'desc': c['desc']})
    # (iv) mismatches raise / surplus dict keys ignored / order irrelevant  -- judged by an independent rule
    for m, r in zip(c['mutations'], o['mut']):
      if 'skip' in r:
        continue
      kind, op = m['kind'], m['op']
      must_raise = (op in ('drop', 'rename')) or (op == 'add' and kind in ('list', 'tuple', 'named', 'data'))
      must_ok = op == 'reverse' or (op == 'add' and kind in ('dict', 'frozen'))
      if must_raise and 'err' not in r:
        chk.violation('oracle', 'restoring from a state with a %s entry in a %s did not raise' % ({'drop': 'missing', 'rename': 'renamed', 'add': 'surplus'}[op], kind),
                      {'desc': c['desc'], 'mutation': m, 'observed': r})
      if must_raise and r.get('err') == 'EOther' and not (kind in ('list', 'tuple') and op == 'rename'):
        chk.violation('oracle', 'mismatch raised without naming the path / with an unrelated exception', {'desc': c['desc'], 'mutation': m, 'observed': {k: v for k, v in r.items() if k != 'sd'}})
      if must_raise and 'err' in r and r.get('path') is not None and r['path'] != '/'.join(['.'] + m['path']):
        chk.violation('oracle', 'the error names the wrong path', {'desc': c['desc'], 'mutation': m, 'observed_path': r['path']})
      if must_ok and (r.get('ok') != want):
        chk.violation('oracle', 'reordered / surplus dict entries changed the restored value', {'desc': c['desc'], 'mutation': m, 'observed': {k: v for k, v in r.items() if k != 'sd'}})
      n_mut[r.get('err', 'ok')] = n_mut.get(r.get('err', 'ok'), 0) + 1
    # ---- correspondence
    if not is_sd(o['sd']):
      chk.violation('correspondence', 'to_state_dict returned something that is not a string-keyed dict tree', {'desc': c['desc'], 'sd': o['sd']})
      continue
    muts = []
    for m, r in zip(c['mutations'], o['mut']):
      if 'skip' in r or not is_sd(r['sd']):
        continue
      if 'err' in r:
        if r['err'] == 'EOther':
          e = '(Err EOther)'
        else:
          pth = r.get('path') or ''
          e = '(Err (%s %s))' % (r['err'], clist([ckey(x) for x in pth.split('/')]))
      else:
        e = '(Ok %s)' % cptree(r['ok'])
      muts.append(cpair(csd(r['sd']), e))
    bys = []
    decs = []
    for th, r in o['by_threshold'].items():
      if 'ok' in r and r['ok']['bytes'] is not None and r['ok']['nbytes'] < 3000:
        bys.append(cpair(cN(int(th)), hexbytes(r['ok']['bytes'])))
        rb = r['ok'].get('restore_of_bytes')
        if rb is not None and is_sd(rb):
          collect_isz(rb, isz)
          decs.append(cpair(hexbytes(r['ok']['bytes']), csd(rb), clist([cpair(cnat(k), cbool(x)) for k, x in r['ok']['prefix']]), cbool(r['ok']['extra'])))
          n_dec[0] += 1
          n_dec[1] += len(r['ok']['prefix']) + 1
          if not all(x for _, x in r['ok']['prefix']) or not r['ok']['extra']:
            chk.violation('oracle', 'msgpack_restore accepted a strict prefix of to_bytes(t) or bytes with trailing data', {'desc': c['desc'], 'threshold': th,
                          'prefix': r['ok']['prefix'], 'extra_raises': r['ok']['extra']})
        elif rb is not None:
          chk.violation('correspondence', 'msgpack_restore(to_bytes(t)) is not a string-keyed dict tree', {'desc': c['desc'], 'restored': rb})
    coq_cases.append((i, cpair(cptree(strip_kind(inp)), csd(o['sd']), clist(muts), clist(bys),
                               clist([cN(int(th)) for th in o['by_threshold']]), clist(decs))))
  hdr = HEADER + '''
Definition isz : key -> N := isz_table %s.
Definition is_none {A} (o : option A) : bool := match o with None => true | Some _ => false end.
Definition chk (c : ptree * sd * list (sd * res ptree) * list (N * list N) * list N * list (list N * sd * list (nat * bool) * bool)) : bool :=
  let '(t, s, muts, bys, ths, decs) := c in
  sd_beq (to_sd t) s &&
  res_beq (from_state_dict t s) (Ok t) &&
  forallb (fun m => res_beq (from_state_dict t (fst m)) (snd m)) muts &&
  forallb (fun b => list_beq N.eqb (to_bytes (fst b) t) (snd b)) bys &&
  forallb (fun th => option_beq sd_beq (unchunk_leaves (chunk_leaves th s)) (Some s)) ths &&
  forallb (fun d => let '(bs, r, pre, extra) := d in
             option_beq sd_beq (msgpack_restore isz bs) (Some r) &&
             res_beq (from_bytes isz t bs) (Ok t) &&
             forallb (fun kx => Bool.eqb (is_none (msgpack_restore isz (firstn (fst kx) bs))) (snd kx)) pre &&
             Bool.eqb (is_none (msgpack_restore isz (bs ++ [192%%N]))) extra) decs.
''' % clist([cpair(ckey(k), cN(v)) for k, v in sorted(isz.items())])
  bad = common.coq_mismatches('c10', hdr, [x[1] for x in coq_cases], 'chk', shard=60, timeout=900)
  for j in bad[:8]:
    i = coq_cases[j][0]
    chk.violation('correspondence', 'Model/Serial.v and flax.serialization disagree (state dict, restore result/error, exact bytes of to_bytes, or chunking); '
                  'theorems C10_* no longer transfer', {'desc': cases[i]['desc'], 'mutations': cases[i]['mutations'],
                                                         'observed_sd': obs[i]['sd'], 'observed_mut': [{k: v for k, v in r.items() if k != 'sd'} for r in obs[i]['mut']]})
  chk.cov['traces_validated_against_impl'] = len(coq_cases)
  for c, r in zip(tcases, results[0]['trainstates']):
    chk.count({'trainstate': c}, True)
    if 'err' in r:
      chk.violation('oracle', 'TrainState to_bytes/from_bytes raised %s' % r['err'], {'case': c, 'msg': r.get('msg')})
    else:
      for th, x in r['ok'].items():
        if not (x['same'] and x['type_ok'] and x['step'] == c['steps']):
          chk.violation('oracle', 'TrainState does not round-trip through to_bytes/from_bytes', {'case': c, 'threshold': th, 'observed': x})
  chk.notes['leaf_and_container_kinds_generated'] = kinds
  chk.notes['mutation_outcomes'] = n_mut
  chk.notes['byte_strings_decoded_by_model_and_flax'] = {'valid': n_dec[0], 'prefixes_and_trailing': n_dec[1]}
  chk.cov['rule'] = ('random pytrees (depth<=4) over dict/FrozenDict/list/tuple/2 namedtuples/2 struct dataclasses + TrainState with optax states; leaves: numpy and '
                     'jax arrays of %d dtypes (incl. bfloat16, float8, int4), shapes incl. rank 0 and empty, layouts C/F/strided/negative stride/broadcast/big-endian, python '
                     'scalars at msgpack format boundaries, str/bytes/None/complex; 3 chunk thresholds per tree from {1,2,3,7,9,16,64,2^30}; 3 state mutations per tree '
                     '(drop/add/rename/reverse a key). non-trivial = >=2 container kinds and an array leaf; distinct by canonical JSON hash' % len(DTYPES))
  chk.cov['trusted_base'] = ['Coq 8.16.1 kernel + vm_compute', 'harness/c10.py + impl_c10.py', 'harness/jaxcompat.py', 'msgpack-python (packb / unpackb): modelled by Model/Serial.encode and Model/Msgpack.decode, tied by the byte-level correspondence']


def gen_params(rng, seedbox):
  def arr():
    seedbox[0] += 1
    return {'k': 'arr', 'dtype': rng.choice(['float32', 'float32', 'float16', 'bfloat16']), 'shape': rng.choice([[2], [2, 3], [1], [3, 1, 2]]),
            'layout': 'C', 'jax': True, 'seed': seedbox[0]}
  return {'k': 'dict', 'kids': [['dense', {'k': 'dict', 'kids': [['kernel', arr()], ['bias', arr()]]}], ['emb', arr()]]}
