"""C15 -- FrozenDict immutability (heap model, adversarial mutation) and struct dataclasses."""
import common
from common import cN, cnat, cbool, clist, copt, cpair

PROOF_FILES = ['Proofs/Frozen.v', 'Proofs/Struct.v']
ASSUMPTIONS = [
    'leaves are opaque (lists/tuples/arrays are leaves: flax copies dicts only); keys are interned as N codes',
    'Python local variables inside the API do not escape (the local shallow copy in FrozenDict.pop is modelled as private)',
    'jax.tree_util rebuilds dict/FrozenDict nodes as fresh objects (tree_map, flatten/unflatten); pickle = __reduce__ then constructor',
]
KEYS = ['a', 'b', 'c', 'd']
KC = {k: i for i, k in enumerate(KEYS)}
KC['zz'] = 9
HEADER = 'From Flaxm Require Import Lib.Harness Model.Frozen.\n'


def cop(o):
  k = o['op']
  if k == 'newdict':
    return 'ONewDict'
  if k == 'newleaf':
    return '(ONewLeaf %s)' % cN(o['a'])
  if k == 'freeze':
    return '(OFreeze %s)' % cnat(o['i'])
  if k == 'unfreeze':
    return '(OUnfreeze %s)' % cnat(o['i'])
  if k == 'get':
    return '(OGet %s %s)' % (cnat(o['i']), cN(KC[o['k']]))
  if k == 'copy':
    return '(OCopy %s %s)' % (cnat(o['i']), cnat(o['j']))
  if k == 'pop':
    return '(OPop %s %s)' % (cnat(o['i']), cN(KC[o['k']]))
  if k == 'treemap':
    return '(OTreeMap %s)' % cnat(o['i'])
  if k == 'pickle':
    return '(OPickle %s)' % cnat(o['i'])
  if k == 'copyd':
    return '(OCopyD %s %s)' % (cnat(o['i']), cnat(o['j']))
  if k == 'popd':
    return '(OPopD %s %s)' % (cnat(o['i']), cN(KC[o['k']]))
  if k == 'mutset':
    return '(OMutSet %s %s %s)' % (cnat(o['i']), cN(KC[o['k']]), cnat(o['j']))
  if k == 'mutdel':
    return '(OMutDel %s %s)' % (cnat(o['i']), cN(KC[o['k']]))
  raise ValueError(o)


def cobs(s):
  if isinstance(s, dict):
    tag = 'BFrozen' if 'f' in s else 'BDict'
    items = s.get('f', s.get('d'))
    return '(%s %s)' % (tag, clist([cpair(cN(KC[k]), cobs(v)) for k, v in items]))
  return '(BLeaf %s)' % cN(s)


def run(chk):
  rng = chk.rng
  thorough = chk.tier == 'thorough'
  chk.proofs(PROOF_FILES)
  nseq = 6000 if thorough else 480
  nsteps = 30 if thorough else 24
  seeds = [chk.seed * 1000003 + i for i in range(nseq)]
  W = 12
  payloads = [{'seqs': seeds[i::W], 'nsteps': nsteps} for i in range(W)]
  structs = []
  for i in range(1500 if thorough else 200):
    nf = rng.randint(1, 5)
    fields = [['f%d' % j, rng.choice(['data', 'data', 'static']), rng.choice([None, None, 'shared', 'shared', 'own', 'fwd'])] for j in range(nf)]
    structs.append({'fields': fields, 'base': rng.choice(['dataclass', 'pytreenode']),
                    'values': [rng.randint(-5, 5) if f[1] == 'data' else 's%d' % rng.randint(0, 3) for f in fields],
                    'replace': rng.randint(0, 10)})
  payloads[0]['structs'] = structs
  payloads[1]['xproc'] = [chk.seed * 7919 + i for i in range(600 if thorough else 120)]
  results = common.run_impl_parallel('impl_c15.py', payloads, workers=W)
  seqs = [None] * nseq
  for k, r in enumerate(results):
    for j, o in enumerate(r['seqs']):
      seqs[k + W * j] = o
  coq = []
  opcount = {}
  raised = 0
  for i, s in enumerate(seqs):
    kinds = {o['op'] for o in s['ops']}
    nontriv = any(o['op'] in ('mutset', 'mutdel') and not o['raised'] for o in s['ops']) and \
        any(o['op'] in ('freeze', 'copy', 'pop', 'get') and not o['raised'] for o in s['ops'])
    chk.count({'ops': s['ops']}, nontriv)
    for o in s['ops']:
      opcount[o['op']] = opcount.get(o['op'], 0) + 1
      raised += bool(o['raised'])
    if i % 150 == 0:
      chk.sample({'seed': s['seed'], 'ops': s['ops'][:12], 'final_registry_size': len(s['final'])})
    for p in s['problems'][:3]:
      chk.violation('oracle', p['what'], {'seed': s['seed'], 'nsteps': nsteps, 'ops': s['ops'], 'detail': p})
    coq.append(cpair(clist([cop(o) for o in s['ops']]), clist([cbool(o['raised']) for o in s['ops']]),
                     cnat(s['mid_n']), clist([cobs(x) for x in s['mid']]), clist([cobs(x) for x in s['final']])))
  hdr = HEADER + '''
Definition chk (c : list op * list bool * nat * list obs * list obs) : bool :=
  let '(ops, flags, midn, mid, fin) := c in
  let r := run_flags ops in
  list_beq Bool.eqb (snd r) flags && snap_eqv (snapshot (fst r)) fin &&
  snap_eqv (snapshot (fst (run_flags (firstn midn ops)))) mid.
'''
  bad = common.coq_mismatches('c15', hdr, coq, 'chk', shard=40, timeout=900)
  for i in bad[:8]:
    chk.violation('correspondence', 'Model/Frozen.v and flax FrozenDict disagree on an operation sequence (which operations raise, or the contents of the '
                  'objects held afterwards); C15_frozen_never_changes no longer transfers', {'seed': seqs[i]['seed'], 'nsteps': nsteps, 'ops': seqs[i]['ops'], 'final': seqs[i]['final']})
  chk.cov['traces_validated_against_impl'] = len(coq)
  # ---- struct dataclasses: implementation oracles (the model side is Props/C15 struct theorems)
  keys_true = ['user_metadata_untouched', 'roundtrip_same_class', 'roundtrip_equal', 'replace_new_instance', 'replace_others_same', 'replace_named_changed', 'replace_old_intact',
               'treedef_ignores_data', 'treedef_sees_static', 'jit_no_retrace_on_data', 'jit_retrace_on_static', 'jit_same_class', 'tree_map_same_class',
               'vmap_same_class', 'grad_same_class']
  scoq = []
  for c, r in zip(structs, results[0]['structs']):
    chk.count({'struct': c}, len({f[1] for f in c['fields']}) == 2)
    if 'err' in r:
      chk.violation('oracle', 'struct dataclass case raised: %s' % r['err'], {'case': c})
      continue
    o = r['ok']
    if o['frozen'] is not True:
      chk.violation('oracle', 'assigning a field of a struct dataclass did not raise FrozenInstanceError', {'case': c, 'observed': o['frozen']})
    want_leaves = [float(v) for f, v in zip(c['fields'], c['values']) if f[1] == 'data']
    if o['leaves'] != want_leaves:
      chk.violation('oracle', 'pytree leaves are not exactly the data fields in field order', {'case': c, 'leaves': o['leaves']})
    for k in keys_true:
      if k in o and o[k] is not True:
        chk.violation('oracle', 'struct dataclass: %s is false' % k, {'case': c, 'observed': o})
    scoq.append(cpair(clist([cbool(f[1] == 'data') for f in c['fields']]),
                      clist([cN(v + 10) if f[1] == 'data' else cN(100 + int(v[1:])) for f, v in zip(c['fields'], c['values'])]),
                      clist([cN(int(x) + 10) for x in o['leaves']])))
  shdr = 'From Flaxm Require Import Lib.Harness Model.Struct.\n' + '''
Definition chk (c : list bool * list N * list N) : bool :=
  let '(isdata, vals, leaves) := c in
  let x := mkInst 1 (combine isdata vals) in
  list_beq N.eqb (fst (sflatten x)) leaves && inst_beq (sunflatten (snd (sflatten x)) (fst (sflatten x))) x.
'''
  bad = common.coq_mismatches('c15_struct', shdr, scoq, 'chk', shard=500)
  for i in bad[:5]:
    chk.violation('correspondence', 'Model/Struct.v and flax.struct disagree on the pytree leaves of a dataclass', {'case': structs[i]})
  chk.cov['traces_validated_against_impl'] += len(scoq)
  xp = results[1]['xproc']
  if 'err' in xp:
    chk.violation('oracle', 'unpickling FrozenDicts in a fresh interpreter failed', xp)
  else:
    chk.count({'xproc': xp['n']}, True)
    chk.notes['cross_process_pickle'] = {'frozendicts': xp['n'], 'hashed_before_pickling': xp['hashed'], 'child_hash_seeds': [1, 4242]}
    for b in xp['bad']:
      chk.violation('oracle', 'a FrozenDict pickled in one interpreter and unpickled in another (different string-hash seed) is not equal to / does not hash like / is not found as a key by '
                    'the FrozenDict built there from the same contents', b)
  chk.notes['op_distribution'] = opcount
  chk.notes['ops_that_raised'] = raised
  chk.cov['rule'] = ('%d adaptive sequences of %d operations from {new dict/leaf, freeze/FrozenDict(), unfreeze, indexing, copy(add_or_replace), pop, tree_map / '
                     'flatten+unflatten, pickle, module-level copy/pop, adversarial d[k]=x and del d[k] on every plain dict held} with oracles after every step '
                     '(snapshot-at-birth, id-level aliasing, setitem raises, eq/hash under reordering); %d struct layouts (user metadata shared / own / forwarded from a field marked the other way); FrozenDicts with string contents pickled across interpreters with different hash seeds. non-trivial = the sequence both mutates a '
                     'plain dict and uses a FrozenDict API successfully; distinct by canonical JSON hash' % (nseq, nsteps, len(structs)))
  chk.cov['trusted_base'] = ['Coq 8.16.1 kernel + vm_compute', 'harness/c15.py + impl_c15.py', 'harness/jaxcompat.py']
