"""Implementation side of C14: runs flax.core.scope filter functions (and the NNX filter / split
functions) of /repo's working tree on the cases sent by c14.py."""
import jaxcompat  # noqa: F401  (first)
import common
from flax.core import scope as S


def dec(f):
  if 'b' in f:
    return bool(f['b'])
  if 'n' in f:
    return f['n']
  if 's' in f:
    k = f.get('kind', 'list')
    return {'list': list, 'tuple': tuple, 'set': set, 'frozenset': frozenset}[k](f['s'])
  if 'd' in f:
    return S.DenyList(dec(f['d']))
  raise ValueError(f)


def enc(x):
  if x is True or x is False:
    return {'b': x}
  if isinstance(x, str):
    return {'n': x}
  if isinstance(x, S.DenyList):
    return {'d': enc(x.deny)}
  if isinstance(x, (list, tuple, set, frozenset)):
    return {'s': sorted(x)}
  return {'?': repr(x)}


def safe(fn):
  try:
    return {'ok': fn()}
  except AssertionError:
    return {'err': 'AssertionError'}
  except RecursionError:
    return {'err': 'RecursionError'}
  except Exception as e:  # pylint: disable=broad-except
    return {'err': type(e).__name__}


OPS = {'union': S.union_filters, 'sub': S.subtract_filters, 'inter': S.intersect_filters}


def linen(payload):
  out = []
  probes = payload['probes']
  for c in payload['cases']:
    a, b = dec(c['a']), dec(c['b'])

    def go():
      r = OPS[c['op']](a, b)
      return {'r': enc(r), 'in_r': [S.in_filter(r, p) for p in probes], 'empty_r': S.is_filter_empty(r)}
    o = safe(go)
    o['in_a'] = [S.in_filter(a, p) for p in probes]
    o['in_b'] = [S.in_filter(b, p) for p in probes]
    o['empty_a'] = S.is_filter_empty(a)
    out.append(o)
  return out


def groups(payload):
  import numpy as np
  out = []
  for c in payload['cases']:
    xs = {col: {'v': np.arange(3) + i, 'sub': {'w': np.ones(2)}} for i, col in enumerate(c['cols'])}
    fs = [dec(f) for f in c['filters']]

    def go():
      gs = S.group_collections(xs, fs)
      aliased = any(g[col] is xs[col] or g[col]['sub'] is xs[col]['sub'] for g in gs for col in g)
      same = all((g[col]['v'] == xs[col]['v']).all() for g in gs for col in g)
      return {'groups': [list(g.keys()) for g in gs], 'aliased': aliased, 'values_equal': same, 'n': len(gs)}
    out.append(safe(go))
  return out


def main(payload):
  res = {}
  if 'linen' in payload:
    res['linen'] = linen(payload['linen'])
  if 'groups' in payload:
    res['groups'] = groups(payload['groups'])
  if 'nnx' in payload:
    import impl_c14_nnx
    res['nnx'] = impl_c14_nnx.run(payload['nnx'])
  return res


if __name__ == '__main__':
  common.worker_main(main)
