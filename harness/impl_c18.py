"""Implementation side of C18: ToNNX around Linen module programs, ToLinen around NNX modules."""
import impl_linen as IL   # imports jaxcompat first
import common
import jax
import jax.numpy as jnp
import numpy as np
import flax
import flax.linen as nn
from flax import nnx
from flax.nnx import bridge
from flax.nnx.bridge import variables as bv
from flax.nnx import variablelib
from flax.nnx import traversals

TYPE2COL = {'Param': 'params', 'BatchStat': 'batch_stats', 'Cache': 'cache', 'Intermediate': 'intermediates', 'Perturbation': 'perturbations'}


def leafval(v):
  if isinstance(v, tuple):
    return {'tuple': [[int(a) for a in np.asarray(e).reshape(-1)] for e in v]}
  return [int(a) for a in np.asarray(v).reshape(-1)]


def attrs_of(m):
  d = {k: v for k, v in vars(m).items() if k not in ('module', 'rngs', '_object__state')}
  out = []
  for p, v in traversals.flatten_mapping(d).items():
    tn = type(v).__name__
    out.append({'path': list(p), 'type': tn, 'col': TYPE2COL.get(tn, tn), 'registered': variablelib.variable_name_from_type(type(v)), 'val': leafval(v.value)})
  return out


def as_linen(m):
  d = {k: v for k, v in vars(m).items() if k not in ('module', 'rngs', '_object__state')}
  return IL.canon_vars(bv.nnx_attrs_to_linen_vars(d))


def merge_vars(variables, upd):
  out = {k: v for k, v in flax.core.unfreeze(variables).items()}
  for k, v in flax.core.unfreeze(upd).items():
    out[k] = v
  return out


def tonnx_case(c, pid):
  module = IL.top_module(c['prog'], pid)
  streams = c['streams']
  rngs = nnx.Rngs(**{s: i + 1 for i, s in enumerate(streams)})
  twin_rngs = nnx.Rngs(**{s: i + 1 for i, s in enumerate(streams)})       # advanced in lockstep: what keys the wrapper must hand to the Linen module

  def keys_of(r):
    ks = {name: stream() for name, stream in r.items()}
    if 'params' not in ks and 'default' in ks:
      ks['params'] = ks.pop('default')
    return ks

  def key_trace(tr):
    return sorted([list(e[1]), e[2], e[3]] for e in tr if e[0] == 'key')
  mut = IL.dec_filter(c['mutable'])
  out = {'calls': []}
  x0 = jnp.asarray(np.array(c['xs'][0], dtype=np.int64))
  try:
    m = bridge.ToNNX(module, rngs=rngs)
    del IL.TRACE[:]
    m.lazy_init(x0)
    out['init'] = {'attrs': attrs_of(m), 'vars': as_linen(m), 'keys': key_trace(IL.TRACE)}
    del IL.TRACE[:]
    module.init_with_output(keys_of(twin_rngs), x0)
    out['init']['keys_expected'] = key_trace(IL.TRACE)
  except Exception as e:  # pylint: disable=broad-except
    out['init'] = {'err': IL.classify(e)}
  ref = IL.run_init(module, x0, streams)
  out['ref_init'] = {k: v for k, v in ref.items() if k in ('err', 'vars')}
  if 'err' in out['init'] or 'err' in ref:
    return out
  variables = ref['raw']
  for ci, x in enumerate(c['xs'][1:]):
    xa = jnp.asarray(np.array(x, dtype=np.int64))
    call = {'vars_before': as_linen(m)}
    call_rngs = c.get('call_rngs', [None] * 9)[ci]          # seeds of an nnx.Rngs passed to this call, or None
    kw = {} if call_rngs is None else {'rngs': nnx.Rngs(**{s: 100 + call_rngs + i for i, s in enumerate(streams)})}
    src = twin_rngs if call_rngs is None else nnx.Rngs(**{s: 100 + call_rngs + i for i, s in enumerate(streams)})
    try:
      del IL.TRACE[:]
      y = m(xa, mutable=mut, **kw) if mut is not False else m(xa, **kw)
      call['impl'] = {'out': [int(a) for a in np.asarray(y).reshape(-1)], 'vars': as_linen(m), 'attrs': attrs_of(m), 'keys': key_trace(IL.TRACE)}
    except Exception as e:  # pylint: disable=broad-except
      call['impl'] = {'err': IL.classify(e)}
    try:
      del IL.TRACE[:]
      module.apply(IL.build_vars(call['vars_before']), xa, rngs=keys_of(src), mutable=True)
      call['keys_expected'] = key_trace(IL.TRACE)
    except Exception:  # pylint: disable=broad-except
      call['keys_expected'] = None
    r = IL.run_apply(module, variables, xa, streams, mut)
    if 'err' in r:
      call['ref'] = {'err': r['err']}
    else:
      if r['vars'] is not None:
        variables = merge_vars(variables, IL.build_vars(r['vars']))
      call['ref'] = {'out': r['out'], 'vars': IL.canon_vars(variables), 'updates': r['vars']}
    out['calls'].append(call)
    if 'err' in call['impl'] or 'err' in call['ref']:
      break
  return out


# ---------------- ToLinen ----------------
class Custom(nnx.Variable):
  pass


class SubParam(nnx.Param):
  pass


class Queue(nnx.Variable):
  """an unrelated type whose name sorts between Param and its subclass SubParam"""


class StepStat(nnx.BatchStat):
  pass


VT = {'Param': nnx.Param, 'BatchStat': nnx.BatchStat, 'Cache': nnx.Cache, 'Custom': Custom, 'SubParam': SubParam, 'Queue': Queue, 'StepStat': StepStat}
COLOF = {'Param': 'params', 'BatchStat': 'batch_stats', 'Cache': 'cache', 'Custom': 'Custom', 'SubParam': 'SubParam', 'Queue': 'Queue', 'StepStat': 'StepStat'}


def _double_on_read(variable, value):
  return value * 2


class Sub(nnx.Module):
  pass


class NMod(nnx.Module):
  def __init__(self, desc, rngs=None):
    self.desc = desc
    for v in desc['vars']:
      node = self
      for k in v['path'][:-1]:
        if not hasattr(node, k):
          setattr(node, k, Sub())
        node = getattr(node, k)
      # optionally a per-instance hook and no other metadata: reads see twice the stored value
      kw = {'on_get_value': _double_on_read} if v.get('hook') else {}
      setattr(node, v['path'][-1], VT[v['type']](jnp.asarray(np.array(v['val'], dtype=np.int64)), **kw))

  def _var(self, i):
    x = self
    for k in self.desc['vars'][i]['path']:
      x = getattr(x, k)
    return x

  def __call__(self, x):
    def ev(e):
      k = e[0]
      if k == 'const':
        return jnp.asarray(e[1], dtype=jnp.int64)
      if k == 'x':
        return jnp.sum(x)
      if k == 'c':
        return jnp.asarray(0, dtype=jnp.int64)
      if k == 'sum':
        return jnp.sum(self._var(e[1]).value)
      a, b = ev(e[1]), ev(e[2])
      return a + b if k == 'add' else a * b
    for s in self.desc['body']['stmts']:
      if s[0] == 'addto':
        v = self._var(s[1])
        v.value = v.value + ev(s[2])
      elif s[0] == 'scale':
        v = self._var(s[1])
        v.value = v.value * s[2]
    return ev(self.desc['body']['ret'])


def nstate(m, desc):
  out = {}
  for v in desc['vars']:
    x = m
    for k in v['path']:
      x = getattr(x, k)
    out.setdefault(COLOF[v['type']], {})['/'.join(v['path'])] = [int(a) for a in np.asarray(x.raw_value).reshape(-1)]
  return out


def lvars(variables):
  out = {}
  for col, tree in flax.core.unfreeze(variables).items():
    if col == 'nnx':
      continue
    for p, v in traversals.flatten_mapping(tree).items():
      if isinstance(v, bv.NNXMeta):
        v = v.value
      out.setdefault(col, {})['/'.join(p)] = [int(a) for a in np.asarray(v).reshape(-1)]
  return out


def tolinen_case(c):
  desc = c['desc']
  # a hashable, dataclass-field friendly description
  hdesc = flax.core.freeze(desc) if False else desc

  class Holder:     # ToLinen stores args in a dataclass field; wrap the dict so that it is hashable by identity
    def __init__(self, d):
      self.d = d

    def __getitem__(self, k):
      return self.d[k]
  h = Holder(desc)
  lin = bridge.ToLinen(NMod, args=(h,))
  out = {}
  x0 = jnp.asarray(np.array(c['xs'][0], dtype=np.int64))
  key = jax.random.key(0)
  try:
    y, variables = lin.init_with_output(key, x0)
    out['init'] = {'out': int(y), 'vars': lvars(variables), 'has_graphdef': 'nnx' in variables and 'graphdef' in variables['nnx']}
  except Exception as e:  # pylint: disable=broad-except
    out['init'] = {'err': type(e).__name__, 'msg': str(e)[:200]}
    return out
  twin = NMod(h)
  out['ref_init'] = {'vars': nstate(twin, desc)}      # ToLinen stores the state the module has when it is constructed, then calls it
  out['ref_init']['out'] = int(twin(x0))
  twin = NMod(h)
  out['calls'] = []
  mut = c['mutable']
  for x in c['xs'][1:]:
    xa = jnp.asarray(np.array(x, dtype=np.int64))
    call = {}
    try:
      if mut is False:
        y = lin.apply(variables, xa)
        upd = {}
      else:
        y, upd = lin.apply(variables, xa, mutable=mut)
      call['impl'] = {'out': int(y), 'updates': lvars(upd), 'update_cols': sorted(k for k in upd.keys())}
      variables = merge_vars(variables, upd)
    except Exception as e:  # pylint: disable=broad-except
      call['impl'] = {'err': type(e).__name__, 'msg': str(e)[:200]}
    # reference: the NNX module itself, carrying only the state of the mutable collections over to the next call
    before = nstate(twin, desc)
    yt = twin(xa)
    after = nstate(twin, desc)
    call['ref'] = {'out': int(yt), 'state_after': after}
    # what Linen semantics keep: non-mutable collections are reset to what they were
    keep = lambda col: mut is True or (isinstance(mut, list) and col in mut)
    for v in desc['vars']:
      col = COLOF[v['type']]
      if not keep(col):
        node = twin
        for k in v['path'][:-1]:
          node = getattr(node, k)
        getattr(node, v['path'][-1]).value = jnp.asarray(np.array(before[col]['/'.join(v['path'])], dtype=np.int64)).reshape(np.shape(v['val']))
    call['ref']['kept'] = nstate(twin, desc)
    out['calls'].append(call)
    if 'err' in call['impl']:
      break
  out['final_vars'] = lvars(variables)
  return out


def probe():
  out = {}

  class Two(nn.Module):
    @nn.compact
    def __call__(self, x):
      w = self.param('w', lambda k: jnp.ones(()))
      s = self.variable('stats', 'w', lambda: jnp.full((), 5.0))
      return x * w + s.value
  m = bridge.ToNNX(Two(), rngs=nnx.Rngs(0)).lazy_init(jnp.ones(()))
  want = float(Two().apply(Two().init(jax.random.key(0), jnp.ones(())), jnp.ones(())))
  try:
    got = float(m(jnp.ones(())))
    out['F11-same-name-two-collections'] = {'fails': got != want, 'got': got, 'want': want}
  except Exception as e:  # pylint: disable=broad-except
    out['F11-same-name-two-collections'] = {'fails': True, 'err': type(e).__name__, 'msg': str(e)[:160], 'want': want}

  class Inner(nn.Module):
    @nn.compact
    def __call__(self, x):
      w = self.param('w', lambda k: jnp.ones(()))
      c = self.variable('batch_stats', 'count', lambda: jnp.zeros(()))
      if not self.is_initializing():
        c.value = c.value + 1
      return x * w + c.value

  class Mid(nn.Module):
    @nn.compact
    def __call__(self, x):
      return Inner(name='inner')(x)

  class Top(nn.Module):
    @nn.compact
    def __call__(self, x):
      return Mid(name='mid')(x)
  class Sower(nn.Module):
    @nn.compact
    def __call__(self, x):
      self.sow('intermediates', 'h', x * 2)
      return x + 1
  try:
    ms = bridge.ToNNX(Sower(), rngs=nnx.Rngs(0)).lazy_init(jnp.ones(()))
    y1 = float(ms(jnp.ones(()), mutable=['intermediates']))
    y2 = float(ms(jnp.ones(()), mutable=['intermediates']))
    out['F24-tonnx-sown-tuples'] = {'fails': (y1, y2) != (2.0, 2.0), 'got': [y1, y2]}
  except Exception as e:  # pylint: disable=broad-except
    out['F24-tonnx-sown-tuples'] = {'fails': True, 'err': type(e).__name__, 'msg': str(e)[:160]}
  out['sow_reduce_histories'] = sow_reduce_histories()
  out['tolinen_skip_rng'] = tolinen_skip_rng()
  out['tolinen_partition_specs'] = tolinen_partition_specs()
  m = bridge.ToNNX(Top(), rngs=nnx.Rngs(0)).lazy_init(jnp.ones(()))
  m(jnp.ones(()), mutable=['batch_stats'])
  paths = sorted('/'.join(map(str, p)) for p, _ in nnx.to_flat_state(nnx.state(m)) if p[0] != 'rngs')
  out['F23-tonnx-nested-mutable-drops-params'] = {'fails': 'mid/inner/w' not in paths, 'paths': paths}
  return out


def sow_reduce_histories():
  """ToNNX around a module that keeps running statistics with sow(reduce_fn=...) (a call counter at the top, a running sum in a
  sub-module): after every call of a history the wrapper returns and holds what Linen apply on the variables it held returns"""
  from flax import traverse_util

  def add(a, b):
    return a + b

  class Block(nn.Module):
    @nn.compact
    def __call__(self, x):
      w = self.param('w', lambda k: jnp.asarray(3, dtype=jnp.int64))
      h = x * w
      self.sow('intermediates', 'act_sum', h, init_fn=lambda: jnp.asarray(0, dtype=jnp.int64), reduce_fn=add)
      return h + 1

  class Net(nn.Module):
    @nn.compact
    def __call__(self, x):
      y = Block(name='blk')(x)
      self.sow('intermediates', 'calls', jnp.asarray(1, dtype=jnp.int64), init_fn=lambda: jnp.asarray(0, dtype=jnp.int64), reduce_fn=add)
      c = self.variable('batch_stats', 'n', lambda: jnp.asarray(0, dtype=jnp.int64))
      if not self.is_initializing() and self.is_mutable_collection('batch_stats'):
        c.value = c.value + 1
      return y + c.value

  def held(model):
    flat = {}
    for path, vs in nnx.to_flat_state(nnx.state(model)):
      if issubclass(vs.type, nnx.RngState):
        continue
      flat[(nnx.variable_name_from_type(vs.type), *path)] = vs.value
    return traverse_util.unflatten_dict(flat)

  def enc(t):
    return sorted(('/'.join(map(str, k)), int(v)) for k, v in traverse_util.flatten_dict(t).items())
  bad = []
  lm = Net()
  schedules = [[['intermediates'], ['intermediates'], None, ['intermediates']],
               [['intermediates', 'batch_stats'], ['batch_stats'], ['intermediates'], ['intermediates', 'batch_stats']],
               [None, ['intermediates'], ['intermediates'], ['intermediates']]]
  for sched in schedules:
    try:
      model = bridge.ToNNX(lm, rngs=nnx.Rngs(0)).lazy_init(jnp.asarray(1, dtype=jnp.int64))
      for step, mut in enumerate(sched):
        x = jnp.asarray(step + 2, dtype=jnp.int64)
        before = held(model)
        if mut:
          y_ref, upd = lm.apply(before, x, mutable=mut)
          expected = {**before, **flax.core.unfreeze(upd)}
          y = model(x, mutable=mut)
        else:
          y_ref, expected = lm.apply(before, x), before
          y = model(x)
        after = held(model)
        if int(y) != int(y_ref) or enc(after) != enc(expected):
          bad.append({'schedule': sched, 'step': step, 'y': int(y), 'y_linen': int(y_ref), 'wrapper_state': enc(after), 'linen_apply_on_held_variables': enc(expected)})
          break
    except Exception as e:  # pylint: disable=broad-except
      bad.append({'schedule': sched, 'exc': type(e).__name__, 'msg': str(e)[:200]})
  return bad


def tolinen_skip_rng():
  """ToLinen(skip_rng=True) around an NNX module that builds its own RNG streams: the rngs given to Linen apply still seed those streams --
  the wrapper returns what the NNX module returns with the same state and the key Linen hands out for the stream"""
  class NoisyScale(nnx.Module):
    def __init__(self, rate=0.5, seed=0):
      self.scale = nnx.Param(jnp.full((16,), 2.0))
      self.dropout = nnx.Dropout(rate, rngs=nnx.Rngs(dropout=seed))

    def __call__(self, x):
      return self.dropout(x * self.scale)

  class Probe(nn.Module):
    def __call__(self):
      return self.make_rng('dropout')
  bad = []
  try:
    x = jnp.ones((8, 16))
    k1, k2 = jax.random.key(10), jax.random.key(11)
    model = bridge.ToLinen(NoisyScale, kwargs=dict(rate=0.5, seed=3), skip_rng=True)
    variables = model.init({'params': jax.random.key(0), 'dropout': jax.random.key(1)}, x)
    y1 = np.asarray(model.apply(variables, x, rngs={'dropout': k1}))
    y1b = np.asarray(model.apply(variables, x, rngs={'dropout': k1}))
    y2 = np.asarray(model.apply(variables, x, rngs={'dropout': k2}))
    ref = NoisyScale(rate=0.5, seed=3)
    nnx.reseed(ref, dropout=Probe().apply({}, rngs={'dropout': k1}))
    yr = np.asarray(ref(x))
    if not np.array_equal(y1, y1b):
      bad.append({'what': 'same variables and same dropout key, different outputs'})
    if not np.array_equal(y1, yr):
      bad.append({'what': 'differs from the NNX module with the same state and the key Linen hands out', 'wrapper_row0': y1[0].tolist(), 'nnx_row0': yr[0].tolist()})
    if np.array_equal(y1, y2):
      bad.append({'what': 'two different dropout keys gave the same mask: the rngs passed to apply are ignored'})
  except Exception as e:  # pylint: disable=broad-except
    bad.append({'exc': type(e).__name__, 'msg': str(e)[:200]})
  return bad


def tolinen_partition_specs():
  """the Linen-side partition specs of a ToLinen module equal those of the NNX module it wraps, with per-variable sharding_rules,
  inside an nn.logical_axis_rules context and after nn.set_logical_axis_rules"""
  P = jax.sharding.PartitionSpec

  class Net(nnx.Module):
    def __init__(self, *, rngs):
      init = nnx.initializers.ones_init()
      self.w1 = nnx.Param(nnx.with_partitioning(init, ('embed', 'mlp'))(rngs.params(), (4, 6)))
      self.w2 = nnx.Param(nnx.with_partitioning(init, ('mlp', 'vocab'), sharding_rules=(('vocab', 'model'),))(rngs.params(), (6, 3)))
      self.w3 = nnx.Param(nnx.with_partitioning(init, ('data', None))(rngs.params(), (3, 3)))
      self.b = nnx.Param(jnp.zeros((3,)))

    def __call__(self, x):
      return x @ self.w1 @ self.w2 @ self.w3 + self.b
  bad = []
  try:
    x = jnp.ones((2, 4))
    lm = bridge.to_linen(Net)
    variables = lm.init(jax.random.key(0), x)
    nm = Net(rngs=nnx.Rngs(params=0))

    def compare(tag, absolute=None):
      ls = nn.get_partition_spec(variables)['params']
      ns = nnx.get_partition_spec(nnx.state(nm, nnx.Param))
      for name in ('w1', 'w2', 'w3', 'b'):
        if ls[name] != ns[name].value or (absolute is not None and ls[name] != absolute[name]):
          bad.append({'context': tag, 'variable': name, 'tolinen_spec': str(ls[name]), 'nnx_spec': str(ns[name].value), 'expected': str(absolute[name]) if absolute else None})
    compare('no rules', {'w1': P('embed', 'mlp'), 'w2': P('mlp', 'model'), 'w3': P('data', None), 'b': P()})
    with nn.logical_axis_rules((('embed', 'data'), ('mlp', 'model'))):
      compare('nn.logical_axis_rules context', {'w1': P('data', 'model'), 'w2': P('model', 'model'), 'w3': P('data', None), 'b': P()})
    compare('after the context')
    md = variables['params']['w2'].metadata
    if md.get('sharding') != ('mlp', 'vocab') or md.get('sharding_rules') != (('vocab', 'model'),):
      bad.append({'metadata_of_w2': str(md)})
  except Exception as e:  # pylint: disable=broad-except
    import traceback
    bad.append({'exc': type(e).__name__, 'msg': str(e)[:200], 'tb': traceback.format_exc()[-500:]})
  return bad


def registry_case(c, uid):
  """a history of register_variable_name / variable_name_from_type / variable_type_from_name on names and classes of its own"""
  classes = [type('C18R%d_%d' % (uid, k), (nnx.Variable,), {}) for k in range(c['ntypes'])]
  nm = lambda k: ('c18r%d_n%d' % (uid, k)) if k < 100 else classes[k - 100].__name__       # names 100+k are the class names
  out = []
  for o in c['ops']:
    try:
      if o[0] == 'reg':
        variablelib.register_variable_name(nm(o[1]), classes[o[2]], overwrite=o[3])
        out.append(['ok'])
      elif o[0] == 'name_of':
        out.append(['name', variablelib.variable_name_from_type(classes[o[1]], allow_register=o[2])])
      else:
        t = variablelib.variable_type_from_name(nm(o[1]))
        out.append(['type', classes.index(t) if t in classes else -1])
    except ValueError:
      out.append(['err'])
  names = {nm(k): k for k in list(range(c['nnames'])) + [100 + k for k in range(c['ntypes'])]}
  return [[r[0], names.get(r[1], -1)] if r[0] == 'name' else r for r in out]


def meta_case(c):
  """Linen variables boxed with nn.Partitioned / nn.LogicallyPartitioned (names, rules, an explicit mesh) through ToNNX and back:
  c['params']: [{'kind': 'plain'|'part'|'logical', 'rank': r, 'mesh': bool}]"""
  import flax.linen as nn
  from flax.nnx import bridge
  from flax.nnx.bridge import variables as bv
  mesh = jax.sharding.Mesh(np.array(jax.devices()[:1]).reshape(1, 1), axis_names=('mx', 'my'))
  rules = (('la', 'mx'), ('lb', 'my'))
  def names_of(d):
    pool = ['la', 'lb', None] if d['kind'] == 'logical' else ['mx', 'my', None]
    return tuple(pool[(d['seed'] + j) % 3] for j in range(d['rank']))

  class Probe(nn.Module):
    @nn.compact
    def __call__(self, x):
      tot = jnp.sum(x)
      for i, d in enumerate(c['params']):
        shape = (2,) * d['rank']
        init = nn.initializers.constant(float(i + 1))
        kw = {'mesh': mesh} if d['mesh'] else {}
        if d['kind'] == 'part':
          init = nn.with_partitioning(init, names_of(d), **kw)
        elif d['kind'] == 'logical':
          init = nn.with_logical_partitioning(init, names_of(d), rules=rules, **kw)
        tot = tot + jnp.sum(self.param('p%d' % i, init, shape)) * (i + 2)
      return tot, dict(self.variables['params'])

  def describe(box):
    if not isinstance(box, nn.meta.AxisMetadata):
      return {'type': 'raw'}
    return {'type': type(box).__name__, 'names': list(getattr(box, 'names', ['<missing>'])), 'mesh': getattr(box, 'mesh', '<missing>') is mesh if getattr(box, 'mesh', None) is not None else None,
            'rules': [list(r) for r in getattr(box, 'rules', None)] if getattr(box, 'rules', None) is not None else None}
  x = jnp.ones((2,))
  lm = Probe()
  lv = lm.init(jax.random.key(0), x)
  want = {k: describe(v) for k, v in lv['params'].items()}
  out = {'want': want}
  # the public conversion must leave the caller's Linen variables as they were
  attrs = bv.linen_vars_to_nnx_attrs(lv)
  out['source_after'] = {k: describe(v) for k, v in lv['params'].items()}
  try:
    out['spec_after'] = str(nn.get_partition_spec(lv)['params'])
  except Exception as e:  # pylint: disable=broad-except
    out['spec_after'] = 'EXC:' + type(e).__name__
  out['spec_before'] = str(nn.get_partition_spec(lm.init(jax.random.key(0), x))['params'])
  model = bridge.ToNNX(lm, rngs=nnx.Rngs(0)).lazy_init(x)
  nside = {}
  for i, d in enumerate(c['params']):
    var = getattr(model, 'p%d' % i)
    if d['kind'] == 'plain':
      continue
    nside['p%d' % i] = {'sharding': list(getattr(var, 'sharding')) if getattr(var, 'sharding', None) is not None else None,
                        'rules': [list(r) for r in getattr(var, 'sharding_rules')] if getattr(var, 'sharding_rules', None) is not None else None,
                        'mesh': (getattr(var, 'mesh', None) is mesh) if getattr(var, 'mesh', None) is not None else None}
  out['nnx_side'] = nside
  calls = []
  for _ in range(2):
    y, boxes = model(x)
    yref, _ = lm.apply({'params': {k: getattr(model, k).value for k in want}}, x)
    calls.append({'boxes': {k: describe(v) for k, v in boxes.items()}, 'y': float(y), 'y_ref': float(yref)})
  out['calls'] = calls
  return out


def main(payload):
  if payload.get('probe'):
    return probe()
  if 'meta' in payload:
    res = []
    for c in payload['meta']:
      try:
        res.append({'ok': meta_case(c)})
      except Exception as e:  # pylint: disable=broad-except
        import traceback
        res.append({'err': type(e).__name__, 'tb': traceback.format_exc()[-700:]})
    return {'meta': res}
  res = {'tonnx': [], 'tolinen': []}
  if 'registry' in payload:
    res['registry'] = []
    for i, c in enumerate(payload['registry']):
      try:
        res['registry'].append({'ok': registry_case(c, payload.get('uid', 0) * 10000 + i)})
      except Exception as e:  # pylint: disable=broad-except
        import traceback
        res['registry'].append({'err': type(e).__name__, 'tb': traceback.format_exc()[-700:]})
  for i, c in enumerate(payload.get('tonnx', [])):
    try:
      res['tonnx'].append({'ok': tonnx_case(c, i)})
    except Exception as e:  # pylint: disable=broad-except
      import traceback
      res['tonnx'].append({'err': type(e).__name__, 'tb': traceback.format_exc()[-700:]})
  for c in payload.get('tolinen', []):
    try:
      res['tolinen'].append({'ok': tolinen_case(c)})
    except Exception as e:  # pylint: disable=broad-except
      import traceback
      res['tolinen'].append({'err': type(e).__name__, 'tb': traceback.format_exc()[-700:]})
  return res


if __name__ == '__main__':
  common.worker_main(main)
