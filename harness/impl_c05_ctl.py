"""Implementation side of C05, functional core: flax.core.lift.cond / switch / while_loop around bodies written in a small statement
language (the same language Model/LiftCtl.v interprets), run on real Scopes through flax.core.apply; and the same bodies as plain
Python control flow on the scope."""
import jaxcompat  # noqa: F401
import warnings
warnings.filterwarnings('ignore')
import common
import jax
import jax.numpy as jnp
import numpy as np
import flax
from flax.core import apply, lift

I64 = jnp.int64


def col_filter(f):
  """['all'] | ['none'] | ['names', [...]] | ['deny', [...]]"""
  if f[0] == 'all':
    return True
  if f[0] == 'none':
    return False
  if f[0] == 'names':
    return tuple(f[1])
  return flax.core.DenyList(tuple(f[1]))


def xeval(scope, cr, e):
  k = e[0]
  if k == 'const':
    return jnp.asarray(e[1], dtype=I64)
  if k == 'carry':
    return cr
  if k == 'var':
    v = scope.get_variable(e[1], e[2])
    if v is None:
      raise KeyError('no variable %s/%s' % (e[1], e[2]))      # the harness's own rule: reading a missing variable is an error
    return v
  a, b = xeval(scope, cr, e[1]), xeval(scope, cr, e[2])
  return a + b if k == 'add' else a * b


def krun(scope, cr, stmts):
  for s in stmts:
    if s[0] == 'put':
      scope.put_variable(s[1], s[2], xeval(scope, cr, s[3]))
    else:
      cr = xeval(scope, cr, s[1])
  return cr


def enc_vars(v):
  v = flax.core.unfreeze(v)
  return [[c, [[k, int(np.asarray(a))] for k, a in kids.items()]] for c, kids in v.items()]


def safe(fn):
  try:
    return {'ok': fn()}
  except Exception as e:  # pylint: disable=broad-except
    return {'err': type(e).__name__, 'msg': str(e)[:200]}


def run_case(c):
  variables = {col: {k: jnp.asarray(z, dtype=I64) for k, z in kids} for col, kids in c['vars']}
  mutable = col_filter(c['mutable'])
  c0 = jnp.asarray(c['carry'], dtype=I64)
  out = {}

  def finish(fn):
    def go():
      y, upd = apply(fn, mutable=mutable)(variables)
      return {'y': int(np.asarray(y)), 'upd': enc_vars(upd)}
    return safe(go)
  if c['kind'] == 'while':
    cond_fn = lambda scope, cr: xeval(scope, cr, c['cond']) < c['limit']
    body_fn = lambda scope, cr: krun(scope, cr, c['body'])

    def lifted(scope):
      return lift.while_loop(cond_fn, body_fn, scope, c0, carry_variables=col_filter(c['carry_f']), broadcast_variables=col_filter(c['bcast_f']))

    def plain(scope):
      cr = c0
      while bool(cond_fn(scope, cr)):
        cr = body_fn(scope, cr)
      return cr
  else:
    fns = [(lambda scope, cr, b=b: krun(scope, cr, b)) for b in c['branches']]

    def lifted(scope):
      if c['kind'] == 'cond':
        return lift.cond(bool(c['idx'] == 0), fns[0], fns[1], scope, c0, variables=col_filter(c['vf']))
      return lift.switch(c['idx'], fns, scope, c0, variables=col_filter(c['vf']))

    def plain(scope):
      i = min(max(c['idx'], 0), len(fns) - 1)
      return fns[i](scope, c0)
  out['lifted'] = finish(lifted)
  out['plain'] = finish(plain)
  out['input_after'] = enc_vars(variables)
  return out


def main(payload):
  res = []
  for c in payload['cases']:
    try:
      res.append({'ok': run_case(c)})
    except Exception as e:  # pylint: disable=broad-except
      import traceback
      res.append({'err': type(e).__name__, 'tb': traceback.format_exc()[-600:]})
  return {'cases': res}


if __name__ == '__main__':
  common.worker_main(main)
