"""Independent numpy references for the feed-forward layers (direct sums over index sets; no jax, no flax)."""
import itertools
import math
import numpy as np


def dense(x, k, b):
  y = np.zeros(x.shape[:-1] + (k.shape[1],))
  for idx in np.ndindex(*x.shape[:-1]):
    for o in range(k.shape[1]):
      y[idx + (o,)] = sum(x[idx + (i,)] * k[i, o] for i in range(k.shape[0])) + (b[o] if b is not None else 0.0)
  return y


def dense_general(x, k, b, axis):
  axis = tuple(sorted(a % x.ndim for a in axis))      # kernel dimension i belongs to the i-th smallest contracted axis
  batch = [d for d in range(x.ndim) if d not in axis]
  feat_shape = k.shape[len(axis):]
  y = np.zeros(tuple(x.shape[d] for d in batch) + feat_shape)
  for bi in np.ndindex(*[x.shape[d] for d in batch]):
    for fi in np.ndindex(*feat_shape):
      s = 0.0
      for ci in np.ndindex(*[x.shape[a] for a in axis]):
        xi = [0] * x.ndim
        for d, v in zip(batch, bi):
          xi[d] = v
        for a, v in zip(axis, ci):
          xi[a] = v
        s += x[tuple(xi)] * k[ci + fi]
      y[bi + fi] = s + (b[fi] if b is not None else 0.0)
  return y


def einsum(eq, x, k, b):
  y = np.einsum(eq, x, k)
  if b is not None:
    lhs, res = eq.replace(' ', '').split('->')
    _, rhs = lhs.split(',')
    if '...' in res:
      nell = y.ndim - (len(res) - 3)
      res = res.replace('...', '*' * nell)
    shape = [1] * len(res)
    for i, ch in enumerate(res):
      if ch in rhs:
        shape[i] = k.shape[rhs.index(ch)]
    y = y + b.reshape(shape)
  return y


def _pads(padding, sizes, k_eff, strides, kdil, ksz, nd):
  """per spatial dim: (lo, hi, mode)"""
  if isinstance(padding, str):
    out = []
    for n, ke, s, d, k in zip(sizes, k_eff, strides, kdil, ksz):
      if padding == 'VALID':
        out.append((0, 0, 'zero'))
      elif padding == 'SAME':
        total = max((math.ceil(n / s) - 1) * s + ke - n, 0)
        out.append((total // 2, total - total // 2, 'zero'))
      elif padding == 'CIRCULAR':
        out.append(((ke - 1) // 2, ke // 2, 'wrap'))
      elif padding == 'REFLECT':
        out.append(((ke - 1) // 2, ke // 2, 'reflect'))
      elif padding == 'CAUSAL':
        if nd != 1:
          raise ValueError('causal padding is 1-D only')
        out.append((d * (k - 1), 0, 'zero'))
      else:
        raise ValueError(padding)
    return out
  if isinstance(padding, int):
    return [(padding, padding, 'zero')] * nd
  return [((p, p, 'zero') if isinstance(p, int) else (p[0], p[1], 'zero')) for p in padding]


def _ext(x1, i, n, mode):
  """value of a 1-D signal of length n extended by the boundary rule; returns the source index or None for zero"""
  if 0 <= i < n:
    return i
  if mode == 'zero':
    return None
  if mode == 'wrap':
    return i % n
  if mode == 'reflect':
    if n == 1:
      return 0
    period = 2 * (n - 1)
    j = i % period
    return j if j < n else period - j
  raise ValueError(mode)


def _dilate(x, dil, nd):
  """insert dil-1 zeros between the entries of every spatial dimension of (N, spatial..., C)"""
  for a, d in enumerate(dil):
    if d > 1:
      n = x.shape[1 + a]
      shp = list(x.shape)
      shp[1 + a] = (n - 1) * d + 1 if n > 0 else 0
      y = np.zeros(shp)
      sl = [slice(None)] * x.ndim
      sl[1 + a] = slice(0, None, d)
      y[tuple(sl)] = x
      x = y
  return x


def conv(x, k, b, strides, padding, in_dil, k_dil, groups, mask, nd):
  lead = x.shape[:x.ndim - nd - 1]
  x = x.reshape((-1,) + x.shape[x.ndim - nd - 1:]) if x.ndim != nd + 2 else x
  if mask is not None:
    k = k * mask
  ksz = k.shape[:nd]
  x = _dilate(x, in_dil, nd)
  sizes = x.shape[1:1 + nd]
  k_eff = [(kk - 1) * d + 1 for kk, d in zip(ksz, k_dil)]
  pads = _pads(padding, sizes, k_eff, strides, k_dil, ksz, nd)
  if isinstance(padding, str) and any(d > 1 for d in in_dil):
    raise ValueError('string padding with input dilation is not supported (jax.lax rejects it)')
  outs = [(n + lo + hi - ke) // s + 1 for n, (lo, hi, _), ke, s in zip(sizes, pads, k_eff, strides)]
  if any(o <= 0 for o in outs):
    outs = [max(o, 0) for o in outs]
  cin, feats = x.shape[-1], k.shape[-1]
  cg, fg = cin // groups, feats // groups
  y = np.zeros((x.shape[0],) + tuple(outs) + (feats,))
  for n in range(x.shape[0]):
    for o in np.ndindex(*outs):
      for f in range(feats):
        g = f // fg
        s = 0.0
        for t in np.ndindex(*ksz):
          src = []
          for a in range(nd):
            i = o[a] * strides[a] + t[a] * k_dil[a] - pads[a][0]
            src.append(_ext(None, i, sizes[a], pads[a][2]))
          if any(v is None for v in src):
            continue
          for ci in range(cg):
            s += x[(n,) + tuple(src) + (g * cg + ci,)] * k[t + (ci, f)]
        y[(n,) + o + (f,)] = s + (b[f] if b is not None else 0.0)
  if x.ndim != len(lead) + nd + 1 or len(lead) != 1:
    y = y.reshape(lead + y.shape[1:])
  return y


def conv_local(x, k, b, ksz, strides, padding, k_dil, nd):
  lead = x.shape[:x.ndim - nd - 1]
  x = x.reshape((-1,) + x.shape[x.ndim - nd - 1:]) if x.ndim != nd + 2 else x
  sizes = x.shape[1:1 + nd]
  k_eff = [(kk - 1) * d + 1 for kk, d in zip(ksz, k_dil)]
  pads = _pads(padding, sizes, k_eff, strides, k_dil, ksz, nd)
  outs = [(n + lo + hi - ke) // s + 1 for n, (lo, hi, _), ke, s in zip(sizes, pads, k_eff, strides)]
  cin, feats = x.shape[-1], k.shape[-1]
  y = np.zeros((x.shape[0],) + tuple(outs) + (feats,))
  nk = int(np.prod(ksz))
  for n in range(x.shape[0]):
    for o in np.ndindex(*outs):
      for f in range(feats):
        s = 0.0
        for tf, t in enumerate(np.ndindex(*ksz)):
          src = []
          for a in range(nd):
            i = o[a] * strides[a] + t[a] * k_dil[a] - pads[a][0]
            src.append(_ext(None, i, sizes[a], pads[a][2]))
          if any(v is None for v in src):
            continue
          for ci in range(cin):
            s += x[(n,) + tuple(src) + (ci,)] * k[o + (ci * nk + tf, f)]      # patches are channel-major
        y[(n,) + o + (f,)] = s + (b[o + (f,)] if b is not None else 0.0)
  if len(lead) != 1:
    y = y.reshape(lead + y.shape[1:])
  return y


def conv_transpose(x, k, b, strides, padding, transpose_kernel, nd, kdil=None):
  """the adjoint of the strided forward convolution: y = A^T x where A is the forward conv (stride s, dilation d, same
  padding name) from the output size to the input size; with transpose_kernel=False the kernel is given flipped with
  in/out swapped.  CIRCULAR: the VALID result wrapped periodically with period n*s, centred as the layer documents
  (the odd element of the centring goes left, or right with transpose_kernel)."""
  kdil = list(kdil) if kdil else [1] * nd
  lead = x.shape[:x.ndim - nd - 1]
  x = x.reshape((-1,) + x.shape[x.ndim - nd - 1:]) if x.ndim != nd + 2 else x
  ksz = k.shape[:nd]
  keff = [(kk - 1) * d + 1 for kk, d in zip(ksz, kdil)]
  if not transpose_kernel:
    k = np.flip(k, axis=tuple(range(nd))).swapaxes(-1, -2)      # now (K..., out, in): the forward conv's kernel maps out -> in
  cout, cin = k.shape[-2], k.shape[-1]
  assert cin == x.shape[-1]
  sizes = x.shape[1:1 + nd]
  circular = padding == 'CIRCULAR'
  base = 'VALID' if circular else padding
  if base == 'SAME':
    osz = [n * s for n, s in zip(sizes, strides)]
  elif base == 'VALID':
    osz = [(n - 1) * s + max(ke, s) for n, s, ke in zip(sizes, strides, keff)]
  else:
    raise ValueError(padding)
  y = np.zeros((x.shape[0],) + tuple(osz) + (cout,))
  # forward conv: z[i, ci] = sum_{t, co} ypad[i*s + t*d - lo, co] * k[t, co, ci]; adjoint scatters x[i, ci] back
  pads = _pads(base, osz, keff, strides, kdil, ksz, nd)
  for n in range(x.shape[0]):
    for i in np.ndindex(*sizes):
      for t in np.ndindex(*ksz):
        pos = tuple(i[a] * strides[a] + t[a] * kdil[a] - pads[a][0] for a in range(nd))
        if any(p < 0 or p >= osz[a] for a, p in enumerate(pos)):
          continue
        for co in range(cout):
          y[(n,) + pos + (co,)] += sum(x[(n,) + i + (ci,)] * k[t + (co, ci)] for ci in range(cin))
  if circular:
    period = [n * s for n, s in zip(sizes, strides)]
    out = np.zeros((x.shape[0],) + tuple(period) + (cout,))
    lefts = []
    for a in range(nd):
      sd = (-(osz[a] - period[a])) % (2 * period[a])
      lefts.append(sd // 2 if transpose_kernel else (sd + 1) // 2)
    for q in np.ndindex(*osz):
      j = tuple((q[a] + lefts[a]) % period[a] for a in range(nd))
      out[(slice(None),) + j] += y[(slice(None),) + q]
    y = out
  if b is not None:
    y = y + b
  if len(lead) != 1:
    y = y.reshape(lead + y.shape[1:])
  return y


def pool(x, op, window, strides, padding, count_include_pad):
  nd = len(window)
  lead = x.shape[:x.ndim - nd - 1]          # any number of batch dimensions, none included
  single = True
  x = x.reshape((-1,) + x.shape[x.ndim - nd - 1:])
  sizes = x.shape[1:1 + nd]
  pads = _pads(padding, sizes, list(window), strides, [1] * nd, window, nd)
  outs = [(n + lo + hi - w) // s + 1 for n, (lo, hi, _), w, s in zip(sizes, pads, window, strides)]
  y = np.zeros((x.shape[0],) + tuple(outs) + (x.shape[-1],))
  for n in range(x.shape[0]):
    for o in np.ndindex(*outs):
      for c in range(x.shape[-1]):
        vals = []
        for t in np.ndindex(*window):
          pos = tuple(o[a] * strides[a] + t[a] - pads[a][0] for a in range(nd))
          if all(0 <= p < sizes[a] for a, p in enumerate(pos)):
            vals.append(x[(n,) + pos + (c,)])
        if op == 'avg':
          y[(n,) + o + (c,)] = sum(vals) / int(np.prod(window)) if count_include_pad else (sum(vals) / len(vals) if vals else float('nan'))      # an all-padding window: 0 / 0
        elif op == 'max':
          y[(n,) + o + (c,)] = max(vals) if vals else -np.inf
        else:
          y[(n,) + o + (c,)] = min(vals) if vals else np.inf
  return y.reshape(lead + y.shape[1:])


def _axes(a, ndim):
  a = (a,) if isinstance(a, int) else tuple(a)
  return tuple(v % ndim for v in a)


def _stats(x, red, mask, use_mean=True):
  w = np.ones_like(x) if mask is None else np.broadcast_to(mask, x.shape).astype(float)
  cnt = w.sum(axis=red, keepdims=True)
  cnt = np.where(cnt == 0, 1.0, cnt)
  mean = (x * w).sum(axis=red, keepdims=True) / cnt if use_mean else np.zeros_like(x.sum(axis=red, keepdims=True))
  mean2 = (x * x * w).sum(axis=red, keepdims=True) / cnt
  var = np.maximum(mean2 - mean * mean, 0.0)
  return mean, var


def norm(x, kind, c, mask):
  eps = c['epsilon']
  nd = x.ndim
  if kind in ('layer', 'rms'):
    red = _axes(c['reduction_axes'], nd)
    feat = _axes(c['feature_axes'], nd)
    mean, var = _stats(x, red, mask, use_mean=(kind == 'layer'))
    y = (x - mean) / np.sqrt(var + eps)
  else:
    if kind == 'instance':
      red = tuple(range(1, nd - 1))
      feat = (nd - 1,)
      mean, var = _stats(x, red, mask)
      y = (x - mean) / np.sqrt(var + eps)
    else:
      ch = x.shape[-1]
      ng = c['num_groups'] if c.get('num_groups') is not None else ch // c['group_size']
      gs = ch // ng
      xg = x.reshape(x.shape[:-1] + (ng, gs))
      mg = None if mask is None else np.broadcast_to(mask, x.shape).reshape(xg.shape)
      red = tuple(range(1, xg.ndim - 2)) + (xg.ndim - 1,)
      mean, var = _stats(xg, red, mg)
      y = ((xg - mean) / np.sqrt(var + eps)).reshape(x.shape)
      feat = (nd - 1,)
  shape = [1] * nd
  for a in feat:
    shape[a] = x.shape[a]
  if c['use_scale']:
    y = y * np.array(c['scale'], float).reshape(shape)
  if c['use_bias'] and kind != 'rms':
    y = y + np.array(c['bias'], float).reshape(shape)
  return y


def batch_norm(x, x2, c, mask):
  eps, mom = c['epsilon'], c['momentum']
  ax = c['axis'] % x.ndim
  red = tuple(d for d in range(x.ndim) if d != ax)
  mean, var = _stats(x, red, mask)
  shape = [1] * x.ndim
  shape[ax] = x.shape[ax]
  scale = np.array(c['scale'], float).reshape(shape) if c['use_scale'] else 1.0
  bias = np.array(c['bias'], float).reshape(shape) if c['use_bias'] else 0.0
  y = (x - mean) / np.sqrt(var + eps) * scale + bias
  m1 = mom * np.array(c['mean'], float) + (1 - mom) * mean.reshape(-1)
  v1 = mom * np.array(c['var'], float) + (1 - mom) * var.reshape(-1)
  red2 = tuple(d for d in range(x2.ndim) if d != ax)
  y2 = (x2 - m1.reshape(shape)) / np.sqrt(v1.reshape(shape) + eps) * scale + bias
  return {'train': y, 'mean': m1, 'var': v1, 'infer': y2}
