"""Implementation side of C15: adaptive operation sequences on FrozenDicts / plain dicts with an
adversary mutating every plain dict the test holds; struct.dataclass layouts."""
import jaxcompat  # noqa: F401
import pickle
import random
import common
import jax
import jax.numpy as jnp
import numpy as np
from flax import struct
from flax.core import frozen_dict as FD
from flax.core import FrozenDict, freeze, unfreeze

KEYS = ['a', 'b', 'c', 'd']


def snap(x):
  if isinstance(x, FrozenDict):
    return {'f': [[k, snap(v)] for k, v in x.items()]}
  if isinstance(x, dict):
    return {'d': [[k, snap(v)] for k, v in x.items()]}
  return int(x)


def canon(s):
  if isinstance(s, dict):
    tag = 'f' if 'f' in s else 'd'
    return {tag: sorted([[k, canon(v)] for k, v in s[tag]], key=lambda kv: kv[0])}
  return s


def plain_ids(x, acc):
  """ids of all plain dict objects reachable through plain dicts"""
  if isinstance(x, dict):
    acc.add(id(x))
    for v in x.values():
      plain_ids(v, acc)


def private_ids(fd, acc):
  """ids of the dict objects that make up a FrozenDict's private state (peeks at _dict)"""
  def walk(d):
    acc.add(id(d))
    for v in d.values():
      if isinstance(v, dict):
        walk(v)
      elif isinstance(v, FrozenDict):
        walk(v._dict)
  try:
    walk(fd._dict)
  except AttributeError:
    pass


import collections.abc as _abc


class UserMap(_abc.Mapping):
  def __init__(self, d):
    self._d = d

  def __getitem__(self, k):
    return self._d[k]

  def __iter__(self):
    return iter(self._d)

  def __len__(self):
    return len(self._d)


def run_seq(seed, nsteps):
  rng = random.Random(seed)
  reg = []
  ops = []
  frozen_birth = {}     # registry index -> canonical snapshot at creation
  problems = []
  leafc = [0]
  mids = None

  def kinds():
    fr = [i for i, x in enumerate(reg) if isinstance(x, FrozenDict)]
    pd = [i for i, x in enumerate(reg) if isinstance(x, dict)]
    lf = [i for i, x in enumerate(reg) if not isinstance(x, (dict, FrozenDict))]
    return fr, pd, lf

  def do(op, fn):
    before = len(reg)
    try:
      res = fn()
      for r in res:
        reg.append(r)
      op['raised'] = False
    except Exception as e:  # pylint: disable=broad-except
      op['raised'] = True
      op['exc'] = type(e).__name__
    ops.append(op)
    for i in range(before, len(reg)):
      if isinstance(reg[i], FrozenDict):
        frozen_birth[i] = canon(snap(reg[i]))

  for step in range(nsteps):
    fr, pd, lf = kinds()
    r = rng.random()
    anyi = lambda: rng.randrange(len(reg))
    if not reg or r < 0.10:
      do({'op': 'newdict'}, lambda: [{}])
    elif r < 0.18:
      leafc[0] += 1
      v = leafc[0]
      do({'op': 'newleaf', 'a': v}, lambda: [v])
    elif r < 0.42 and pd:
      i = rng.choice(pd)
      k = rng.choice(KEYS)
      cands = lf + fr + [j for j in pd if reg[j] is not reg[i] and not reg[j]]
      if not cands or rng.random() < 0.15:
        if reg[i] and rng.random() < 0.7:
          k = rng.choice(list(reg[i].keys()))
        def f():
          del reg[i][k]
          return []
        do({'op': 'mutdel', 'i': i, 'k': k}, f)
      else:
        j = rng.choice(cands)
        def f():
          reg[i][k] = reg[j]
          return []
        do({'op': 'mutset', 'i': i, 'k': k, 'j': j}, f)
    elif r < 0.54:
      i = anyi()
      do({'op': 'freeze', 'i': i, 'via': rng.choice(['freeze', 'ctor'])},
         lambda: [freeze(reg[i]) if rng.random() < 0.5 else FrozenDict(reg[i])])
    elif r < 0.62:
      i = anyi()
      do({'op': 'unfreeze', 'i': i}, lambda: [unfreeze(reg[i])])
    elif r < 0.74 and (fr or pd):
      i = rng.choice(fr + pd)
      ks = list(reg[i].keys())
      k = rng.choice(ks) if ks and rng.random() < 0.85 else rng.choice(KEYS)
      do({'op': 'get', 'i': i, 'k': k}, lambda: [reg[i][k]])
    elif r < 0.80 and fr:
      i, j = rng.choice(fr), anyi()
      def view(x):
        # the additions may come as any Mapping: a read-only proxy, a ChainMap or a user Mapping over the same (still mutable) dict
        import collections, types
        if type(x) is not dict:
          return x
        q = rng.random()
        if q < 0.5:
          return x
        if q < 0.7:
          return types.MappingProxyType(x)
        if q < 0.85:
          return collections.ChainMap(x)
        return UserMap(x)
      do({'op': 'copy', 'i': i, 'j': j}, lambda: [reg[i].copy(view(reg[j])) if rng.random() < 0.5 else FD.copy(reg[i], view(reg[j]))])
    elif r < 0.86 and fr:
      i = rng.choice(fr)
      ks = list(reg[i].keys())
      k = rng.choice(ks) if ks and rng.random() < 0.85 else rng.choice(KEYS)
      do({'op': 'pop', 'i': i, 'k': k}, lambda: list(reg[i].pop(k) if rng.random() < 0.5 else FD.pop(reg[i], k)))
    elif r < 0.90 and fr:
      i = rng.choice(fr)
      def f():
        if rng.random() < 0.5:
          return [jax.tree_util.tree_map(lambda x: x, reg[i])]
        leaves, td = jax.tree_util.tree_flatten(reg[i])
        return [jax.tree_util.tree_unflatten(td, leaves)]
      do({'op': 'treemap', 'i': i}, f)
    elif r < 0.93 and fr:
      i = rng.choice(fr)
      do({'op': 'pickle', 'i': i}, lambda: [pickle.loads(pickle.dumps(reg[i]))])
    elif r < 0.97 and pd:
      i, j = rng.choice(pd), anyi()
      do({'op': 'copyd', 'i': i, 'j': j}, lambda: [FD.copy(reg[i], reg[j])])
    elif pd:
      i = rng.choice(pd)
      ks = list(reg[i].keys())
      k = rng.choice(ks) if ks and rng.random() < 0.85 else rng.choice(KEYS)
      do({'op': 'popd', 'i': i, 'k': k}, lambda: list(FD.pop(reg[i], k)))
    else:
      do({'op': 'newdict'}, lambda: [{}])
    # ---- oracles after every step
    for idx, born in frozen_birth.items():
      now = canon(snap(reg[idx]))
      if now != born:
        problems.append({'what': 'a FrozenDict changed after construction', 'step': step, 'index': idx, 'born': born, 'now': now})
    pl = set()
    for x in reg:
      plain_ids(x, pl)
    pr = set()
    for x in reg:
      if isinstance(x, FrozenDict):
        private_ids(x, pr)
      elif isinstance(x, dict):
        def walkf(d):
          for v in d.values():
            if isinstance(v, FrozenDict):
              private_ids(v, pr)
            elif isinstance(v, dict):
              walkf(v)
        walkf(x)
    if pl & pr:
      problems.append({'what': 'a plain dict reachable by the caller is shared with the inside of a FrozenDict', 'step': step})
    if step == nsteps // 2:
      mids = [snap(x) for x in reg]
  # end-of-sequence API checks on every FrozenDict
  for idx, born in frozen_birth.items():
    fd = reg[idx]
    try:
      fd['zz'] = 1
      problems.append({'what': '__setitem__ did not raise', 'index': idx})
    except ValueError:
      pass
    except Exception as e:  # pylint: disable=broad-except
      problems.append({'what': '__setitem__ raised %s' % type(e).__name__, 'index': idx})
    # equality / hash independent of insertion order
    def rebuild(s, rev):
      if isinstance(s, dict):
        items = s.get('f', s.get('d'))
        items = items[::-1] if rev else items
        return {k: rebuild(v, rev) for k, v in items}
      return s
    other = FrozenDict(rebuild(snap(fd), True))
    if not (other == fd and fd == other):
      problems.append({'what': 'equal contents in another insertion order compare unequal', 'index': idx})
    try:
      if hash(other) != hash(fd):
        problems.append({'what': 'equal contents hash differently', 'index': idx})
    except TypeError:
      pass
    if canon(snap(fd)) != born:
      problems.append({'what': 'a FrozenDict changed after construction (end)', 'index': idx})
    # iteration surfaces hand out copies
    for v in list(fd.values()) + [v for _, v in fd.items()]:
      if isinstance(v, dict):
        problems.append({'what': 'values()/items() exposed a plain internal dict', 'index': idx})
  return {'seed': seed, 'ops': ops, 'mid': mids, 'mid_n': nsteps // 2 + 1, 'final': [snap(x) for x in reg], 'problems': problems}


# ---------------------------------------------------------------------------------------------
# struct dataclasses
# ---------------------------------------------------------------------------------------------
def struct_case(c):
  """c: {'fields': [[name, 'data'|'static'], ...], 'base': 'dataclass'|'pytreenode', 'values': [...]}"""
  import dataclasses
  fields = [f[:2] for f in c['fields']]
  metas = [(f[2] if len(f) > 2 else None) for f in c['fields']]
  shared = {'units': 'm'}
  ns = {'__annotations__': {}}

  @struct.dataclass
  class Other:
    dyn: object
    sta: object = struct.field(pytree_node=False, default=0)
  other_md = {f.name: f.metadata for f in dataclasses.fields(Other)}
  for (name, kind), meta in zip(fields, metas):
    ns['__annotations__'][name] = object
    # 'fwd': the (read-only) metadata of a field of another struct dataclass that is marked the other way, forwarded; the argument decides
    md = shared if meta == 'shared' else ({'own': name} if meta == 'own' else (other_md['sta' if kind == 'data' else 'dyn'] if meta == 'fwd' else None))
    if kind == 'static' or md is not None:
      ns[name] = struct.field(pytree_node=(kind == 'data'), metadata=md) if md is not None else struct.field(pytree_node=False)
  if c['base'] == 'pytreenode':
    cls = type('PN', (struct.PyTreeNode,), ns)
  else:
    cls = struct.dataclass(type('DC', (), ns))
  vals = {name: (jnp.asarray(float(v)) if kind == 'data' else v) for (name, kind), v in zip(fields, c['values'])}
  x = cls(**vals)
  out = {'user_metadata_untouched': shared == {'units': 'm'}}
  leaves, td = jax.tree_util.tree_flatten(x)
  out['leaves'] = [float(l) for l in leaves]
  y = jax.tree_util.tree_unflatten(td, leaves)
  out['roundtrip_same_class'] = type(y) is cls
  out['roundtrip_equal'] = all(float(getattr(y, n)) == float(getattr(x, n)) if k == 'data' else getattr(y, n) == getattr(x, n) for n, k in fields)
  try:
    setattr(x, fields[0][0], 1)
    out['frozen'] = False
  except dataclasses.FrozenInstanceError:
    out['frozen'] = True
  except Exception as e:  # pylint: disable=broad-except
    out['frozen'] = type(e).__name__
  # replace
  name, kind = fields[c['replace'] % len(fields)]
  newv = jnp.asarray(99.0) if kind == 'data' else 'replaced'
  z = x.replace(**{name: newv})
  out['replace_new_instance'] = z is not x and type(z) is cls
  out['replace_others_same'] = all((getattr(z, n) is getattr(x, n)) for n, _ in fields if n != name)
  out['replace_named_changed'] = (float(getattr(z, name)) == 99.0) if kind == 'data' else getattr(z, name) == 'replaced'
  out['replace_old_intact'] = all(float(getattr(x, n)) == float(v) if k == 'data' else getattr(x, n) == v for (n, k), v in zip(fields, c['values']))
  # treedef: equal iff class and static values equal
  x2 = cls(**{n: (jnp.asarray(7.0) if k == 'data' else v) for (n, k), v in zip(fields, c['values'])})
  out['treedef_ignores_data'] = jax.tree_util.tree_structure(x2) == td
  statics = [n for n, k in fields if k == 'static']
  if statics:
    x3 = x.replace(**{statics[0]: 'other'})
    out['treedef_sees_static'] = jax.tree_util.tree_structure(x3) != td
  # jit retrace counts
  traces = [0]
  @jax.jit
  def f(v):
    traces[0] += 1
    return v
  f(x); f(x2)
  out['jit_no_retrace_on_data'] = traces[0] == 1
  if statics:
    f(x3)
    out['jit_retrace_on_static'] = traces[0] == 2
  r = f(x)
  out['jit_same_class'] = type(r) is cls and all(getattr(r, n) == getattr(x, n) for n in statics)
  m = jax.tree_util.tree_map(lambda a: a + 1, x)
  out['tree_map_same_class'] = type(m) is cls and all(getattr(m, n) == getattr(x, n) for n in statics)
  datas = [n for n, k in fields if k == 'data']
  if datas:
    v = jax.vmap(lambda t: t)(jax.tree_util.tree_map(lambda a: jnp.stack([a, a]), x))
    out['vmap_same_class'] = type(v) is cls and all(getattr(v, n) == getattr(x, n) for n in statics)
    g = jax.grad(lambda t: sum(getattr(t, n) ** 2 for n in datas))(x)
    out['grad_same_class'] = type(g) is cls and all(getattr(g, n) == getattr(x, n) for n in statics) and \
        all(float(getattr(g, n)) == 2 * float(getattr(x, n)) for n in datas)
  return out


class SeqTimeout(Exception):
  pass


def run_seq_guarded(seed, nsteps):
  """a sequence that does not finish (runaway copying / recursion under a broken tree) is itself a finding"""
  import signal

  def on_alarm(*_):
    raise SeqTimeout()
  signal.signal(signal.SIGALRM, on_alarm)
  signal.alarm(20)
  try:
    return run_seq(seed, nsteps)
  except (SeqTimeout, RecursionError, MemoryError) as e:
    return {'seed': seed, 'ops': [], 'mid': [], 'mid_n': 0, 'final': [],
            'problems': [{'what': 'an operation sequence on FrozenDicts did not terminate normally (%s): a FrozenDict became part of a cycle or kept growing' % type(e).__name__}]}
  finally:
    signal.alarm(0)


def xproc_pickle(seeds):
  """FrozenDicts with string keys and leaves, hashed (so the hash is cached), pickled here and unpickled in a fresh interpreter with another
  string-hash seed: there each must be equal to, hash like, and be found as a dict key by the FrozenDict built from the same plain contents"""
  import os, random, subprocess, sys, base64
  from flax.core import freeze, unfreeze

  def gen(r, depth=0):
    d = {}
    for k in r.sample(['a', 'b', 'c', 'd', 'key%d' % r.randint(0, 99)], r.randint(1, 4)):
      q = r.random()
      if q < 0.35 and depth < 2:
        d[k] = gen(r, depth + 1)
      elif q < 0.7:
        d[k] = 'leaf%d' % r.randint(0, 9)
      elif q < 0.85:
        d[k] = r.randint(0, 9)
      else:
        d[k] = ('t', r.randint(0, 3))
    return d
  items = []
  for sd in seeds:
    r = random.Random(sd)
    plain = gen(r)
    fd = freeze(plain)
    hashed = r.random() < 0.7
    if hashed:
      hash(fd)
      {fd: 1}
    inner = [k for k, v in plain.items() if isinstance(v, dict)]
    if inner and r.random() < 0.5:
      hash(fd[inner[0]])
    items.append((plain, fd, hashed))
  blob = base64.b64encode(pickle.dumps([(p_, f_) for p_, f_, _ in items])).decode()
  child = (
      'import jaxcompat, sys, pickle, base64, json\n'
      'from flax.core import freeze, FrozenDict\n'
      'out = []\n'
      'for plain, fd in pickle.loads(base64.b64decode(sys.stdin.read())):\n'
      '  fresh = freeze(plain)\n'
      '  out.append([type(fd) is FrozenDict, fd == fresh, hash(fd) == hash(fresh), {fresh: 1}.get(fd) == 1, fd in {fresh}])\n'
      'print(json.dumps(out))\n')
  res = []
  for hs in ('1', '4242'):
    env = dict(os.environ, PYTHONHASHSEED=hs)
    pr = subprocess.run([sys.executable, '-c', child], input=blob, capture_output=True, text=True, env=env, timeout=600)
    if pr.returncode != 0:
      return {'err': pr.stderr[-400:]}
    import json as _json
    rows = _json.loads(pr.stdout.strip().splitlines()[-1])
    for (plain, _, hashed), row in zip(items, rows):
      if not all(row):
        res.append({'plain': repr(plain), 'hashed_before_pickling': hashed, 'child_hashseed': hs,
                    'is_frozendict/equal/hash_equal/dict_lookup/set_member': row})
  return {'n': len(items), 'hashed': sum(h for _, _, h in items), 'bad': res[:5], 'nbad': len(res)}


def main(payload):
  res = {}
  if 'xproc' in payload:
    res['xproc'] = xproc_pickle(payload['xproc'])
  if 'seqs' in payload:
    res['seqs'] = [run_seq_guarded(s, payload['nsteps']) for s in payload['seqs']]
  if 'structs' in payload:
    res['structs'] = []
    for c in payload['structs']:
      try:
        res['structs'].append({'ok': struct_case(c)})
      except Exception as e:  # pylint: disable=broad-except
        res['structs'].append({'err': type(e).__name__ + ': ' + str(e)[:200]})
  return res


if __name__ == '__main__':
  common.worker_main(main)
