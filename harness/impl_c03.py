"""Implementation side of C03: split / merge / update / pop / clone / state on generated object graphs."""
import impl_graph as IG
import jax.numpy as jnp
import common
import jax
import numpy as np
from flax import nnx


def safe(fn):
  try:
    return {'ok': fn()}
  except Exception as e:  # pylint: disable=broad-except
    return {'err': type(e).__name__, 'msg': str(e)[:160]}


def run_case(c):
  out = {}
  objs, root = IG.build(c['desc'])
  before = IG.canon(root)
  ids_before = set(IG.obj_ids(root))
  # ---- split / merge without filters
  def sp():
    g, s = nnx.split(root)
    return {'graphdef': IG.enc_graphdef(g), 'flat': IG.enc_flat(s)}
  out['split'] = safe(sp)
  out['untouched'] = IG.canon(root) == before and set(IG.obj_ids(root)) == ids_before
  def rt():
    g, s = nnx.split(root)
    m = nnx.merge(g, s)
    res = {'canon_equal': IG.canon(m) == before, 'fresh': not (set(IG.obj_ids(m)) & ids_before), 'canon': IG.canon(m)}
    # the states can be merged again: what is done to the first copy (metadata set and removed in place, values changed) reaches neither
    # the second copy nor the states nor g
    flat_before = IG.enc_flat(s)
    for o in IG.obj_ids(m).values():
      if isinstance(o, nnx.Variable):
        md = o.get_metadata()
        for k in list(md):
          if k not in ('on_get_value', 'on_set_value', 'on_create_value', 'on_add_axis', 'on_remove_axis'):
            del md[k]
        md['scribble'] = 'x'
        o.raw_value = o.raw_value + 1000
    m2 = nnx.merge(g, s)
    res['second_merge_equal'] = IG.canon(m2) == before and not (set(IG.obj_ids(m2)) & set(IG.obj_ids(m)))
    res['states_untouched'] = IG.enc_flat(s) == flat_before and IG.canon(root) == before
    return res
  out['roundtrip'] = safe(rt)
  out['canon'] = before
  # ---- split with filters, merge in another order
  fs = [IG.dec_filter(f) for f in c['filters']]
  if fs:
    def spf():
      g, *ss = nnx.split(root, *fs)
      res = {'buckets': [IG.enc_flat(s) for s in ss]}
      m1 = nnx.merge(g, *ss)
      m2 = nnx.merge(g, *reversed(ss))
      res['merge_equal'] = IG.canon(m1) == before
      res['merge_permuted_equal'] = IG.canon(m2) == before
      # states whose own entries are not in sorted order: a State rebuilt from its leaves in reverse order, and one State made by merge_state in reverse argument order
      def rebuilt(st):
        return nnx.State.from_flat_path(dict(reversed(list(st.flat_state().items()))) if hasattr(st.flat_state(), 'items') else dict(reversed(list(st.flat_state()))))
      m3 = nnx.merge(g, *[rebuilt(st) for st in ss])
      m4 = nnx.merge(g, nnx.merge_state(*reversed(ss))) if len(ss) > 1 else m3
      res['merge_unsorted_equal'] = IG.canon(m3) == before and IG.canon(m4) == before
      st = nnx.state(root, *fs)
      st = st if isinstance(st, tuple) else (st,)
      res['state_buckets'] = [IG.enc_flat(s) for s in st]
      return res
    out['split_filters'] = safe(spf)
  # ---- update with a modified state: every Variable payload + 100 (and one metadata change)
  def upd():
    objs2, root2 = IG.build(c['desc'])
    ids2 = {id(o): i for i, o in enumerate(objs2)}
    st = nnx.state(root2, nnx.Variable)      # Variables only: array attributes are not part of the update sentence
    # every payload + 100, and every Variable gets the NEXT metadata set (so keys are added, changed and removed)
    from flax.nnx import variablelib as V
    def bump(vs):
      md = IG.METAS[(IG.meta_code(vs.get_metadata()) + 1) % len(IG.METAS)] if IG.meta_code(vs.get_metadata()) != 99 else dict(vs.get_metadata())
      return V.VariableState(vs.type, vs.value + 100, **md)
    st2 = jax.tree_util.tree_map(bump, st, is_leaf=lambda x: isinstance(x, V.VariableState))
    nnx.update(root2, st2)
    same_ids = all(id(o) in ids2 for o in IG.obj_ids(root2).values())
    return {'canon': IG.canon(root2), 'identity_kept': same_ids, 'state_in': IG.enc_flat(st2)}
  out['update'] = safe(upd)
  # ---- clone
  def cl():
    objs3, root3 = IG.build(c['desc'])
    cpy = nnx.clone(root3)
    return {'canon_equal': IG.canon(cpy) == IG.canon(root3), 'disjoint': not (set(IG.obj_ids(cpy)) & set(IG.obj_ids(root3)))}
  out['clone'] = safe(cl)
  # ---- pop
  if c.get('pop_filter') is not None:
    def pp():
      objs4, root4 = IG.build(c['desc'])
      popped = nnx.pop(root4, IG.dec_filter(c['pop_filter']))
      return {'popped': IG.enc_flat(popped), 'canon_after': IG.canon(root4)}
    out['pop'] = safe(pp)
  # ---- Variables with value hooks: update / state / split / merge move RAW values, the hooks run only on user access
  def hooks():
    class Scaled(nnx.Param):
      def on_set_value(self, value):
        return value * 2

      def on_get_value(self, value):
        return value + 1

    class H(nnx.Module):
      def __init__(self):
        self.a = Scaled(jnp.asarray(5, dtype=jnp.int64))
        self.b = nnx.BatchStat(jnp.asarray(7, dtype=jnp.int64), on_set_value=lambda v, x: x * 3)
        self.c = self.a
    h = H()
    raw0 = (int(h.a.raw_value), int(h.b.raw_value))
    nnx.update(h, nnx.state(h))
    raw1 = (int(h.a.raw_value), int(h.b.raw_value))
    g, p, r = nnx.split(h, nnx.Param, ...)
    nnx.update(h, r, p)
    raw2 = (int(h.a.raw_value), int(h.b.raw_value))
    m = nnx.merge(g, p, r)
    raw3 = (int(m.a.raw_value), int(m.b.raw_value))
    h.a.value = 4          # user access: the hook runs once
    return {'raw': [raw0, raw1, raw2, raw3], 'set_once': int(h.a.raw_value), 'get': int(h.a.value), 'shared': m.c is m.a}
  out['hooks'] = safe(hooks)
  # ---- iteration order
  out['iter_graph_paths'] = safe(lambda: [list(p) for p, _ in nnx.iter_graph(root)])
  return out


def main(payload):
  res = []
  for c in payload['cases']:
    try:
      res.append({'ok': run_case(c)})
    except Exception as e:  # pylint: disable=broad-except
      import traceback
      res.append({'err': type(e).__name__, 'tb': traceback.format_exc()[-900:]})
  return {'cases': res}


if __name__ == '__main__':
  common.worker_main(main)
