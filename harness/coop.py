"""A cooperative replacement for the `threading` module: real threads, exactly one running at a time, a
scheduler choosing who runs at every synchronisation point (Thread.start, lock acquire/release, wait_for,
and any explicit yield).  Used to drive flax.training.prefetch_iterator through chosen interleavings."""
import threading as _real


class Kill(BaseException):
  pass


class Scheduler:
  def __init__(self, choices=(), rng=None, max_steps=4000):
    self.threads = []            # _T records
    self.choices = list(choices)
    self.rng = rng
    self.trace = []              # (n_runnable, chosen) per scheduling decision
    self.events = []             # semantic events logged by the instrumented objects
    self.back = _real.Semaphore(0)
    self.killing = False
    self.max_steps = max_steps
    self.current = None
    self.deadlock = False

  # ---- thread side
  def me(self):
    ident = _real.get_ident()
    for t in self.threads:
      if t.ident == ident:
        return t
    raise RuntimeError('not a cooperative thread')

  def yield_point(self, can_run=None):
    t = self.me()
    t.can_run = can_run
    self.back.release()
    t.go.acquire()
    t.can_run = None
    if self.killing:
      raise Kill()

  def log(self, *ev):
    self.events.append(ev)

  # ---- spawning
  def spawn(self, fn, name):
    t = _T(name)
    self.threads.append(t)

    def body():
      t.ident = _real.get_ident()
      t.started.release()
      t.go.acquire()
      try:
        if not self.killing:
          fn()
      except Kill:
        pass
      except BaseException as e:  # pylint: disable=broad-except
        t.exc = e
      finally:
        t.done = True
        self.back.release()
    t.real = _real.Thread(target=body, daemon=True)
    t.real.start()
    t.started.acquire()
    return t

  # ---- scheduler side (runs in the caller's real thread)
  def run(self, main_fn):
    self.spawn(main_fn, 'main')
    steps = 0
    while True:
      runnable = [t for t in self.threads if not t.done and (t.can_run is None or t.can_run())]
      if not runnable or steps >= self.max_steps:
        self.deadlock = any(not t.done and t.name == 'main' for t in self.threads)
        break
      if len(self.trace) < len(self.choices):
        k = self.choices[len(self.trace)] % len(runnable)
      elif self.rng is not None:
        k = self.rng.randrange(len(runnable))
      else:
        k = 0
      self.trace.append((len(runnable), k))
      t = runnable[k]
      self.current = t
      t.go.release()
      self.back.acquire()
      steps += 1
    # tear down whatever is still blocked
    self.killing = True
    for t in self.threads:
      if not t.done:
        t.go.release()
        self.back.acquire()
    for t in self.threads:
      t.real.join(timeout=2)
    return self


class _T:
  def __init__(self, name):
    self.name = name
    self.go = _real.Semaphore(0)
    self.started = _real.Semaphore(0)
    self.can_run = None
    self.done = False
    self.exc = None
    self.ident = None


class Module:
  """Looks like the part of `threading` that PrefetchIterator uses."""

  def __init__(self, sched):
    self.sched = sched
    mod = self

    class Condition:
      def __init__(self):
        self.owner = None
        self.waiters = {}

      def __enter__(self):
        s = mod.sched
        s.yield_point(lambda: self.owner is None)
        assert self.owner is None
        self.owner = s.me()
        s.log('acquire', s.me().name)
        return self

      def __exit__(self, *exc):
        s = mod.sched
        self.owner = None
        if not s.killing and not (exc and exc[0] is Kill):
          s.yield_point()
        return False

      def wait_for(self, pred, timeout=None):
        s = mod.sched
        me = s.me()
        blocked = False
        while not pred():
          blocked = True
          self.owner = None
          self.waiters[me.name] = False
          s.yield_point(lambda: self.waiters.get(me.name) and self.owner is None)
          self.owner = me
          self.waiters.pop(me.name, None)
        s.log('pass_wait', me.name, blocked)
        return True

      def notify_all(self):
        for k in self.waiters:
          self.waiters[k] = True

    class Thread:
      def __init__(self, target=None, daemon=None, args=(), kwargs=None):
        self.target, self.args, self.kwargs = target, args, kwargs or {}

      def start(self):
        s = mod.sched
        s.spawn(lambda: self.target(*self.args, **self.kwargs), 'producer')
        s.yield_point()
    self.Condition = Condition
    self.Thread = Thread


def explore(run_once, max_runs):
  """Stateless DFS over scheduling choices. run_once(prefix) -> trace [(n_runnable, chosen)]."""
  stack = [[]]
  runs = 0
  complete = True
  while stack:
    if runs >= max_runs:
      complete = False
      break
    prefix = stack.pop()
    trace = run_once(prefix)
    runs += 1
    chosen = [c for _, c in trace]
    for i in range(len(prefix), len(trace)):
      n = trace[i][0]
      for alt in range(1, n):
        stack.append(chosen[:i] + [alt])
  return runs, complete
