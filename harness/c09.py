"""C09 -- random keys: deterministic, position-addressed, never reused (Linen make_rng / params, NNX Rngs)."""
import copy
import common
import linen_prog as LP
from common import cN, cZ, cnat, cbool, clist, copt, cpair

PROOF_FILES = ['Proofs/Linen.v', 'Proofs/Rng.v']
ASSUMPTIONS = [
    'idealised PRNG: jax.random.key/fold_in/split are injective free constructors; SHA-1 truncated to 32 bits is treated as injective on the hashed byte strings '
    '(in reality ~77000 suffixes under one seed give a 50% collision chance: not claimed)',
    'observed key data is decoded into an address by an independent re-computation (hashlib.sha1 over the documented byte string + jax.random.fold_in / split)',
]
HEADER = 'From Flaxm Require Import Lib.Harness Model.Filters Model.Linen Model.Rng.\n'
STREAMNAMES = ['default', 'params', 'dropout', 'noise']
SC = {n: i for i, n in enumerate(STREAMNAMES)}


def cpath(p):
  return clist([LP.cname(LP.parse_name(k)) for k in p])


def cevents(tr):
  out = []
  for e in tr:
    dec = e['decoded']
    if len(dec) != 1:
      return None
    s, cnt = dec[0]
    out.append('(KeyDrawn %s %s %s)' % (LP.stream_code(s), cpath(e['path']), cnat(cnt)))
    if e['kind'] == 'param':
      out.append('(ParamInit %s %s)' % (cpath(e['path']), LP.cname(['exp', e['name']])))
  return clist(out)


def insert_unrelated(rng, prog):
  """a variant with an unrelated sibling inserted into one class body"""
  p = copy.deepcopy(prog)
  cid = rng.choice(list(p['classes']))
  body, ret = p['classes'][cid]
  used = {s[2] for s in body if s[0] == 'param'} | {s[3] for s in body if s[0] in ('var', 'child') and s[3]} | {s[2] for s in body if s[0] in ('sow', 'perturb', 'varset')}
  free = [n for n in LP.NAMES if n not in used]
  if not free:
    return None
  pos = rng.randint(0, len(body))
  kind = rng.choice(['var', 'child'])
  if kind == 'var':
    body.insert(pos, ['var', 900 + pos, 'aux', free[0], 1, 0])
  else:
    newc = str(max(int(k) for k in p['classes']) + 1)
    p['classes'][newc] = ([['rng', 'dropout'], ['param', 1, 'w', 1, 1]], ['in'])
    body.insert(pos, ['child', 90, int(newc), free[0]])
    body.insert(pos + 1, ['call', 901 + pos, 90, ['in']])
  p['classes'][cid] = (body, ret)
  return p


def ckterm(t):
  if t[0] == 'seed':
    return '(KSeed %s)' % cN(t[1])
  if t[0] == 'fold':
    return '(KFold %s %s)' % (ckterm(t[1]), cN(t[2]))
  return '(KSplit %s %s)' % (ckterm(t[1]), cnat(t[3]))


def run(chk):
  rng = chk.rng
  thorough = chk.tier == 'thorough'
  chk.proofs(PROOF_FILES)
  known = {k['key'] for k in common.load_known() if k['property'] == 'C09' and k.get('status') == 'known'}
  linen = []
  for i in range(2500 if thorough else 160):
    n = rng.choice([1, 2])
    prog = LP.gen_program(rng, n, max_depth=rng.choice([1, 2, 3]), features={'param', 'var', 'rng', 'child', 'varset'})
    # more rng draws
    for cid, (body, ret) in prog['classes'].items():
      for _ in range(rng.randint(0, 3)):
        body.insert(rng.randint(0, len(body)), ['rng', rng.choice(LP.STREAMS)])
    streams = rng.choice([['params'], ['params', 'dropout'], ['params', 'dropout', 'noise'], ['params', 'noise']])
    base = {'prog': prog, 'x': [rng.randint(-2, 2) for _ in range(n)], 'streams': streams, 'sep': rng.random() < 0.5}
    linen.append(base)
    v = insert_unrelated(rng, prog)
    if v is not None:
      linen.append({**base, 'prog': v, 'variant_of': len(linen) - 1})
  nnxc = []
  for i in range(3000 if thorough else 250):
    names = rng.sample(['params', 'dropout', 'noise'], rng.randint(0, 2))
    seeds = [[nm, rng.randint(0, 50) * 3 + j] for j, nm in enumerate(names)]
    if rng.random() < 0.9:
      seeds.insert(0, ['default', 1000 + i])
    ops, depth = [], 0
    for _ in range(rng.randint(2, 12)):
      r = rng.random()
      if r < 0.6:
        ops.append(['draw', rng.choice(['default', 'params', 'dropout', 'noise', 'other'])])
      elif r < 0.75 and depth == 0:
        ops.append(['split', (rng.sample([s[0] for s in seeds], rng.randint(1, len(seeds))) if seeds and rng.random() < 0.5 else None), rng.randint(1, 3)])
        if rng.random() < 0.35:
          # split_rngs(splits=1, squeeze=True): the form nnx.RNN uses for broadcast streams; the stream stays scalar
          ops[-1][2] = 1
          ops[-1].append(True)
        depth = 1
      elif r < 0.9 and depth == 1:
        ops.append(['restore'])
        depth = 0
      elif seeds:
        ops.append(['reseed', rng.choice([s[0] for s in seeds]), 2000 + len(ops)])
    nnxc.append({'seeds': seeds, 'ops': ops})
  W = 12
  payloads = [{'linen': linen[i::W], 'nnx': nnxc[i::W]} for i in range(W)]
  results = common.run_impl_parallel('impl_c09.py', payloads, workers=W, timeout=3000)
  lres, nres = [None] * len(linen), [None] * len(nnxc)
  for k, r in enumerate(results):
    for j, o in enumerate(r['linen']):
      lres[k + W * j] = o
    for j, o in enumerate(r['nnx']):
      nres[k + W * j] = o
  coq = []
  ndraws = 0
  for idx, (c, o) in enumerate(zip(linen, lres)):
    if 'err' in o:
      chk.violation('oracle', 'the module program could not be run: %s' % o['err'], {'case': c, 'tb': o.get('tb')})
      continue
    r = o['ok']
    draws = r['init_trace'] + r.get('apply_trace', [])
    ndraws += len(draws)
    chk.count(c, len(r['init_trace']) >= 3)
    # oracles: decodable, pairwise distinct within a run, deterministic, unrelated edits change nothing
    for which in ('init_trace', 'apply_trace'):
      tr = r.get(which, [])
      for e in tr:
        if len(e['decoded']) != 1:
          chk.violation('oracle', 'a key handed to user code is not fold_in(seed[stream or params], sha1(module path + count)) for any count < 40 (%s separator)' % ('with' if c['sep'] else 'without'),
                        {'case': c, 'event': e})
          break
      keys = [tuple(e['key']) for e in tr]
      if len(set(keys)) != len(keys):
        chk.violation('oracle', 'two draws of one run returned the same key', {'case': c, 'trace': tr})
    if r.get('deterministic') is False:
      chk.violation('oracle', 'the same program with the same seeds produced different keys', {'case': c})
    if r.get('seed_changes_keys') is False:
      chk.violation('oracle', 'a key does not depend on the seed', {'case': c})
    if 'variant_of' in c and 'ok' in lres[c['variant_of']]:
      base = lres[c['variant_of']]['ok']
      def addr(tr):
        return {(tuple(e['path']), tuple(e['decoded'][0])): tuple(e['key']) for e in tr if len(e['decoded']) == 1}
      a, b = addr(base['init_trace']), addr(r['init_trace'])
      for k in a:
        if k in b and a[k] != b[k]:
          chk.violation('oracle', 'inserting an unrelated sibling changed another key', {'case': c, 'address': k})
      if 'err' not in base['init'] and 'err' not in r['init'] and not set(a) <= set(b):
        chk.violation('oracle', 'inserting an unrelated sibling moved a draw to another address', {'case': c, 'missing': [str(k) for k in set(a) - set(b)][:3]})
    # correspondence of the address sequence with the model's trace
    evi = cevents(r['init_trace'])
    if evi is None:
      continue
    env_init = LP.cenv(c['prog'], {'deny': 'intermediates'}, c['streams'])
    row = '(trace_ok (apply_m %s %s [] %s) %s %s)' % (env_init, cN(c['prog']['top']), LP.cvec(c['x']), evi, cbool('err' in r['init']))
    if 'apply_trace' in r and 'err' not in r['init']:
      eva = cevents(r['apply_trace'])
      if eva is not None:
        env_ap = LP.cenv(c['prog'], True, c['streams'])
        row = '(%s && trace_ok (apply_m %s %s %s %s) %s %s)' % (row, env_ap, cN(c['prog']['top']), LP.cvtree(r['init']['vars']), LP.cvec(c['x']), eva, cbool('err' in r['apply']))
    coq.append((c, o, row))
  chk.sample({'linen_case': linen[0], 'init_trace': lres[0].get('ok', {}).get('init_trace', [])[:4]})
  hdr = HEADER + '''
Definition event_beq (a b : event) : bool :=
  match a, b with
  | KeyDrawn s p n, KeyDrawn s' p' n' => N.eqb s s' && path_eqb p p' && Nat.eqb n n'
  | ParamInit p nm, ParamInit p' nm' => path_eqb p p' && name_eqb nm nm'
  | _, _ => false end.
(* a run that raised has no final state: its trace prefix is not compared *)
Definition trace_ok (r : res (vec * st)) (expected : list event) (impl_raised : bool) : bool :=
  match r with
  | Ok (_, s) => negb impl_raised && list_beq event_beq (s_trace s) expected
  | Err _ => impl_raised
  end.
Definition chk (b : bool) : bool := b.
'''
  bad = common.coq_mismatches('c09_linen', hdr, [x[2] for x in coq], 'chk', shard=40, timeout=900)
  for i in bad[:8]:
    c, o, _ = coq[i]
    chk.violation('correspondence', 'the sequence of (stream, module path, count) addresses of the keys flax handed out differs from the trace of Model/Linen.v; '
                  'C09_linen_no_reuse / C09_linen_key_formula no longer transfer', {'case': c, 'observed_init_trace': o['ok']['init_trace']})
  chk.cov['traces_validated_against_impl'] = len(coq)
  # ---------------- NNX ----------------
  ncoq = []
  for c, o in zip(nnxc, nres):
    chk.count({'nnx': c}, any(x[0] == 'split' for x in c['ops']))
    if 'err' in o:
      chk.violation('oracle', 'the Rngs history could not be run: %s' % o['err'], {'case': c, 'tb': o.get('tb')})
      continue
    allkeys = [tuple(k) for r in o['ok'] if 'raw' in r for k in r['raw']]
    reseeded = any(x[0] == 'reseed' for x in c['ops'])
    seedvals = [s[1] for s in c['seeds']]
    if len(set(allkeys)) != len(allkeys) and not reseeded and len(set(seedvals)) == len(seedvals):
      chk.violation('oracle', 'an NNX stream replayed a key (draw / split_rngs / restore_rngs history)', {'case': c, 'observed': o['ok']})
    undec = [r for r in o['ok'] if 'keys' in r and any(k is None for k in r['keys'])]
    if undec:
      chk.violation('oracle', 'an NNX key is not fold_in(stream key, count) nor fold_in(split(fold_in(key, c0), n)[i], j)', {'case': c, 'observed': undec[:2]})
      continue
    rows = []
    for op, r in zip(c['ops'], o['ok']):
      if op[0] == 'draw':
        cop = '(RDraw %s)' % cN(SC.get(op[1], 9))
      elif op[0] == 'split':
        only = [s[0] for s in c['seeds']] if op[1] is None else op[1]
        cop = ('(RSplitSq %s)' % clist([cN(SC[x]) for x in only])) if (len(op) > 3 and op[3]) else '(RSplit %s %s)' % (clist([cN(SC[x]) for x in only]), cnat(op[2]))
      elif op[0] == 'restore':
        cop = 'RRestore'
      else:
        cop = '(RReseed %s %s)' % (cN(SC[op[1]]), cN(op[2]))
      exp = 'XRaised' if 'raised' in r else ('(XKeys %s)' % clist([ckterm(k) for k in r['keys']]) if 'keys' in r else 'XOk')
      rows.append(cpair(cop, exp))
    init = clist([cpair(cN(SC[nm]), '(Plain (KSeed %s) 0)' % cN(sd)) for nm, sd in c['seeds']])
    ncoq.append((c, o, cpair(init, clist(rows))))
  chk.sample({'nnx_case': nnxc[0], 'observed': [{k: v for k, v in r.items() if k != 'raw'} for r in nres[0].get('ok', [])][:4]})
  nhdr = HEADER + '''
Inductive xp := XRaised | XOk | XKeys (ks : list kterm).
Fixpoint replay (s : rstate) (rows : list (rop * xp)) : bool :=
  match rows with
  | [] => true
  | (o, e) :: rest =>
      match rstep s o, e with
      | None, XRaised => replay s rest
      | Some s', XOk => replay (mkR (r_streams s') [] (r_sq s')) rest
      | Some s', XKeys ks => list_beq (list_beq kterm_beq) (r_out s') [ks] && replay (mkR (r_streams s') [] (r_sq s')) rest
      | _, _ => false
      end
  end.
Definition chk (c : streams * list (rop * xp)) : bool := replay (mkR (fst c) [] []) (snd c).
'''
  bad = common.coq_mismatches('c09_nnx', nhdr, [x[2] for x in ncoq], 'chk', shard=300)
  for i in bad[:8]:
    chk.violation('correspondence', 'Model/Rng.v and flax.nnx.Rngs disagree on a history of draws / split_rngs / restore_rngs / reseed; C09_nnx_* no longer transfer',
                  {'case': ncoq[i][0], 'observed': [{k: v for k, v in r.items() if k != 'raw'} for r in ncoq[i][1]['ok']]})
  chk.cov['traces_validated_against_impl'] += len(ncoq)
  # Linen under nn.jit (a jitted method of a setup-style module, and a reused jitted class called several times per forward pass): the same program with the same seeds
  # hands out the same keys on every apply -- the apply that traces and the cache hits -- and never one key twice
  jm = [{'depth': rng.choice([1, 2]), 'inside': rng.randint(1, 2), 'own': rng.random() < 0.5, 'seq': [rng.choice(['plain', 'jit']) for _ in range(rng.randint(2, 3))] + ['jit', 'plain'],
         'applies': 3, 'seed': rng.randint(0, 99)} for _ in range(10 if thorough else 3)]
  jm += [{'kind': 'class', 'depth': rng.randint(1, 2), 'inside': rng.randint(1, 2), 'own': rng.random() < 0.5, 'seq': [], 'applies': 3, 'seed': rng.randint(0, 99)}
         for _ in range(10 if thorough else 3)]
  jr = common.run_impl('impl_c05.py', {'jit_methods': jm}, timeout=1500)['jit_methods']
  for c, r in zip(jm, jr):
    chk.count({'linen_jit_keys': c}, True)
    if 'err' in r:
      chk.violation('oracle', 'a module drawing keys under nn.jit could not be applied: %s' % r['err'], {'case': c, 'tb': r.get('tb')})
      continue
    runs = r['ok']['jit']
    if any(run != runs[0] for run in runs):
      chk.violation('oracle', 'the same Linen program with the same seeds handed out other keys on a later apply (nn.jit cache hit vs the apply that traced)', {'case': c, 'observed': runs})
    elif len({tuple(k) for k in runs[0]}) != len(runs[0]):
      chk.violation('oracle', 'one key was handed out twice within one apply under nn.jit', {'case': c, 'observed': runs[0]})
    elif r['ok'].get('jit_disabled') != runs[0]:
      chk.violation('oracle', 'the keys handed out under nn.jit depend on which call was traced first: they differ from the same nn.jit program evaluated under jax.disable_jit() '
                    '(a later call re-used a trace made at other rng counters)', {'case': c, 'jit': runs[0], 'jit_disabled': r['ok'].get('jit_disabled')})
  # branches of nn.cond / nn.switch that draw different numbers of keys, and a draw after the transform
  chk.count({'branch_draws': 1}, True)
  bd = common.run_impl('impl_c09.py', {'branch_draws': True}, timeout=900)['branch_draws']
  for b in bd['bad'][:4]:
    chk.violation('oracle', 'within one apply a key drawn inside the branch of nn.%s that ran and a later draw (or two draws of the branch) are the same key, or the call raised' % b['form'], b)
  # ... and the counts the keys were drawn at are those of Model/Rng.v branch_counts / count_after (cond lists true_fun first: position 0)
  brows = ['(list_beq Nat.eqb (branch_counts 0 %s %s ++ [count_after 0 %s]) %s)' % (clist([cnat(d) for d in r['draws']]), cnat(r['branch']), clist([cnat(d) for d in r['draws']]),
                                                                                 clist([cnat(x) for x in r['counts']])) for r in bd['rows']]
  bbad = common.coq_mismatches('c09_branch', 'From Flaxm Require Import Lib.Harness Model.Rng.\nDefinition chk (b : bool) : bool := b.\n', brows, 'chk', shard=200)
  for i in bbad[:4]:
    chk.violation('correspondence', 'Model/Rng.v branch_counts / count_after and the call counts of the keys drawn in and after nn.cond / nn.switch disagree (C09_branch_draws_distinct no longer transfers)',
                  bd['rows'][i])
  chk.cov['traces_validated_against_impl'] = chk.cov.get('traces_validated_against_impl', 0) + len(brows)
  # sibling modules / child scopes passed as ARGUMENTS into a jitted or fold_rngs-wrapped module (F31)
  ja = [{'form': f, 'nsib': rng.randint(2, 3), 'draws': rng.randint(1, 2), 'own': rng.random() < 0.6, 'applies': 2, 'seed': rng.randint(0, 99)}
        for f in ('method', 'class', 'fold', 'core') for _ in range(3 if thorough else 1)]
  jar = common.run_impl('impl_c09.py', {'jit_args': ja}, timeout=1500)['jit_args']
  jrows = []
  for c, r in zip(ja, jar):
    chk.count({'linen_jit_arg_keys': c}, True)
    if 'err' in r:
      chk.violation('oracle', 'modules passed as arguments into nn.jit / fold_rngs could not be applied: %s' % r['err'], {'case': c, 'tb': r.get('tb')})
      continue
    runs = r['ok']['runs']
    if any(run != runs[0] for run in runs):
      chk.violation('oracle', 'the same program with the same seeds handed out other keys on a later apply (modules passed as arguments into nn.jit / fold_rngs)', {'case': c, 'observed': runs})
    elif len({tuple(k) for k in runs[0]}) != len(runs[0]):
      chk.violation('oracle', 'two draws at different module paths returned the same key: scopes handed to lift.jit / fold_rngs (%s form) as arguments lose their path' % c['form'],
                    {'case': c, 'observed': runs[0]})
    elif runs[0] != r['ok']['recomputed']:
      chk.violation('correspondence', 'Model/Rng.v (LazyRng, materialise at the jit boundary) and flax disagree: an observed key is not the key the model\'s term denotes (C09_jit_* no longer transfer)',
                    {'case': c, 'roles': r['ok']['roles'], 'observed': runs[0], 'model_keys': r['ok']['recomputed']})
    else:
      # the terms the re-computation realised are the model's terms (the byte strings are written by the harness's own encoder)
      def enc_bytes(suffix):
        b = b''
        for x in suffix:
          b += x.encode('utf-8') if isinstance(x, str) else int(x).to_bytes((int(x).bit_length() + 7) // 8, 'big')
        return clist([cN(v) for v in b])
      fstr = lambda nm: '(FStr %s)' % clist([cN(v) for v in nm.encode('utf-8')])
      rootl = '(mkLazy (LRoot %s) [])' % cN(c['seed'])
      parts = []
      for role in r['ok']['roles']:
        if role[0] == 'root':
          parts.append('lkey_beq (make_rng_key false %s %s) (LFold (LRoot %s) %s)' % (rootl, cN(role[1]), cN(c['seed']), enc_bytes([role[1]])))
        elif role[0] == 'out':
          parts.append('lkey_beq (make_rng_key false (child_rng %s %s) %s) (LFold (LRoot %s) %s)' % (rootl, fstr(role[1])[6:-1], cN(role[2]), cN(c['seed']), enc_bytes([role[1], role[2]])))
        else:
          parts.append('lkey_beq (make_rng_key false (materialise false (child_rng %s %s)) %s) (LFold (LFold (LRoot %s) %s) %s)' % (
              rootl, fstr(role[1])[6:-1], cN(role[2]), cN(c['seed']), enc_bytes([role[1]]), enc_bytes([role[2]])))
      jrows.append((c, '(' + ' && '.join(parts) + ')'))
  if jrows:
    jhdr = 'From Flaxm Require Import Lib.Harness Model.Rng.\nDefinition chk (b : bool) : bool := b.\n'
    bad = common.coq_mismatches('c09_jit', jhdr, [x[1] for x in jrows], 'chk', shard=50)
    for i in bad[:4]:
      chk.violation('correspondence', 'Model/Rng.v make_rng_key / child_rng / materialise and the byte strings hashed for scopes handed to lift.jit disagree', {'case': jrows[i][0]})
    chk.cov['traces_validated_against_impl'] += len(jrows)
  # NNX streams inside a Linen program (nnx.bridge.ToLinen reseeds them on every apply)
  bk = [{'skip_rng': sk, 'stream': rng.choice(['dropout', 'noise']), 'own_seed': rng.randint(0, 5), 'calls': rng.randint(2, 3), 'seed': rng.randint(1, 50)} for sk in (True, False)]
  bkr = common.run_impl('impl_c09.py', {'bridge_keys': bk}, timeout=900)['bridge_keys']
  for c, r in zip(bk, bkr):
    chk.count({'bridge_keys': c}, True)
    if 'err' in r:
      chk.violation('oracle', 'an NNX module drawing keys inside a Linen model (ToLinen) could not be applied: %s' % r['err'], {'case': c, 'tb': r.get('tb')})
      continue
    o = r['ok']
    if o['a'] != o['a_again']:
      chk.violation('oracle', 'NNX stream under ToLinen: the same program with the same seeds handed out other keys on a second apply', {'case': c, 'observed': o})
    elif len({tuple(k) for k in o['a']}) != len(o['a']):
      chk.violation('oracle', 'NNX stream under ToLinen (skip_rng=%s): two calls within one apply drew the same key' % c['skip_rng'], {'case': c, 'observed': o})
    elif any(k in o['b'] for k in o['a']):
      chk.violation('oracle', 'NNX stream under ToLinen (skip_rng=%s): applies with different seed keys handed out the same key (the stream is not reseeded from the Linen rngs of the call)' % c['skip_rng'],
                    {'case': c, 'observed': o})
  # several Rngs objects in one model holding streams of the same name: reseed restarts each of them
  rm = [{'nblocks': rng.randint(2, 3), 'draws_before': [rng.randint(0, 3) for _ in range(3)], 'draws_after': rng.randint(1, 3), 'seed': rng.randint(40, 60)} for _ in range(12 if thorough else 4)]
  rr = common.run_impl('impl_c09.py', {'reseed_multi': rm})['reseed_multi']
  for c, r in zip(rm, rr):
    chk.count({'reseed_multi': c}, True)
    if 'err' in r:
      chk.violation('oracle', 'nnx.reseed on a model with several Rngs objects raised %s' % r['err'], {'case': c, 'tb': r.get('tb')})
    elif not all(b['restarted'] for b in r['ok']):
      chk.violation('oracle', 'nnx.reseed did not restart every stream of the given name (a model built from separate nnx.Rngs objects): after reseed the draws are not fold_in(key(seed), 0..)',
                    {'case': c, 'observed': r['ok']})
  pr = common.run_impl('impl_c09_probe.py', {})
  if pr['F8']['collides']:
    what = "with flax_fix_rng_separator, suffixes ('x', 0x610001) and ('x', 'a', 1) are hashed to the same key (an int count whose bytes contain 0x00)"
    if 'F8-count-with-zero-byte' in known:
      chk.known('F8-count-with-zero-byte', what)
    else:
      chk.violation('oracle', what, pr['F8'])
  chk.notes['linen_draws_decoded'] = ndraws
  chk.notes['linen_programs'] = len(linen)
  chk.notes['nnx_histories'] = len(nnxc)
  chk.cov['rule'] = ('Linen module programs with make_rng of 3 streams in arbitrary positions and parameter initialisers that expose their key, under both settings of '
                     'flax_fix_rng_separator, stream sets with and without the requested stream (fallback to params), each with a variant that inserts an unrelated sibling; every '
                     'observed key is decoded by an independent recomputation into (stream, path, count) and the address sequence is compared with the model trace. NNX: random histories '
                     'of draws (incl. missing streams), split_rngs(only=...), restore_rngs, reseed over up to 3 streams, keys decoded into terms. non-trivial = >=3 draws / a split')
  chk.cov['trusted_base'] = ['Coq 8.16.1 kernel + vm_compute', 'harness/c09.py, impl_c09.py, linen_prog.py, impl_linen.py', 'harness/jaxcompat.py', 'jax.random (fold_in, split, key), hashlib.sha1']
