"""C06 -- Lifted scan and vmap equal the explicit loop and the per-example stack."""
import numpy as np
import common
import c08 as C8
from common import cN, cZ, cnat, cbool, clist, copt, cpair

PROOF_FILES = ['Proofs/NnxLift.v', 'Proofs/LinenLoop.v', 'Proofs/Axes.v']
ASSUMPTIONS = [
    'lax.scan = fold over the iterations, jax.vmap = map over the index with batchedness tracked by dependency (idealised, not verified); unroll does not occur in the model',
    'an axis collection is represented by its slices along the declared axis: the transpose_to_front / moveaxis arithmetic of the code is tied to the model by the correspondence (non-square shapes)',
    'loop bodies are integer programs over the variables of one module (C08 body language); the collections ax0 / ax1 / ax2 / axm1 / bc / carry play the roles axis 0 / 1 / 2 / -1 / broadcast / carry',
    'keys are compared by equality pattern only (split: pairwise distinct per iteration, unsplit: identical)',
]
HEADER = 'From Flaxm Require Import Lib.Harness Model.NnxFilters Model.NnxLift Model.LinenLoop Model.Axes.\nOpen Scope Z_scope.\n'


def full_shape(slice_shape, spec, L):
  """shape of an axis collection's variable: the per-step shape with the scan axis inserted at position spec (negative: from the end)"""
  if not isinstance(spec, int):
    return list(slice_shape)
  pos = spec if spec >= 0 else len(slice_shape) + 1 + spec
  return list(slice_shape[:pos]) + [L] + list(slice_shape[pos:])


def gen_remat_scan(rng):
  lengths = [rng.randint(1, 3) for _ in range(rng.randint(1, 3))]
  n = int(np.prod(lengths))
  return {'kind': 'remat_scan', 'lengths': lengths, 'a': rng.choice([1, 2, -1]), 'w': np.array([rng.randint(-3, 3) for _ in range(n)]).reshape(lengths).tolist(), 'winit': rng.randint(-2, 2),
          'c0': rng.randint(-2, 2), 'draw': rng.random() < 0.5, 'split_noise': rng.random() < 0.5}


def gen_axes(rng):
  rank = rng.randint(1, 3)
  shape = rng.choice([[2], [3]]) if rank == 1 else rng.choice([[2, 3], [3, 2], [1, 2]]) if rank == 2 else rng.choice([[2, 3, 1], [1, 2, 3], [2, 1, 2]])
  ax = lambda: rng.choice(list(range(rank + 1)) + [-(k + 1) for k in range(rank + 1)])
  return {'kind': 'axes', 'length': rng.choice([2, 4, 5]), 'shape': shape, 'in_axis': ax(), 'out_axis': ax(), 'var_axis': ax(), 'reverse': rng.random() < 0.3,
          'c0': rng.randint(-2, 2), 'seed': rng.randint(0, 10 ** 6), 'no_cci': rng.random() < 0.4}


def gen_case(rng, kind):
  if kind == 'remat_scan':
    return gen_remat_scan(rng)
  if kind == 'axes':
    return gen_axes(rng)
  L = rng.randint(1, 4)
  nv = rng.randint(1, 5)
  vars_ = []
  for j in range(nv):
    spec = rng.choice([0, 0, 1, 2, -1, None, 'carry'] if kind == 'scan' else [0, 0, 1, 2, -1, None, None])
    rank = 2 if spec == 2 else rng.randint(1 if spec == 1 else 0, 2)
    slice_shape = [rng.randint(1, 3) for _ in range(rank)]
    if spec == 2:
      slice_shape = rng.choice([[2, 3], [3, 2], [1, 3], [2, 1]])     # non-square: a wrong permutation changes the shape or the values
    full = full_shape(slice_shape, spec, L)
    size = int(np.prod(full)) if full else 1
    val = np.array([rng.randint(-3, 4) for _ in range(size)], dtype=np.int64).reshape(full).tolist()
    vars_.append({'spec': spec, 'slice_shape': slice_shape, 'val': val, 'init': rng.randint(-2, 3), 'path': [str(j)], 'type': 'Param'})
  body = C8.gen_body(rng, vars_, 'scan' if kind == 'scan' else 'vmap')
  readonly = rng.random() < 0.25
  if readonly:
    # a body that only reads, with key-dependent initialisers and no carry collection: init's output must be the loop over the variables init returns
    body = {'stmts': [], 'ret': body['ret']}
    for v in vars_:
      v['rand_init'] = True
      if v['spec'] == 'carry':
        v['spec'] = None
  return {'readonly': readonly, 'kind': kind, 'length': L, 'reverse': rng.random() < 0.4, 'unroll': rng.randint(1, 3),
          'split': {'params': (rng.random() < 0.5) and not readonly, 'dropout': rng.random() < 0.5},       # a broadcast variable initialised from a split stream would depend on the iteration
          'draw': rng.sample(['params', 'dropout'], rng.randint(0, 2)), 'vars': vars_, 'body': body, 'xs': [rng.randint(-3, 3) for _ in range(L)], 'c0': rng.randint(-2, 2)}


def cvval(v, val):
  a = np.array(val, dtype=np.int64)
  if isinstance(v['spec'], int):
    a = np.moveaxis(a, v['spec'], 0)
    return '(Slices %s)' % clist([clist([cZ(int(z)) for z in a[i].reshape(-1)]) for i in range(a.shape[0])])
  return '(Whole %s)' % clist([cZ(int(z)) for z in a.reshape(-1)])


def cvars(d, init=False):
  out = []
  for j, v in enumerate(d['vars']):
    val = v['val']
    if init:
      full = full_shape(v['slice_shape'], v['spec'], d['length'])
      val = np.full(full, v['init'], dtype=np.int64).tolist()
    out.append('(mkVar (mkLeaf [%s] [] None 0%%N) %s)' % (cN(j), cvval(v, val)))
  return clist(out)


def csa(d):
  return clist([cpair('(NPathContains %s)' % cN(j), C8.cspec(v['spec'])) for j, v in enumerate(d['vars'])])


def run(chk):
  rng = chk.rng
  thorough = chk.tier == 'thorough'
  chk.proofs(PROOF_FILES)
  cases = [gen_case(rng, ['scan', 'vmap', 'scan', 'vmap', 'remat_scan', 'axes'][i % 6]) for i in range(1800 if thorough else 180)]
  W = 12
  results = common.run_impl_parallel('impl_c06.py', [{'cases': cases[i::W]} for i in range(W)], workers=W, timeout=3000)
  obs = [None] * len(cases)
  for k, r in enumerate(results):
    for j, o in enumerate(r['cases']):
      obs[k + W * j] = o
  rows = []
  f25 = []
  stat = {'scan': 0, 'vmap': 0, 'apply_err': 0, 'init_err': 0, 'bcast_write': 0}
  for d, o in zip(cases, obs):
    if d['kind'] == 'axes':
      chk.count(d, max(d['in_axis'], d['out_axis'], d['var_axis']) >= 2 or min(d['in_axis'], d['out_axis'], d['var_axis']) < 0)
      stat['axes'] = stat.get('axes', 0) + 1
      r = o.get('ok', o)
      if 'err' in r or 'ok' not in r:
        chk.violation('oracle', 'nn.scan with in_axes / out_axes / variable_axes at other positions could not be run: %s' % r.get('err'), {'case': d, 'msg': r.get('msg'), 'tb': o.get('tb')})
        continue
      r = r['ok']
      if not (r['ys_ok'] and r['trace_ok'] and r['carry_ok']) or r['init_trace_shape'] != r['exp_trace_shape']:
        chk.violation('oracle', 'nn.scan differs from the Python loop with stacked outputs / variables when the scan axis is not leading '
                      '(in_axes=%s, out_axes=%s, variable_axes=%s on per-step shape %s)' % (d['in_axis'], d['out_axis'], d['var_axis'], d['shape']), {'case': d, 'observed': r})
      # the shapes nn.scan produced against Model/Axes.v (L slices stacked along the declared axis)
      nl = lambda xs: clist([cnat(v) for v in xs])
      rows.append((d, o, '(list_beq Nat.eqb (stack_shape %s %s %s) %s && list_beq Nat.eqb (stack_shape %s %s %s) %s)' % (
          cnat(d['length']), nl(d['shape']), cZ(d['out_axis']), nl(r['ys_shape']), cnat(d['length']), nl(d['shape']), cZ(d['var_axis']), nl(r['init_trace_shape']))))
      continue
    if d['kind'] == 'remat_scan':
      chk.count(d, len(d['lengths']) > 1)
      stat['remat_scan'] = stat.get('remat_scan', 0) + 1
      if 'err' in o:
        chk.violation('oracle', 'the remat_scan case could not be run: %s' % o['err'], {'case': d, 'tb': o.get('tb')})
        continue
      r = o['ok']
      n = int(np.prod(d['lengths']))
      if 'err' in r['apply'] or 'err' in r['loop'] or r['apply']['ok'] != r['loop']['ok']:
        chk.violation('oracle', 'nn.remat_scan(lengths) differs from the loop over prod(lengths) layers', {'case': d, 'observed': r})
        continue
      if d.get('draw') and r.get('distinct_keys') != (n if d['split_noise'] else 1):
        chk.violation('oracle', 'nn.remat_scan: a stream declared %s in split_rngs gave %s distinct keys over %d layers' % ('split' if d['split_noise'] else 'unsplit', r.get('distinct_keys'), n),
                      {'case': d, 'observed': r})
      if 'err' in r['init'] or r['init']['ok']['shape'] != d['lengths']:
        chk.violation('oracle', 'init through nn.remat_scan does not create one parameter slice per layer (shape = lengths)', {'case': d, 'observed': r['init']})
      def cnest(t):
        return '(NLeaf %s)' % cZ(int(t)) if not isinstance(t, list) else '(NNode %s)' % clist([cnest(x) for x in t])
      rows.append((d, o, '(weq (nscan Z Z (fun c w => %s * c + w) %s %s) %s)' % (cZ(d['a']), cZ(d['c0']), cnest(d['w']), cZ(r['apply']['ok']['out']))))
      continue
    specs = [v['spec'] for v in d['vars']]
    chk.count(d, d['length'] > 1 and len({('axis' if isinstance(s, int) else s) for s in specs}) >= 2)
    stat[d['kind']] += 1
    if 'err' in o:
      chk.violation('oracle', 'the case could not be run: %s' % o['err'], {'case': d, 'tb': o.get('tb')})
      continue
    r = o['ok']
    ap, lp, ini = r['apply'], r['loop'], r['init']
    bw = any(s[0] in ('addto', 'scale') and specs[s[1]] is None for s in d['body']['stmts'])
    # a write into a broadcast / None-axis variable whose value varies per iteration / index must be rejected
    varying = C8.batched_none_write({'vars': [dict(v, spec=(0 if (d['kind'] == 'scan' and v['spec'] == 'carry') else v['spec'])) for v in d['vars']], 'body': d['body']},
                                    carry_varies=d['kind'] == 'scan')
    expect_reject = varying
    model = ('lscan_model %s %s %s @VARS@ %s %s' % (csa(d), C8.cbody(d['body']), cbool(d['reverse']), cZ(d['c0']), clist([cZ(x) for x in d['xs']]))) if d['kind'] == 'scan' else \
            ('vmap_model %s %s @VARS@ %s' % (csa(d), C8.cbody(d['body']), clist([cZ(x) for x in d['xs']])))

    def expect_row(res, vars_term):
      m = model.replace('@VARS@', vars_term)
      vals = clist([C8.cvval_obs(x) for x in res['vals']])
      ys = clist([cZ(y) for y in res['ys']])
      if d['kind'] == 'scan':
        return '(match %s with Ok (vals, cf, ys) => list_beq vval_beq vals %s && list_beq weq ys %s%s | Err _ => false end)' % (
            m, vals, ys, (' && weq cf %s' % cZ(res['carry'][0])) if 'carry' in res else '')
      return '(match %s with Ok (vals, ys) => list_beq vval_beq vals %s && list_beq weq ys %s | Err _ => false end)' % (m, vals, ys)
    # ---- apply
    if expect_reject:
      stat['bcast_write'] += 1
      if 'err' not in ap:
        chk.violation('oracle', 'nn.%s accepted a body that writes %s' % (d['kind'], 'a broadcast collection inside the loop' if d['kind'] == 'scan' else 'a per-index value into a None-axis collection'),
                      {'case': d, 'observed': ap})
      continue
    if d['kind'] == 'scan' and bw and 'ok' in ap and 'ok' in lp and any(ap['ok'][k] != lp['ok'][k] for k in ('carry', 'ys', 'vals')):
      f25.append(d)         # a loop-invariant write to a broadcast variable: applied once by nn.scan, every iteration by the loop (known finding F25); the model mirrors nn.scan
    elif ('err' in ap) != ('err' in lp) or ('ok' in ap and any(ap['ok'][k] != lp['ok'][k] for k in (('carry', 'ys', 'vals') if d['kind'] == 'scan' else ('ys', 'vals')))):
      chk.violation('oracle', 'nn.%s differs from %s (final carry, stacked outputs, or the collections afterwards)' % (
          d['kind'], 'the unrolled Python loop over sliced variables' if d['kind'] == 'scan' else 'calling the module once per index on sliced variables'), {'case': d, 'lifted': ap, 'loop': lp})
      continue
    if 'err' in ap:
      stat['apply_err'] += 1
      continue
    a = ap['ok']
    # rng streams: split -> a different key per iteration, unsplit -> the same key
    for stream, keys in zip(d['draw'], a['keys']):
      distinct = len({tuple(k) for k in keys})
      if d['split'][stream] and distinct != len(keys):
        chk.violation('oracle', 'a stream declared split gave the same key to two iterations', {'case': d, 'stream': stream, 'keys': keys})
      if not d['split'][stream] and distinct != 1:
        chk.violation('oracle', 'a stream declared unsplit gave different keys to the iterations', {'case': d, 'stream': stream, 'keys': keys})
    row = [expect_row(a, cvars(d))]
    # ---- init: axis collections get one slice per iteration, broadcast collections are initialised once, a carry collection cannot be created inside the loop
    if d['kind'] == 'scan' and 'carry' in specs:
      if 'err' not in ini:
        chk.violation('oracle', 'nn.scan created a carry collection inside the loop during init', {'case': d, 'observed': ini})
      stat['init_err'] += 1
    elif 'err' in ini:
      chk.violation('oracle', 'init through nn.%s raised %s' % (d['kind'], ini['err']), {'case': d, 'msg': ini.get('msg')})
    else:
      for j, v in enumerate(d['vars']):
        full = full_shape(v['slice_shape'], v['spec'], d['length'])
        col = {0: 'ax0', 1: 'ax1', 2: 'ax2', -1: 'axm1', None: 'bc', 'carry': 'carry'}[v['spec']]
        if ini['ok']['shapes'][col]['v%d' % j] != full:
          chk.violation('oracle', 'init through nn.%s gives a variable the wrong shape (one slice per iteration along the declared axis / broadcast initialised once)' % d['kind'],
                        {'case': d, 'var': j, 'shape': ini['ok']['shapes'][col]['v%d' % j], 'expected': full})
      if ini['ok'].get('init_consistent') is False:
        chk.violation('oracle', 'the output of init through nn.%s is not the loop over the variables init returns (a collection was initialised twice)' % d['kind'], {'case': d, 'observed': ini['ok']})
      if not d.get('readonly'):
        row.append(expect_row(ini['ok'], cvars(d, init=True)))
    rows.append((d, o, '(' + ' && '.join(row) + ')'))
  chk.sample({'case': cases[0], 'observed': obs[0].get('ok', {}).get('apply')})
  hdr = HEADER + '''(* the implementation computes in int64, the model in Z; the bodies are ring expressions, so the two agree modulo 2^64 *)
Definition weq (a b : Z) : bool := Z.eqb ((a - b) mod 18446744073709551616) 0.
Definition vval_beq (a b : vval) : bool :=
  match a, b with Whole x, Whole y => list_beq weq x y | Slices x, Slices y => list_beq (list_beq weq) x y | _, _ => false end.
Definition chk (b : bool) : bool := b.
'''
  bad = common.coq_mismatches('c06', hdr, [r[2] for r in rows], 'chk', shard=60, timeout=900)
  for i in bad[:8]:
    d, o, _ = rows[i]
    chk.violation('correspondence', 'Model/NnxLift.v (%s) and flax.linen.%s disagree; theorems C06_* no longer transfer' % (d['kind'], d['kind']), {'case': d, 'observed': o['ok']})
  chk.cov['traces_validated_against_impl'] = len(rows)
  known = {k['key'] for k in common.load_known() if k['property'] == 'C06' and k.get('status') == 'known'}
  pr = common.run_impl('impl_c06.py', {'probe': True})
  what = ('a write to a variable_broadcast collection inside the body of nn.scan whose value does not depend on the loop is accepted and applied once: bc += 1 over 3 iterations leaves bc + 1, '
          'the unrolled Python loop leaves bc + 3')
  if pr['F25-scan-broadcast-write-once']['fails'] or f25:
    if 'F25-scan-broadcast-write-once' in known:
      chk.known('F25-scan-broadcast-write-once', what)
    else:
      chk.violation('oracle', what, {'probe': pr['F25-scan-broadcast-write-once'], 'generated': f25[:2]})
  chk.notes['stats'] = stat
  # two further implementation-side families: sub-modules handed over through dataclass fields; In / Out axis markers over two calls
  import itertools as _it
  fcases = []
  for _ in range(40 if thorough else 10):
    names = rng.sample(['second', 'first', 'mid', 'zeta', 'alpha'], rng.randint(2, 4))
    fcases.append({'names': names, 'ws': [rng.randint(2, 9) for _ in names], 'order': [rng.choice(names) for _ in range(rng.randint(2, 4))], 'n': rng.randint(1, 3),
                   'form': rng.choice(['vmap', 'scan'])})
  icases = [{'marker': m, 'form': f, 'n': rng.randint(1, 4), 'ncalls': 2} for m, f in _it.product(['plain', 'in', 'out'], ['vmap', 'scan'])]
  NAMES = ['params', 'stats', 'cache', 'trace', 'aux']
  scases = []
  for _ in range(200 if thorough else 40):
    ks = rng.sample(NAMES, rng.randint(1, 5))
    scases.append({'entries': [[k, rng.choice(['both', 'both', 'in', 'out']), rng.randint(0, 2)] for k in ks]})
  xr = common.run_impl_parallel('impl_c06_extra.py', [{'fields': fcases[i::4], 'inout': icases[i::4], 'split_io': scases[i::4]} for i in range(4)], workers=4, timeout=1500)
  srows = []
  for k, r in enumerate(xr):
    for c, o in zip(scases[k::4], r['split_io']):
      chk.count({'split_in_out': c}, any(e[1] != 'both' for e in c['entries']))
      if 'err' in o:
        chk.violation('oracle', 'lift._split_in_out_axes raised %s' % o['err'], {'case': c})
        continue
      ent = clist(['(FName %s, %s %s)' % (cN(NAMES.index(e[0]) + 1), {'both': 'AxBoth', 'in': 'AxIn', 'out': 'AxOut'}[e[1]], common.cZ(e[2])) for e in c['entries']])
      pairs = lambda l: clist(['(FName %s, %s)' % (cN(NAMES.index(kk) + 1), common.cZ(v)) for kk, v in l])
      srows.append((c, o, '(let io := split_in_out %s in list_beq fz_beq (fst io) %s && list_beq fz_beq (snd io) %s)' % (ent, pairs(o['ok']['in']), pairs(o['ok']['out']))))
  sbad = common.coq_mismatches('c06_split_io', 'From Flaxm Require Import Lib.Harness Model.Filters Model.Linen Model.Lift.\nOpen Scope Z_scope.\n'
                               'Definition fz_beq (a b : filt * Z) : bool := match fst a, fst b with FName x, FName y => N.eqb x y && Z.eqb (snd a) (snd b) | _, _ => false end.\n'
                               'Definition chk (b : bool) : bool := b.\n', [x[2] for x in srows], 'chk', shard=200)
  for i in sbad[:6]:
    chk.violation('correspondence', 'Model/Lift.v split_in_out and flax.core.lift._split_in_out_axes disagree on the ordered in / out filter lists of a variable_axes mapping with In / Out markers '
                  '(C06_out_only_not_sliced_in, C06_in_only_not_written_back, C06_unmarked_axis_is_in_and_out no longer transfer)', {'case': srows[i][0], 'observed': srows[i][1]})
  for k, r in enumerate(xr):
    for c, o in zip(fcases[k::4], r['fields']):
      chk.count({'field_modules': c}, c['names'] != sorted(c['names']))
      if 'err' in o['impl'] or o['impl'] != o['ref']:
        chk.violation('oracle', 'nn.%s of a module that receives bound sub-modules through its dataclass fields (declared in the order %s) differs from the %s of the plain '
                      'module: a sub-module computes with the variables of another' % (c['form'], c['names'], 'per-index call' if c['form'] == 'vmap' else 'unrolled loop'),
                      {'case': c, 'observed': o})
    for c, o in zip(icases[k::4], r['inout']):
      chk.count({'in_out_axes': c}, c['marker'] != 'plain')
      if 'err' in o['impl'] or o['impl'] != o['ref']:
        chk.violation('oracle', 'nn.%s with the collection axis given as %s, applied twice with the first call\'s collection passed back in, differs from the loop: In(axis) slices the '
                      'collection in and keeps the writes inside, Out(axis) slices nothing in and stacks what the body creates' % (c['form'], {'plain': 'a plain axis', 'in': 'In(0)', 'out': 'Out(0)'}[c['marker']]),
                      {'case': c, 'observed': o})
  chk.cov['rule'] = ('modules with 1-5 variables in the collections ax0 / ax1 / ax2 / axm1 / bc / carry (variable_axes 0, 1, 2 and -1, variable_broadcast, variable_carry) of rank 0-3 with non-square shapes x '
                     'integer bodies (C08 language) x lengths 1-4 x reverse x unroll 1-3 x split_rngs patterns over two streams; apply on stacked variables and init; nn.scan and nn.vmap; bound sub-modules passed through dataclass fields in any declaration order; In(0) / Out(0) axis markers over two calls. '
                     'non-trivial = length > 1 and at least two roles')
  chk.cov['trusted_base'] = ['Coq 8.16.1 kernel + vm_compute', 'harness/c06.py, impl_c06.py, c08.py', 'harness/jaxcompat.py', 'lax.scan, jax.vmap']
