"""C19 -- partition names stay aligned with array axes; logical_to_mesh_axes."""
import itertools
import common
from common import cN, cZ, cnat, cbool, clist, copt, cpair

PROOF_FILES = ['Proofs/Partition.v', 'Proofs/StateAxesMeta.v']
ASSUMPTIONS = [
    'jnp.stack / lax.scan / jax.vmap place the new axis at the (normalised) declared position (modelled as stack_shape)',
    'the mesh context is absent (no global mesh): unbox applies no sharding constraint',
]
HEADER = 'From Flaxm Require Import Lib.Harness Model.Partition.\n'
NAMES = ['a', 'b', 'c', 'd', 'embed', 'mlp', 'layers', 'stack', 'x']
NC = {n: i + 1 for i, n in enumerate(NAMES)}
MESH = ['X', 'Y', 'Z']
MC = {n: i + 10 for i, n in enumerate(MESH)}


def cname(n):
  return copt(None if n is None else cN(NC[n]))


def cnames(ns):
  return clist([cname(n) for n in ns])


def py_norm(fr, k):
  return k + fr if k < 0 else k


def model_levels(names, shape, levels):
  """Independent Python oracle of what the names/shape must be after stacking, innermost level first."""
  names, shape = list(names), list(shape)
  for kind, axis, n, pname in reversed(levels):
    p = py_norm(len(shape) + 1, axis)
    shape.insert(p, n)
    while len(names) < p:
      names.append(None)
    names.insert(p, pname)
  return names, shape


def py_logical_to_mesh(names, rules):
  """rule priority as documented, written independently of flax and of the Coq model; None = outside (duplicate names raise)"""
  strs = [n for n in names if n is not None]
  if len(strs) != len(set(strs)):
    return None
  res = {n: 'unassigned' for n in strs}
  used = set()
  for a, t in rules:
    if a in res and res[a] == 'unassigned':
      axes = list(t) if t else []
      if not any(x in used for x in axes):
        res[a] = axes if t else None
        used.update(axes)
  return [None if n is None or res[n] in ('unassigned', None) else res[n] for n in names]


def run(chk):
  rng = chk.rng
  thorough = chk.tier == 'thorough'
  chk.proofs(PROOF_FILES)
  # ---- (a) direct add/remove: exhaustive over rank 0..4, every axis position, names full/short/with None
  direct = []
  for r in range(0, 5):
    base = rng.sample(NAMES[:6], r)
    variants = [base]
    if r >= 1:
      variants.append([None if i % 2 else n for i, n in enumerate(base)])
      variants.append(base[:-1])      # short tuple
    if r >= 2:
      variants.append(base[:1])
    for names in variants:
      for k in range(-(r + 1), r + 1):
        shape_full = [rng.randint(1, 3) for _ in range(r + 1)]
        direct.append({'names': names, 'shape_full': shape_full, 'k': k, 'nm': rng.choice(['layers', 'stack'])})
        # names that already contain the partition name at the stacked position (for remove)
        nf = list(names) + [None] * (r - len(names))
        p = py_norm(r + 1, k)
        nf.insert(p, 'layers')
        direct.append({'names': nf, 'shape_full': shape_full, 'k': k, 'nm': 'layers'})
  # ---- (b) transforms
  def gen_levels(depth):
    lv = []
    for d in range(depth):
      lv.append([rng.choice(['scan', 'vmap']), None, rng.randint(1, 3), ['layers', 'stack', 'x'][d]])
    return lv
  tcases = []
  for _ in range(160 if thorough else 28):
    r = rng.randint(0, 3)
    names = rng.sample(NAMES[:6], r)
    if r and rng.random() < 0.3:
      names[rng.randrange(r)] = None
    shape = [rng.randint(1, 3) for _ in range(r)]
    lv = gen_levels(rng.choice([1, 1, 2, 2, 3] if thorough else [1, 2, 2]))
    rank = r
    for l in reversed(lv):
      l[1] = rng.randint(-(rank + 1), rank)
      rank += 1
    tcases.append({'names': names, 'shape': shape, 'levels': lv})
  boxed = []
  for _ in range(40 if thorough else 10):
    r = rng.randint(0, 3)
    boxed.append({'names': rng.sample(NAMES[:6], r), 'shape': [rng.randint(1, 3) for _ in range(r)]})
  # ---- (e) logical_to_mesh: exhaustive small rule lists + random
  mesh = []
  lnames = ['a', 'b', 'c', 'd']
  targets = [['X'], ['Y'], ['Z'], ['X', 'Y'], None]
  small_rules = [(a, t) for a in lnames[:3] for t in targets]
  names_pool = [['a', 'b'], ['a', None, 'b', 'c'], ['c', 'a'], ['a'], [], ['b', 'b'], [None, None]]
  if thorough:
    for rs in itertools.product(small_rules, repeat=2):
      for nm in names_pool:
        mesh.append({'names': nm, 'rules': [list(x) for x in rs]})
  for _ in range(6000 if thorough else 1500):
    k = rng.randint(0, 6)
    rules = [[rng.choice(lnames), rng.choice(targets)] for _ in range(k)]
    nr = rng.randint(0, 4)
    nm = [rng.choice(lnames + [None]) for _ in range(nr)] if rng.random() < 0.25 else (rng.sample(lnames, nr) if nr <= 4 else lnames)
    if nm and rng.random() < 0.3:
      nm[rng.randrange(len(nm))] = None
    mesh.append({'names': nm, 'rules': rules})
  W = 10
  payloads = [{'linen': tcases[i::W], 'nnx': tcases[i::W]} for i in range(W)]
  payloads[0]['direct'] = direct
  payloads[1]['mesh'] = mesh
  payloads[2]['boxed'] = boxed
  # StateAxes with the filters in any order (nnx.vmap / nnx.scan with transform_metadata) and nn.add_metadata_axis over two collections
  sa_cases = [{'order': o, 'k': k, 'other': other, 'annotate_stat': ann, 'form': form, 'n': 4}
              for o in ('int_first', 'int_last', 'int_middle') for k in (0, 1, 2) for other, form in ((None, 'vmap'), (None, 'scan'), ('carry', 'scan')) for ann in (False, True)]
  if not thorough:
    sa_cases = [c for i, c in enumerate(sa_cases) if (i + chk.seed) % 3 == 0]
  ma_cases = [{'p_axis': p, 's_axis': q} for p in (0, 1, 2) for q in (0, 1)]
  payloads[3]['stateaxes'] = sa_cases
  payloads[4]['metaaxis'] = ma_cases
  results = common.run_impl_parallel('impl_c19.py', payloads, workers=W)
  dres, mres, bres = results[0]['direct'], results[1]['mesh'], results[2]['boxed']
  ins = lambda seq, k, v: list(seq[:k]) + [v] + list(seq[k:])
  for c, o in zip(sa_cases, results[3]['stateaxes']):
    chk.count({'nnx_stateaxes': c}, c['order'] != 'int_first')
    if 'err' in o:
      chk.violation('oracle', 'nnx.%s with StateAxes (%s, Param on axis %d) and transform_metadata raised %s' % (c['form'], c['order'], c['k'], o['err']), {'case': c, 'msg': o.get('msg')})
      continue
    r = o['ok']
    stat_names = ['dout'] if c['annotate_stat'] else None
    want_created = {'w_shape': ins([2, 3], c['k'], 4), 'w_names': ins(['din', 'dout'], c['k'], 'L'), 's_shape': [3], 's_names': stat_names}
    want_inside = {'w': [[2, 3], ['din', 'dout']], 's': [[3], stat_names]}
    got_inside = {kk: list(vv) for kk, vv in r['inside'].items()}
    if r['created'] != want_created:
      what = 'after creation under nnx.vmap(out_axes=StateAxes) the partition name is not at the stacking axis of the stacked Variable only'
    elif got_inside != want_inside:
      what = 'inside the transform the sliced Variable still carries the partition name (or another Variable lost a name)'
    elif r['after'] != {'w_shape': want_created['w_shape'], 'w_names': want_created['w_names'], 's_names': stat_names} or r['spec'] != want_created['w_names']:
      what = 'after the transform the names of the stacked Variable / get_partition_spec are not those it had before'
    else:
      continue
    chk.violation('oracle', 'nnx.%s, StateAxes filters in the order %s: %s' % (c['form'], c['order'], what), {'case': c, 'observed': r, 'expected_created': want_created, 'expected_inside': want_inside})
  # the same cases against Model/StateAxesMeta.v: which substate gets the partition name added (creation) / removed (use) at which axis
  sa_rows = []
  FID = {'Param': 1, 'BatchStat': 2, 'Intermediate': 3}
  for c, o in zip(sa_cases, results[3]['stateaxes']):
    if 'ok' not in o:
      continue
    r = o['ok']
    order = {'int_first': ['Param', 'BatchStat', 'Intermediate'], 'int_last': ['BatchStat', 'Intermediate', 'Param'], 'int_middle': ['BatchStat', 'Param', 'Intermediate']}[c['order']]
    code = lambda ident, names, base: ident + 100 * (names.index('L') + 1) if names is not None and 'L' in names else ident
    ax = lambda f, other: '(SAInt %s)' % common.cZ(c['k']) if f == 'Param' else ('SACarry' if other == 'carry' else 'SANone')
    ids = common.clist([common.cZ(FID[f]) for f in order])
    # creation under vmap(out_axes=StateAxes): one substate per filter, add_axis
    seen = {'Param': code(1, r['created']['w_names'], None), 'BatchStat': code(2, r['created']['s_names'], None), 'Intermediate': 3}
    sa_rows.append((c, r, '(list_beq Z.eqb (update_meta Z axf %s %s) %s)' % (ids, common.clist([ax(f, None) for f in order]), common.clist([common.cZ(seen[f]) for f in order]))))
    # use: remove_axis inside the transform; the Param counts as treated at axis k when its names are the unstacked ones again
    w_in = r['inside']['w'][1]
    w_code = 1 + 100 * (c['k'] + 1) if w_in == ['din', 'dout'] else (1 if 'L' in (w_in or []) else -1)
    s_in = r['inside']['s'][1]
    s_code = 2 if s_in == (['dout'] if c['annotate_stat'] else None) else -2
    axes = common.clist([ax(f, c['other']) for f in order])
    if c['form'] == 'vmap':
      seen2 = {'Param': w_code, 'BatchStat': s_code, 'Intermediate': 3}
      sa_rows.append((c, r, '(list_beq Z.eqb (update_meta Z axf %s %s) %s)' % (ids, axes, common.clist([common.cZ(seen2[f]) for f in order]))))
    else:
      sa_rows.append((c, r, '(list_beq Z.eqb (update_meta Z axf (scan_states Z %s %s 0%%Z) %s) %s)' % (ids, axes, axes, common.clist([common.cZ(w_code)]))))
  sbad = common.coq_mismatches('c19_stateaxes', 'From Flaxm Require Import Lib.Harness Model.StateAxesMeta.\nOpen Scope Z_scope.\n'
                               'Definition axf (s k : Z) : Z := s + 100 * (k + 1).\nDefinition chk (b : bool) : bool := b.\n', [x[2] for x in sa_rows], 'chk', shard=200)
  for i in sbad[:6]:
    chk.violation('correspondence', 'Model/StateAxesMeta.v and nnx transform_metadata disagree on which substate of a StateAxes gets the partition name at which axis (C19_stateaxes_* no longer transfer)',
                  {'case': sa_rows[i][0], 'observed': sa_rows[i][1]})
  chk.cov['traces_validated_against_impl'] = chk.cov.get('traces_validated_against_impl', 0) + len(sa_rows)
  for c, o in zip(ma_cases, results[4]['metaaxis']):
    chk.count({'linen_add_metadata_axis': c}, c['p_axis'] != c['s_axis'])
    want = {'kernel': ins(['in', 'out'], c['p_axis'], 'stack'), 'mean': ins(['feat'], c['s_axis'], 'stack')}
    if 'err' in o or o['ok']['vmap'] != want or o['ok']['meta_only'] != want:
      chk.violation('oracle', 'nn.vmap / nn.add_metadata_axis with variable_axes params:%d stats:%d do not insert the partition name at the declared axis of each collection' % (c['p_axis'], c['s_axis']),
                    {'case': c, 'observed': o, 'expected': want})
  lres = [None] * len(tcases)
  nres = [None] * len(tcases)
  for k, r in enumerate(results):
    for j, o in enumerate(r['linen']):
      lres[k + W * j] = o
    for j, o in enumerate(r['nnx']):
      nres[k + W * j] = o

  # ---- direct: correspondence
  coq = []
  for c, o in zip(direct, dres):
    chk.count({'direct': c}, c['k'] < 0 or len(c['names']) < len(c['shape_full']) - 1)
    fr = len(c['shape_full'])
    def res(x):
      return copt(None if 'err' in x else cnames(x['ok']))
    if o['linen_add'] != o['linen_add_tree']:
      chk.violation('oracle', 'meta.add_axis over a tree differs from Partitioned.add_axis', {'case': c, 'observed': o})
    coq.append(cpair(cZ(fr), cZ(c['k']), cN(NC[c['nm']]), cnames(c['names']), res(o['linen_add']), res(o['linen_remove']),
                     res(o['nnx_add']), res(o['nnx_remove'])))
    # oracle: in-range add then remove is the identity, and the name sits where the axis is
    if len(c['names']) == fr - 1 and 'ok' in o['linen_add']:
      p = py_norm(fr, c['k'])
      got = o['linen_add']['ok']
      if len(got) != fr or got[p] != c['nm'] or got[:p] + got[p + 1:] != list(c['names']):
        chk.violation('oracle', 'Partitioned.add_axis does not put the partition name at the stacked position',
                      {'case': c, 'observed': got, 'expected_position': p})
      for api in ('nnx_add',):
        if o[api].get('ok') != got:
          chk.violation('oracle', 'nnx.spmd.add_axis differs from Partitioned.add_axis', {'case': c, 'observed': o})
  chk.sample({'direct_case': direct[5], 'observed': dres[5]})
  hdr = HEADER + '''
Definition on := option (list (option N)).
Definition onb := option_beq (list_beq name_beq).
Definition chk (c : Z * Z * N * list (option N) * on * on * on * on) : bool :=
  let '(fr, k, nm, names, la, lr, na, nr) := c in
  onb (Some (add_axis fr k nm names)) la && onb (remove_axis fr k nm names) lr &&
  onb (Some (add_axis fr k nm names)) na && onb (remove_axis fr k nm names) nr.
'''
  bad = common.coq_mismatches('c19_direct', hdr, coq, 'chk', shard=500)
  for i in bad[:8]:
    chk.violation('correspondence', 'Model/Partition.v add_axis/remove_axis and flax (Partitioned / nnx.spmd) disagree; C19_add_axis_aligned etc. no longer transfer',
                  {'case': direct[i], 'observed': dres[i]})
  chk.cov['traces_validated_against_impl'] = chk.cov.get('traces_validated_against_impl', 0) + len(coq)

  # ---- transforms: compare with the model composed over levels (evaluated in Coq) and with the python oracle
  tcoq = []
  for c, lo, no in zip(tcases, lres, nres):
    chk.count({'transform': c}, len(c['levels']) >= 2 or any(l[1] < 0 for l in c['levels']))
    wn, ws = model_levels(c['names'], c['shape'], c['levels'])
    # what the program computes on raw arrays: leaf(c) = c + sum(ones(shape)); vmap over n copies then .sum(); scan = n-fold iteration
    leaf_sum = 1
    for s_ in c['shape']:
      leaf_sum *= s_

    def mk(levels):
      if not levels:
        return lambda cval: cval + leaf_sum
      kind, _, n, _ = levels[0]
      inner = mk(levels[1:])
      if kind == 'vmap':
        return lambda cval: n * inner(cval)
      def it(cval):
        for _ in range(n):
          cval = inner(cval)
        return cval
      return it
    expect_out = {'linen': mk(c['levels'])(0), 'nnx': leaf_sum}
    for l_ in c['levels']:
      expect_out['nnx'] *= l_[2]
    for api, o in (('linen', lo), ('nnx', no)):
      if 'err' in o:
        chk.violation('oracle', '%s: scan/vmap with partition metadata raised %s' % (api, o['err']), {'case': c, 'msg': o.get('msg')})
        continue
      r = o['ok']
      if r['shape'] != ws or r['names'] != wn:
        chk.violation('oracle', '%s: partition names are not aligned with the stacked axes after init' % api,
                      {'case': c, 'observed': {'shape': r['shape'], 'names': r['names']}, 'expected': {'shape': ws, 'names': wn}})
      if r['out'] != float(expect_out[api]):
        chk.violation('oracle', '%s: the boxed variable does not compute like the raw array under the transforms' % api, {'case': c, 'observed': r['out'], 'expected': expect_out[api]})
      if r['spec'] != wn:
        chk.violation('oracle', '%s: get_partition_spec does not return exactly the names' % api, {'case': c, 'observed': r['spec'], 'expected': wn})
      if api == 'linen' and (r['eval_shape_names'] != wn or r['eval_shape_shape'] != ws):
        chk.violation('oracle', 'linen: shape-only init gives other names/shape', {'case': c, 'observed': r})
      if api == 'nnx' and (r['inner_sharding'] != list(c['names']) or r['inner_shape'] != list(c['shape']) or r['after_use_names'] != wn):
        chk.violation('oracle', 'nnx: slicing did not remove the partition names again (or left the caller\'s variable changed)', {'case': c, 'observed': r})
      lv = clist([cpair(cZ(l[1]), cN(l[2]), cN(NC[l[3]])) for l in c['levels']])
      tcoq.append((c, o, cpair(cnames(c['names']), clist([cN(s) for s in c['shape']]), lv, cnames(r['names']), clist([cN(s) for s in r['shape']]))))
  chk.sample({'transform_case': tcases[0], 'linen': lres[0], 'nnx': nres[0]})
  thdr = HEADER + '''
Definition stack_levels (names : list (option N)) (shape : list N) (lv : list (Z * N * N)) : list (option N) * list N :=
  fold_right (fun l acc => let '(k, n, nm) := l in
     (add_axis (Z.of_nat (length (snd acc)) + 1) k nm (fst acc), stack_shape k n (snd acc))) (names, shape) lv.
Definition chk (c : list (option N) * list N * list (Z * N * N) * list (option N) * list N) : bool :=
  let '(names, shape, lv, rn, rs) := c in
  let r := stack_levels names shape lv in list_beq name_beq (fst r) rn && list_beq N.eqb (snd r) rs.
'''
  bad = common.coq_mismatches('c19_tr', thdr, [x[2] for x in tcoq], 'chk', shard=500)
  for i in bad[:8]:
    chk.violation('correspondence', 'Model/Partition.v composed over nested scan/vmap disagrees with flax', {'case': tcoq[i][0], 'observed': tcoq[i][1]})
  chk.cov['traces_validated_against_impl'] += len(tcoq)
  # ---- boxed like raw
  for c, o in zip(boxed, bres):
    chk.count({'boxed': c}, len(c['names']) >= 1)
    if 'err' in o:
      chk.violation('oracle', 'boxed-variable case raised %s' % o['err'], {'case': c, 'msg': o.get('msg')})
      continue
    r = o['ok']
    for k in ('unbox_identity', 'replace_boxed_keeps_names', 'same_output', 'setter_keeps_box', 'same_state', 'apply_same', 'nnx_setter_keeps_sharding'):
      if r[k] is not True:
        chk.violation('oracle', 'boxed variable does not behave like its raw array: %s' % k, {'case': c, 'observed': r})
    if r['spec'] != {'w': list(c['names']), 'raw': [], 'n': 'None'} or r['nnx_spec'] != {'w': list(c['names']), 'raw': []}:
      chk.violation('oracle', 'get_partition_spec: names for boxed, replicated for unboxed arrays, None otherwise -- violated', {'case': c, 'observed': r})
  # ---- mesh
  mcoq = []
  for c, o in zip(mesh, mres):
    chk.count({'mesh': c}, len(c['rules']) >= 2 and len([n for n in c['names'] if n]) >= 2)
    if 'ok' in o:
      res = o['ok']
      used = [a for e in res if e for a in e]
      if len(used) != len(set(used)) and not any(t and len(t) != len(set(t)) for _, t in c['rules']):
        chk.violation('oracle', 'logical_to_mesh_axes used one mesh axis for two dimensions', {'case': c, 'observed': res})
      want = py_logical_to_mesh(c['names'], c['rules'])
      if want is not None and res != want:
        chk.violation('oracle', 'logical_to_mesh_axes does not assign by rule priority: a dimension gets the mesh axes of the first rule for its name whose mesh axes are all still free '
                      'when that rule is reached; a rule that cannot fire decides nothing and later rules for that name may still apply', {'case': c, 'observed': res, 'expected': want})
      if len(res) != len(c['names']):
        chk.violation('oracle', 'logical_to_mesh_axes: result length differs from the number of dimensions', {'case': c, 'observed': res})
    exp = copt(None if 'err' in o else clist([clist([cN(MC[a]) for a in (e or [])]) for e in o['ok']]))
    rules = clist([cpair(cN(NC[a]), clist([cN(MC[x]) for x in (t or [])])) for a, t in c['rules']])
    mcoq.append(cpair(cnames(c['names']), rules, exp))
  chk.sample({'mesh_case': mesh[-1], 'observed': mres[-1]})
  mhdr = HEADER + '''
Definition chk (c : list (option N) * list rule * option (list (list N))) : bool :=
  let '(names, rules, e) := c in
  option_beq (list_beq (list_beq N.eqb)) (option_map (map entry_spec) (logical_to_mesh names rules)) e.
'''
  bad = common.coq_mismatches('c19_mesh', mhdr, mcoq, 'chk', shard=500)
  for i in bad[:8]:
    chk.violation('correspondence', 'Model logical_to_mesh and flax logical_to_mesh_axes disagree (C19_mesh_axes_disjoint / C19_mesh_priority)',
                  {'case': mesh[i], 'observed': mres[i]})
  chk.cov['traces_validated_against_impl'] += len(mcoq)
  chk.notes['direct_cases'] = len(direct)
  chk.notes['transform_cases'] = len(tcases)
  chk.notes['mesh_cases'] = len(mesh)
  chk.cov['rule'] = ('direct add_axis/remove_axis (Linen Partitioned + tree helper, NNX spmd) for every rank 0..4 x every axis position in [-(r+1), r] x full/short/None-holed '
                     'name tuples (enumerated completely); nested scan/vmap (1-3 levels, random axes incl. negative) through nn.scan/nn.vmap metadata_params and nnx.scan/nnx.vmap '
                     'transform_metadata (init, apply, eval_shape, get_partition_spec); boxed-vs-raw modules; logical_to_mesh_axes on random (and in thorough all 2-rule) rule '
                     'lists. non-trivial = negative axis or short names / >=2 levels / >=2 rules and names; distinct by canonical JSON hash')
  chk.cov['trusted_base'] = ['Coq 8.16.1 kernel + vm_compute', 'harness/c19.py + impl_c19.py', 'harness/jaxcompat.py']
