"""Implementation side of C19."""
import jaxcompat  # noqa: F401
import warnings
warnings.filterwarnings('ignore')
import common
import jax
import jax.numpy as jnp
import numpy as np
import flax.linen as nn
from flax import nnx
from flax.core import meta
from flax.linen import spmd as lspmd
from flax.nnx import spmd as nspmd
from jax.sharding import PartitionSpec as P


def safe(fn):
  try:
    return {'ok': fn()}
  except AssertionError:
    return {'err': 'AssertionError'}
  except Exception as e:  # pylint: disable=broad-except
    return {'err': type(e).__name__, 'msg': str(e)[:120]}


def direct(c):
  """Partitioned.add_axis / remove_axis and nnx.spmd.add_axis / remove_axis on one variable."""
  names = tuple(c['names'])
  shape_full = tuple(c['shape_full'])       # shape of the array WITH the stacked axis
  k, nm = c['k'], c['nm']
  params = {meta.PARTITION_NAME: nm}
  o = {}
  boxed = meta.Partitioned(jnp.zeros(shape_full), names)
  o['linen_add'] = safe(lambda: list(boxed.add_axis(k, params).names))
  o['linen_add_tree'] = safe(lambda: list(meta.add_axis({'a': {'w': boxed}, 'b': jnp.ones(2)}, k, params)['a']['w'].names))
  o['linen_remove'] = safe(lambda: list(boxed.remove_axis(k, params).names))
  # NNX: inside the transform the value does not have the mapped axis
  kk = k if k >= 0 else k + len(shape_full)
  shape_wo = shape_full[:kk] + shape_full[kk + 1:] if 0 <= kk < len(shape_full) else shape_full[1:]
  def nadd():
    vs = nnx.VariableState(nnx.Param, jnp.zeros(shape_wo), sharding=names)
    st = nnx.State({'w': vs})
    nspmd.add_axis(st, k, params)
    return list(st['w'].sharding)
  o['nnx_add'] = safe(nadd)
  def nrem():
    vs = nnx.VariableState(nnx.Param, jnp.zeros(shape_wo), sharding=names)
    st = nnx.State({'w': vs})
    nspmd.remove_axis(st, k, params)
    return list(st['w'].sharding)
  o['nnx_remove'] = safe(nrem)
  o['shape_wo'] = list(shape_wo)
  return o


class Leaf(nn.Module):
  names: tuple
  shape: tuple

  @nn.compact
  def __call__(self, c, _=None):
    w = self.param('w', nn.with_partitioning(nn.initializers.ones, self.names), self.shape)
    assert w.shape == self.shape, (w.shape, self.shape)
    return c + w.sum(), None


def wrap(cls_factory, kind, axis, n, pname):
  if kind == 'scan':
    return lambda: nn.scan(cls_factory_target(cls_factory), variable_axes={'params': axis}, split_rngs={'params': True}, length=n,
                           metadata_params={nn.PARTITION_NAME: pname})
  raise ValueError(kind)


def linen_transform(c):
  """levels: list of [kind, axis, n, partition_name] from outermost to innermost."""
  names, shape = tuple(c['names']), tuple(c['shape'])
  levels = c['levels']

  def build(i):
    if i == len(levels):
      return lambda: Leaf(names, shape)
    kind, axis, n, pname = levels[i]
    inner = build(i + 1)

    class Wrap(nn.Module):
      @nn.compact
      def __call__(self, x, _=None):
        if kind == 'scan':
          def body(mdl, carry, _):
            return mdl(carry, None)
          f = nn.scan(body, variable_axes={'params': axis}, split_rngs={'params': True}, length=n,
                      metadata_params={nn.PARTITION_NAME: pname})
          y, _ = f(inner(), x, None)
          return y, None
        else:
          def body(mdl, carry):
            return mdl(carry, None)[0]
          f = nn.vmap(body, variable_axes={'params': axis}, split_rngs={'params': True}, in_axes=None, out_axes=0, axis_size=n,
                      metadata_params={nn.PARTITION_NAME: pname})
          y = f(inner(), x)
          return y.sum(), None
    return lambda: Wrap()
  top = build(0)()
  v = top.init(jax.random.key(0), jnp.zeros(()))
  leaves = jax.tree_util.tree_leaves(v, is_leaf=lambda x: isinstance(x, meta.Partitioned))
  assert len(leaves) == 1
  p = leaves[0]
  out = top.apply(v, jnp.zeros(()))[0]
  spec = jax.tree_util.tree_leaves(nn.get_partition_spec(v), is_leaf=lambda x: isinstance(x, P))[0]
  # shape-only init agrees
  v2 = jax.eval_shape(lambda: top.init(jax.random.key(0), jnp.zeros(())))
  p2 = jax.tree_util.tree_leaves(v2, is_leaf=lambda x: isinstance(x, meta.Partitioned))[0]
  return {'shape': list(p.value.shape), 'names': list(p.names), 'out': float(out), 'spec': list(spec),
          'eval_shape_names': list(p2.names), 'eval_shape_shape': list(p2.value.shape)}


def nnx_transform(c):
  names, shape = tuple(c['names']), tuple(c['shape'])
  levels = c['levels']

  def create_leaf():
    return nnx.Param(jnp.ones(shape), sharding=names)

  def build(i):
    if i == len(levels):
      return create_leaf
    kind, axis, n, pname = levels[i]
    inner = build(i + 1)
    if kind == 'vmap':
      @nnx.vmap(in_axes=None, out_axes=axis, axis_size=n, transform_metadata={nnx.PARTITION_NAME: pname})
      def f(_=None):
        return inner()
      return lambda: f(None)
    else:
      @nnx.scan(in_axes=(nnx.Carry, 0), out_axes=(nnx.Carry, axis), length=n, transform_metadata={nnx.PARTITION_NAME: pname})
      def f(carry, _):
        return carry, inner()
      return lambda: f(jnp.zeros(()), jnp.zeros((n,)))[1]
  p = build(0)()
  seen = {}

  def use(i, p):
    if i == len(levels):
      seen['inner_sharding'] = list(p.sharding)
      seen['inner_shape'] = list(p.value.shape)
      return p.value.sum()
    kind, axis, n, pname = levels[i]
    if kind == 'vmap':
      g = nnx.vmap(lambda q: use(i + 1, q), in_axes=axis, out_axes=0, transform_metadata={nnx.PARTITION_NAME: pname})
      return g(p).sum()
    else:
      def body(carry, q):
        return carry + use(i + 1, q), None
      g = nnx.scan(body, in_axes=(nnx.Carry, axis), out_axes=(nnx.Carry, 0), transform_metadata={nnx.PARTITION_NAME: pname})
      return g(jnp.zeros(()), p)[0]
  tot = use(0, p)
  spec = nspmd.get_partition_spec(nnx.State({'w': p.to_state()}))['w'].value
  return {'shape': list(p.value.shape), 'names': list(p.sharding), 'out': float(tot), 'inner_sharding': seen.get('inner_sharding'),
          'inner_shape': seen.get('inner_shape'), 'after_use_names': list(p.sharding), 'spec': list(spec)}


def boxed_like_raw(c):
  names, shape = tuple(c['names']), tuple(c['shape'])
  x = jnp.arange(int(np.prod(shape)) or 1, dtype=jnp.float32)[:int(np.prod(shape))].reshape(shape)
  b = meta.Partitioned(x, names)
  o = {}
  o['unbox_identity'] = bool((meta.unbox({'w': b})['w'] == x).all()) and meta.unbox({'w': b})['w'].shape == x.shape
  o['replace_boxed_keeps_names'] = list(meta.replace_boxed({'w': b}, {'w': x + 1})['w'].names) == list(names)

  class M(nn.Module):
    boxed: bool

    @nn.compact
    def __call__(self, y):
      init = nn.initializers.ones
      if self.boxed:
        init = nn.with_partitioning(init, names)
      w = self.param('w', init, shape)
      v = self.variable('state', 'v', lambda: (meta.Partitioned(jnp.zeros(shape), names) if self.boxed else jnp.zeros(shape)))
      v.value = v.value + w * y
      return (w * y).sum() + v.value.sum()
  yb, vb = M(True).init_with_output(jax.random.key(0), 2.0)
  yr, vr = M(False).init_with_output(jax.random.key(0), 2.0)
  o['same_output'] = float(yb) == float(yr)
  o['setter_keeps_box'] = isinstance(vb['state']['v'], meta.Partitioned) and list(vb['state']['v'].names) == list(names)
  o['same_state'] = bool((meta.unbox(vb)['state']['v'] == vr['state']['v']).all())
  yb2, ub = M(True).apply(vb, 3.0, mutable=['state'])
  yr2, ur = M(False).apply(vr, 3.0, mutable=['state'])
  o['apply_same'] = float(yb2) == float(yr2) and bool((meta.unbox(ub)['state']['v'] == ur['state']['v']).all()) and \
      isinstance(ub['state']['v'], meta.Partitioned) and list(ub['state']['v'].names) == list(names)
  sp = nn.get_partition_spec({'w': b, 'raw': x, 'n': 3})
  o['spec'] = {'w': list(sp['w']), 'raw': list(sp['raw']) if sp['raw'] is not None else 'None', 'n': 'None' if sp['n'] is None else repr(sp['n'])}
  # nnx
  pv = nnx.Param(x, sharding=names)
  st = nnx.State({'w': pv.to_state(), 'raw': nnx.VariableState(nnx.Param, x)})
  sp2 = nspmd.get_partition_spec(st)
  o['nnx_spec'] = {'w': list(sp2['w'].value), 'raw': list(sp2['raw'].value)}
  pv.value = x + 1
  o['nnx_setter_keeps_sharding'] = list(pv.sharding) == list(names)
  return o


def mesh_case(c):
  names = tuple(c['names'])
  rules = [(a, (tuple(b) if isinstance(b, list) and len(b) != 1 else (b[0] if isinstance(b, list) else b))) for a, b in c['rules']]
  def go():
    r = lspmd.logical_to_mesh_axes(names, rules)
    return [None if e is None else ([e] if isinstance(e, str) else list(e)) for e in r]
  return safe(go)


def nnx_stateaxes(c):
  """a module with an annotated Param and a BatchStat, created under nnx.vmap(out_axes=StateAxes) and used under nnx.vmap / nnx.scan
  (in_axes=StateAxes) with the filters of the StateAxes in any order: the partition name sits at the stacking axis of the stacked
  Variable only, is gone inside the transform and back afterwards. c: order ('int_first'|'int_last'|'int_middle'), k (axis of the
  Param), other (None|'carry'), annotate_stat, form ('vmap'|'scan'), n"""
  k, n, pname = c['k'], c['n'], 'L'
  snames = lambda v: (list(v.get_metadata()['sharding']) if v.get_metadata().get('sharding') is not None else None)
  base = ('din', 'dout')

  class Block(nnx.Module):
    def __init__(self):
      self.w = nnx.Param(jnp.ones((2, 3)), sharding=base)
      self.s = nnx.BatchStat(jnp.zeros((3,)), sharding=('dout',)) if c['annotate_stat'] else nnx.BatchStat(jnp.zeros((3,)))
      self.t = nnx.Intermediate(jnp.zeros(()))

  def axes_for(other):
    items = {'int_first': [(nnx.Param, k), (nnx.BatchStat, other), (nnx.Intermediate, other)],
             'int_last': [(nnx.BatchStat, other), (nnx.Intermediate, other), (nnx.Param, k)],
             'int_middle': [(nnx.BatchStat, other), (nnx.Param, k), (nnx.Intermediate, other)]}[c['order']]
    return nnx.StateAxes(dict(items))
  out = {}

  @nnx.vmap(in_axes=None, out_axes=axes_for(None), axis_size=n, transform_metadata={nnx.PARTITION_NAME: pname})
  def create(_):
    return Block()
  m = create(None)
  out['created'] = {'w_shape': list(m.w.value.shape), 'w_names': list(m.w.sharding), 's_shape': list(m.s.value.shape),
                    's_names': snames(m.s)}
  seen = {}
  if c['form'] == 'vmap':
    def use(mm, x):
      seen['w'] = (list(mm.w.value.shape), list(mm.w.sharding))
      seen['s'] = (list(mm.s.value.shape), snames(mm.s))
      return mm.w.value.sum() + x
    y = nnx.vmap(use, in_axes=(axes_for(None), 0), out_axes=0, transform_metadata={nnx.PARTITION_NAME: pname})(m, jnp.zeros((n,)))
  else:
    other = nnx.Carry if c['other'] == 'carry' else None

    def body(mm, x):
      seen['w'] = (list(mm.w.value.shape), list(mm.w.sharding))
      seen['s'] = (list(mm.s.value.shape), snames(mm.s))
      return x
    if other is nnx.Carry:
      # the Variables under the Carry filter travel with the module, the second argument is the explicit carry
      f = nnx.scan(body, in_axes=(axes_for(other), nnx.Carry), out_axes=nnx.Carry, length=n, transform_metadata={nnx.PARTITION_NAME: pname})
      f(m, jnp.zeros(()))
    else:
      f = nnx.scan(body, in_axes=(axes_for(other), 0), out_axes=0, transform_metadata={nnx.PARTITION_NAME: pname})
      f(m, jnp.zeros((n,)))
  out['inside'] = seen
  out['after'] = {'w_shape': list(m.w.value.shape), 'w_names': list(m.w.sharding), 's_names': snames(m.s)}
  out['spec'] = list(nspmd.get_partition_spec(nnx.State({'w': m.w.to_state()}))['w'].value)
  return out


def linen_metadata_axis(c):
  """nn.add_metadata_axis against nn.vmap with the same variable_axes and metadata_params, two collections with their own axes"""
  import functools
  variable_axes = {'params': c['p_axis'], 'stats': c['s_axis']}
  metap = {nn.PARTITION_NAME: 'stack'}

  class Inner(nn.Module):
    @nn.compact
    def __call__(self, x):
      kernel = self.param('kernel', nn.with_partitioning(nn.initializers.ones_init(), ('in', 'out')), (2, 4))
      mean = self.variable('stats', 'mean', nn.with_partitioning(lambda: jnp.zeros((4,)), ('feat',)))
      return x @ kernel + mean.value

  def names_tree(v):
    return {'kernel': list(v['params']['inner']['kernel'].names), 'mean': list(v['stats']['inner']['mean'].names)}

  class Stacked(nn.Module):
    @nn.compact
    def __call__(self, x):
      return nn.vmap(Inner, variable_axes=variable_axes, split_rngs={'params': True}, in_axes=0, out_axes=0, metadata_params=metap)(name='inner')(x)

  class MetaOnly(nn.Module):
    @functools.partial(nn.add_metadata_axis, variable_axes=variable_axes, metadata_params=metap)
    @nn.compact
    def __call__(self, x):
      return Inner(name='inner')(x)
  vs = Stacked().init(jax.random.key(0), jnp.ones((3, 5, 2)))
  vs2 = MetaOnly().init(jax.random.key(0), jnp.ones((5, 2)))
  return {'vmap': names_tree(vs), 'meta_only': names_tree(vs2), 'vmap_shapes': {'kernel': list(vs['params']['inner']['kernel'].value.shape), 'mean': list(vs['stats']['inner']['mean'].value.shape)},
          'spec': {kk: list(vv) for kk, vv in names_tree(jax.tree_util.tree_map(lambda x: x, vs2)).items()}}


def main(payload):
  res = {}
  for key, fn in (('stateaxes', nnx_stateaxes), ('metaaxis', linen_metadata_axis)):
    if key in payload:
      res[key] = [safe(lambda c=c: fn(c)) for c in payload[key]]
  for key, fn in (('direct', direct), ('linen', linen_transform), ('nnx', nnx_transform), ('boxed', boxed_like_raw), ('mesh', mesh_case)):
    if key in payload:
      res[key] = []
      for c in payload[key]:
        if key in ('direct', 'mesh'):
          res[key].append(fn(c))
        else:
          res[key].append(safe(lambda c=c: fn(c)))
  return res


if __name__ == '__main__':
  common.worker_main(main)
