"""C14 -- filters: correspondence of Model/Filters.v (+ Model/NnxFilters.v) with flax, Boolean oracles."""
import itertools
import common
from common import cN, cnat, cbool, clist, copt, cpair, capp

PROOF_FILES = ['Proofs/Filters.v', 'Proofs/NnxFilters.v']
ASSUMPTIONS = [
    'collection names are interned as N codes; only equality of names matters to the modelled functions',
    'Python set/list/tuple/frozenset collections of names are modelled as lists compared extensionally',
]
HEADER = 'From Flaxm Require Import Lib.Harness Model.Filters.\n'
OPNAME = {'union': 'OUnion', 'sub': 'OSub', 'inter': 'OInter'}
OPBOOL = {'union': lambda x, y: x or y, 'sub': lambda x, y: x and not y, 'inter': lambda x, y: x and y}


class Names:
  def __init__(self, names):
    self.names = sorted(set(names))
    self.code = {n: i for i, n in enumerate(self.names)}

  def __call__(self, n):
    return cN(self.code[n])


def cfilt(f, nm):
  if 'b' in f:
    return '(FBool %s)' % cbool(f['b'])
  if 'n' in f:
    return '(FName %s)' % nm(f['n'])
  if 's' in f:
    return '(FSet %s)' % clist([nm(x) for x in f['s']])
  if 'd' in f:
    return '(FDeny %s)' % cfilt(f['d'], nm)
  raise ValueError(f)


def depth(f):
  return 1 + depth(f['d']) if 'd' in f else 0


def mentioned(f):
  if 'n' in f:
    return {f['n']}
  if 's' in f:
    return set(f['s'])
  if 'd' in f:
    return mentioned(f['d'])
  return set()


def enum_filters(names, max_depth, kinds=('list',)):
  base = [{'b': True}, {'b': False}] + [{'n': n} for n in names]
  sets = [[]] + [[n] for n in names] + [list(p) for p in itertools.combinations(names, 2)]
  for i, s in enumerate(sets):
    base.append({'s': s, 'kind': kinds[i % len(kinds)]})
  out = list(base)
  layer = base
  for _ in range(max_depth):
    layer = [{'d': f} for f in layer]
    out += layer
  return out


def rand_filter(rng, names, max_depth):
  d = rng.randint(0, max_depth)
  r = rng.random()
  if r < 0.15:
    f = {'b': rng.random() < 0.5}
  elif r < 0.45:
    f = {'n': rng.choice(names)}
  else:
    k = rng.randint(0, min(4, len(names)))
    f = {'s': rng.sample(names, k), 'kind': rng.choice(['list', 'tuple', 'set', 'frozenset'])}
    if rng.random() < 0.2 and f['kind'] in ('list', 'tuple') and f['s']:
      f['s'] = f['s'] + [f['s'][0]]   # duplicates
  for _ in range(d):
    f = {'d': f}
  return f


def skeleton_check():
  # Coq: same Deny-skeleton, sets compared extensionally
  return '''
Fixpoint shape_eq (x y : filt) : bool :=
  match x, y with
  | FBool a, FBool b => Bool.eqb a b
  | FName a, FName b => N.eqb a b
  | FSet a, FSet b => seteqN a b
  | FDeny a, FDeny b => shape_eq a b
  | _, _ => false
  end.
(* case: op, a, b, probes, expected: None = the implementation raised; Some (r, in_r, empty_r); in_a, in_b, empty_a *)
Definition chk (c : op * filt * filt * list N * option (filt * list bool * bool) * list bool * list bool * bool) : bool :=
  let '(o, a, b, ps, e, ia, ib, ea) := c in
  list_beq Bool.eqb (map (in_filter a) ps) ia && list_beq Bool.eqb (map (in_filter b) ps) ib &&
  Bool.eqb (is_empty a) ea &&
  match comb_top o a b, e with
  | Some r, Some (r', ir, er) => shape_eq r r' && list_beq Bool.eqb (map (in_filter r) ps) ir && Bool.eqb (is_empty r) er
  | None, None => true
  | _, _ => false
  end.
Definition chkg (c : list N * list filt * option (list (list N))) : bool :=
  let '(cols, fs, e) := c in
  match e with Some gs => list_beq (list_beq N.eqb) (group cols fs) gs | None => false end.
'''


def run(chk):
  rng = chk.rng
  thorough = chk.tier == 'thorough'
  chk.proofs(PROOF_FILES)
  known = {k['key']: k for k in common.load_known() if k['property'] == 'C14' and k.get('status') == 'known'}

  # ---------------- Linen: exhaustive pairs + random deep pairs ----------------
  names = ['a', 'b', 'c'] + (['d'] if thorough else [])
  unmentioned = 'zz_unmentioned'
  stub = '__flax_internal_stub__'
  probes = names + [unmentioned, stub]
  nm = Names(probes + ['e', 'f'])
  filts = enum_filters(names, 3 if thorough else 2, kinds=('list', 'tuple', 'set', 'frozenset'))
  cases = []
  for a in filts:
    for b in filts:
      for op in ('union', 'sub', 'inter'):
        cases.append({'op': op, 'a': a, 'b': b})
  n_exh = len(cases)
  pool = names + ['e', 'f', stub]
  for _ in range(20000 if thorough else 1500):
    cases.append({'op': rng.choice(['union', 'sub', 'inter']),
                  'a': rand_filter(rng, pool, 6), 'b': rand_filter(rng, pool, 6)})
  # ---------------- group_collections ----------------
  gcases = []
  colpool = ['params', 'batch_stats', 'cache', 'intermediates', 'a', 'b', 'c']
  for _ in range(3000 if thorough else 400):
    cols = rng.sample(colpool, rng.randint(0, 5))
    fs = [rand_filter(rng, colpool, 2) for _ in range(rng.randint(0, 4))]
    gcases.append({'cols': cols, 'filters': fs})
  gnm = Names(colpool)

  chunks = [cases[i::12] for i in range(12)]
  payloads = [{'linen': {'probes': probes, 'cases': ch}} for ch in chunks]
  payloads[0]['groups'] = {'cases': gcases}
  import c14_nnx
  nnx_cases = c14_nnx.generate(chk)
  payloads[1]['nnx'] = nnx_cases
  results = common.run_impl_parallel('impl_c14.py', payloads)
  obs = [None] * len(cases)
  for k, r in enumerate(results):
    for j, o in enumerate(r['linen']):
      obs[k + 12 * j] = o
  gobs = results[0]['groups']

  # ---- direct oracles on the implementation (Boolean algebra; emptiness; partition)
  coq_cases = []
  for i, (c, o) in enumerate(zip(cases, obs)):
    nontriv = depth(c['a']) + depth(c['b']) >= 1 and (mentioned(c['a']) | mentioned(c['b']))
    chk.count(c, nontriv)
    if i % 997 == 0:
      chk.sample({'case': c, 'observed': o})
    if 'err' in o:
      chk.violation('oracle', 'filter operation raised %s' % o['err'], {'case': c, 'observed': o})
      e = 'None'
    else:
      r = o['ok']
      want = [OPBOOL[c['op']](x, y) for x, y in zip(o['in_a'], o['in_b'])]
      if r['in_r'] != want:
        chk.violation('oracle', 'membership of the result is not the Boolean combination of the operands',
                      {'case': c, 'probes': probes, 'observed': o, 'expected_membership': want})
      # emptiness: probes contain every mentioned name (pool subset?) -- only exact when all mentioned names are probed
      if (mentioned(c['a']) | mentioned(c['b'])) <= set(probes):
        if r['empty_r'] != (not any(r['in_r'])):
          chk.violation('oracle', 'is_filter_empty disagrees with membership over all distinguishable names',
                        {'case': c, 'probes': probes, 'observed': o})
      if '?' in str(r['r']):
        e = 'None'
      else:
        e = copt(cpair(cfilt(r['r'], nm), clist([cbool(x) for x in r['in_r']]), cbool(r['empty_r'])))
    coq_cases.append(cpair(OPNAME[c['op']], cfilt(c['a'], nm), cfilt(c['b'], nm), clist([nm(p) for p in probes]), e,
                           clist([cbool(x) for x in o['in_a']]), clist([cbool(x) for x in o['in_b']]), cbool(o['empty_a'])))
  gcoq = []
  for c, o in zip(gcases, gobs):
    chk.count(c, len(c['filters']) >= 2 and len(c['cols']) >= 2)
    if 'err' in o:
      chk.violation('oracle', 'group_collections raised %s' % o['err'], {'case': c})
      gcoq.append(cpair(clist([gnm(x) for x in c['cols']]), clist([cfilt(f, gnm) for f in c['filters']]), 'None'))
      continue
    g = o['ok']
    if g['aliased'] or not g['values_equal'] or g['n'] != len(c['filters']):
      chk.violation('oracle', 'group_collections aliases its input, changes values or returns a wrong number of groups',
                    {'case': c, 'observed': g})
    flat = [x for grp in g['groups'] for x in grp]
    if len(flat) != len(set(flat)):
      chk.violation('oracle', 'a collection appears in two groups', {'case': c, 'observed': g})
    gcoq.append(cpair(clist([gnm(x) for x in c['cols']]), clist([cfilt(f, gnm) for f in c['filters']]),
                      copt(clist([clist([gnm(x) for x in grp]) for grp in g['groups']]))))
  chk.sample({'group_case': gcases[0], 'observed': gobs[0]})

  hdr = HEADER + skeleton_check()
  bad = common.coq_mismatches('c14_linen', hdr, coq_cases, 'chk', shard=600)
  for i in bad[:10]:
    shown = common.coq_show('c14_show', hdr, 'comb_top %s %s %s' % (OPNAME[cases[i]['op']], cfilt(cases[i]['a'], nm), cfilt(cases[i]['b'], nm)))
    chk.violation('correspondence', 'Model/Filters.v and flax.core.scope disagree (theorems C14_comb_sound/C14_empty_iff no longer transfer)',
                  {'case': cases[i], 'observed': obs[i], 'model': shown, 'name_codes': nm.code})
  badg = common.coq_mismatches('c14_group', hdr, gcoq, 'chkg', shard=600)
  for i in badg[:10]:
    chk.violation('correspondence', 'Model group and flax group_collections disagree (C14_group_partition)',
                  {'case': gcases[i], 'observed': gobs[i]})
  chk.cov['traces_validated_against_impl'] = len(coq_cases) + len(gcoq)
  chk.notes['linen_exhaustive_pairs'] = n_exh
  chk.notes['linen_filters_enumerated'] = len(filts)
  chk.cov['exhaustive'] = False
  chk.cov['rule'] = ('Linen: all ordered pairs of the %d filters of DenyList depth <= %d over names %s (sets as list/tuple/set/frozenset) x 3 '
                     'operations, enumerated completely, plus random pairs to depth 6; probes = all mentioned names + one unmentioned + the stub; '
                     'group_collections on random (cols, filter list); NNX: see notes. non-trivial = at least one DenyList and one mentioned '
                     'name (Linen) / >=2 filters and >=2 collections (groups) / composite filter (NNX); distinct by canonical JSON hash'
                     % (len(filts), 3 if thorough else 2, names))
  c14_nnx.check(chk, nnx_cases, results[1]['nnx'])
  chk.cov['trusted_base'] = ['Coq 8.16.1 kernel + vm_compute (cases evaluation)', 'harness/c14.py, c14_nnx.py, impl_c14*.py generators/canonicalisers',
                             'harness/jaxcompat.py', 'name interning (order-irrelevant: only equality is used)']
