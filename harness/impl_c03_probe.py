import impl_graph as IG
import common
import jax.numpy as jnp
from flax import nnx


def main(_):
  out = {}
  m = IG.Box()
  m.a = [nnx.Param(jnp.asarray(1))]
  m.b = m.a
  m2 = nnx.merge(*nnx.split(m))
  out['F9-shared-container'] = {'fails': (m.a is m.b) and not (m2.a is m2.b)}
  m = IG.Box()
  m.a = nnx.Param(jnp.asarray(1))
  m.b = m.a
  nnx.pop(m, nnx.Param)
  out['F19-pop-leaves-aliases'] = {'fails': len(nnx.to_flat_state(nnx.state(m, nnx.Param))) > 0}
  return out


if __name__ == '__main__':
  common.worker_main(main)
