"""C16 -- flatten/unflatten, path_aware_map, NNX State conversions and set laws."""
import common
from common import cN, cnat, cbool, clist, copt, cpair

PROOF_FILES = ['Proofs/Flatten.v', 'Proofs/FlattenInv.v']
ASSUMPTIONS = [
    'keys are modelled as UTF-8 byte strings; Python dicts as insertion-ordered association lists with pairwise different sibling keys',
    'State equality is order-insensitive mapping equality; flat states are compared as finite maps (lookup-equivalence)',
    'not proved (correspondence only): the sortedness of to_flat_state and the pure-dict conversions',
]
KEYS = ['a', 'b', '0', '12', 'ab', 'a_b', 'kernel', 'bias', '', 'é', 'x0', 'params', 'A', '日本']
SEPS = ['/', '.', '|', ':']
HEADER = 'From Flaxm Require Import Lib.Harness Model.Flatten.\n'


def ckey(s):
  return clist([cN(b) for b in s.encode('utf-8')])


def cpath(p):
  return clist([ckey(k) for k in p])


def ctree(t):
  if isinstance(t, int):
    return '(Leaf %s)' % cN(t)
  return '(Node %s)' % clist([cpair(ckey(k), ctree(v)) for k, v in t['k']])


def cfval(v):
  if v == 'EMPTY':
    return 'VEmpty'
  if isinstance(v, dict):
    return '(VTree %s)' % ctree(v['dict'])
  return '(VTree (Leaf %s))' % cN(v)


def clp(lp):
  if lp is None:
    return 'LPNone'
  if lp[0] == 'depth':
    return '(LPDepth %s)' % cnat(lp[1])
  if lp[0] == 'lastkey':
    return '(LPLastKey %s)' % ckey(lp[1])
  if lp[0] == 'haskey':
    return '(LPHasKey %s)' % ckey(lp[1])
  return 'LPAll'


class Gen:
  def __init__(self, rng, keys):
    self.rng, self.keys, self.n = rng, keys, 0

  def tree(self, depth, root=True):
    rng = self.rng
    if not root and (depth <= 0 or rng.random() < 0.35):
      self.n += 1
      return self.n
    n = rng.choice([0, 1, 1, 2, 2, 3, 4]) if not root else rng.choice([0, 1, 2, 3, 4])
    ks = rng.sample(self.keys, min(n, len(self.keys)))
    return {'k': [[k, self.tree(depth - 1, False)] for k in ks]}


def py_prune(t, il, path=()):
  """Independent oracle: what a round trip without keep_empty_nodes must return."""
  if isinstance(t, int):
    return t
  if il is not None and il(path, t):
    return t
  kids = []
  for k, v in t['k']:
    if py_has_leaf(v, il, path + (k,)):
      kids.append([k, py_prune(v, il, path + (k,))])
  return {'k': kids}


def py_has_leaf(t, il, path):
  if isinstance(t, int):
    return True
  if il is not None and il(path, t):
    return True
  return any(py_has_leaf(v, il, path + (k,)) for k, v in t['k'])


def py_il(lp):
  if lp is None:
    return None
  if lp[0] == 'depth':
    return lambda p, t: len(p) >= lp[1]
  if lp[0] == 'lastkey':
    return lambda p, t: len(p) > 0 and p[-1] == lp[1]
  if lp[0] == 'haskey':
    return lambda p, t: any(k == lp[1] for k, _ in t['k'])
  return lambda p, t: True


def as_set(t):
  """order-insensitive canonical form"""
  if isinstance(t, int):
    return t
  return {'k': sorted([[k, as_set(v)] for k, v in t['k']], key=lambda kv: kv[0])}


def leaves_with_paths(t, path=()):
  if isinstance(t, int):
    return [[list(path), t]]
  out = []
  for k, v in t['k']:
    out += leaves_with_paths(v, path + (k,))
  return out


def all_keys(t):
  if isinstance(t, int):
    return set()
  s = set()
  for k, v in t['k']:
    s.add(k)
    s |= all_keys(v)
  return s


def run(chk):
  rng = chk.rng
  thorough = chk.tier == 'thorough'
  chk.proofs(PROOF_FILES)
  known = {k['key'] for k in common.load_known() if k['property'] == 'C16' and k.get('status') == 'known'}
  n = 12000 if thorough else 1200
  cases = []
  for i in range(n):
    g = Gen(rng, KEYS)
    t = g.tree(rng.randint(1, 5 if thorough else 4))
    keys = all_keys(t)
    sep = None
    if rng.random() < 0.4:
      cands = [s for s in SEPS if not any(s in k for k in keys)]
      sep = rng.choice(cands)
    r = rng.random()
    lp = None
    if r < 0.15:
      lp = ['depth', rng.randint(1, 3)]      # depth 0 = the root: F10 region, probed separately
    elif r < 0.25:
      lp = ['lastkey', rng.choice(KEYS)]
    elif r < 0.35:
      lp = ['haskey', rng.choice(KEYS)]
    il = py_il(lp)
    if il is not None and il((), t):
      lp = None
    cases.append({'tree': t, 'keep': rng.random() < 0.5, 'sep': sep, 'is_leaf': lp,
                  'container': rng.choice(['dict', 'dict', 'frozen'])})
  # states
  scases = []
  for i in range(4000 if thorough else 500):
    k = rng.randint(1, 4)
    states = []
    for _ in range(k):
      g = Gen(rng, [x for x in KEYS if x not in ('',)] + ['layers', 'w'])
      t = g.tree(rng.randint(1, 3))
      states.append(leaves_with_paths(t))
    # make states overlap: copy some paths of state 0 into others with new ids; drop entries that would put
    # a leaf and a sub-state at one path (not a State)
    for s in states[1:]:
      for p, v in states[0]:
        if rng.random() < 0.3 and not any(q[:len(p)] == p or p[:len(q)] == q for q, _ in s):
          s.append([p, v + 100])
    def consistent(ss):
      allp = [tuple(p) for s in ss for p, _ in s]
      for a in allp:
        for b in allp:
          if a != b and b[:len(a)] == a:
            return False
      return True
    diff_pair = None
    if not consistent(states):
      # a path is a leaf in one state and a sub-state in another: not mergeable, but a - b is still defined on leaf paths
      if len(states) >= 2 and consistent(states[:1]) and consistent(states[1:2]):
        diff_pair = [states[0], states[1]]
      states = states[:1]
    groups = []
    if states[0]:
      paths = [p for p, _ in states[0]]
      rng.shuffle(paths)
      cut = sorted(rng.sample(range(len(paths) + 1), min(2, len(paths) + 1)))
      groups = [paths[:cut[0]], paths[cut[0]:cut[-1]]]
    scases.append({'states': states, 'groups': groups, 'diff_pair': diff_pair})

  # flat dicts first (the other direction of "mutual inverses"): prefix-free non-empty paths in arbitrary insertion
  # order, values a leaf or the empty-node sentinel
  fcases = []
  for i in range(6000 if thorough else 600):
    paths = []
    for _ in range(rng.randint(0, 7)):
      p = [rng.choice(KEYS) for _ in range(rng.randint(1, 4))]
      if rng.random() < 0.5 and paths:      # share a proper prefix with an earlier path
        q = rng.choice(paths)
        cut = rng.randint(0, len(q) - 1)
        p = q[:cut] + p[:rng.randint(1, len(p))]
      if not any(q[:len(p)] == p or p[:len(q)] == q for q in paths):
        paths.append(p)
    keys = {k for p in paths for k in p}
    sep = None
    if rng.random() < 0.3:
      cands = [s for s in SEPS if not any(s in k for k in keys)]
      sep = rng.choice(cands)
      # joined keys must stay distinct and splittable: no empty key next to a separator ambiguity is possible here
      # because the separators never occur in KEYS
    fcases.append({'flat': [[p, ('EMPTY' if rng.random() < 0.2 else j + 1)] for j, p in enumerate(paths)], 'sep': sep})

  W = 8
  payloads = [{'dicts': cases[i::W]} for i in range(W)]
  payloads[0]['states'] = scases
  payloads[1]['flats'] = fcases
  results = common.run_impl_parallel('impl_c16.py', payloads, workers=W)
  obs = [None] * len(cases)
  for k, r in enumerate(results):
    for j, o in enumerate(r['dicts']):
      obs[k + W * j] = o
  sobs = results[0]['states']

  coq = []
  for i, (c, o) in enumerate(zip(cases, obs)):
    t = c['tree']
    nontriv = len(leaves_with_paths(t)) >= 2 and (c['sep'] is not None or c['is_leaf'] is not None or 'k' in t and any(v == {'k': []} for _, v in t['k']))
    chk.count(c, nontriv)
    if i % 400 == 0:
      chk.sample({'case': c, 'observed': o['traverse_util']})
    il = py_il(c['is_leaf'])
    if not o['input_unchanged']:
      chk.violation('oracle', 'flatten/unflatten/path_aware_map modified their input', {'case': c})
    expect_rt = t if c['keep'] else py_prune(t, il)
    for api in ('traverse_util', 'nnx'):
      r = o[api]
      if 'err' in r:
        chk.violation('oracle', '%s flatten/unflatten raised %s on a well-formed nested dict' % (api, r['err']), {'case': c})
        continue
      r = r['ok']
      if r['roundtrip'] != expect_rt:
        chk.violation('oracle', '%s: unflatten(flatten(x)) is not x%s' % (api, '' if c['keep'] else ' minus its leafless sub-dicts'),
                      {'case': c, 'observed_roundtrip': r['roundtrip'], 'expected': expect_rt})
      if not r['rt_is_dict']:
        chk.violation('oracle', '%s: unflatten did not return a plain dict' % api, {'case': c})
    if 'ok' in o['traverse_util'] and 'ok' in o['nnx'] and o['traverse_util']['ok'] != o['nnx']['ok']:
      chk.violation('oracle', 'flatten_dict/unflatten_dict and flatten_mapping/unflatten_mapping differ', {'case': c, 'observed': o})
    if 'seq' in o:
      s = o['seq'].get('ok')
      want = [[p, v] for p, v in leaves_with_paths(t)] if s is not None else None
      got = [[p, v] for p, v in (s or []) if not isinstance(v, dict)]
      if s is None or got != want:
        chk.violation('oracle', 'flatten_to_sequence does not list every leaf once in traversal order', {'case': c, 'observed': o['seq']})
    # path_aware_map: each leaf once, full path; structure kept (empty sub-dicts included)
    want_vis = leaves_with_paths(t)
    if o['pam_visits'] != want_vis:
      chk.violation('oracle', 'path_aware_map did not visit every leaf exactly once with its full path', {'case': c, 'visits': o['pam_visits']})
    def mapped(t, d=0):
      if isinstance(t, int):
        return t * 1000 + d
      return {'k': [[k, mapped(v, d + 1)] for k, v in t['k']]}
    if o['pam'].get('ok') != mapped(t):
      chk.violation('oracle', 'path_aware_map changed the structure or mis-assigned values', {'case': c, 'observed': o['pam']})
    # ---- correspondence with Model/Flatten.v
    r = o['traverse_util'].get('ok')
    if r is None:
      continue
    if c['sep'] is None:
      flat = clist([cpair(cpath(p), cfval(v)) for p, v in r['flat']])
      term = '(CTup %s %s %s %s %s)' % (ctree(t), cbool(c['keep']), clp(c['is_leaf']), flat, ctree(r['roundtrip']))
    else:
      flat = clist([cpair(ckey(p), cfval(v)) for p, v in r['flat']])
      term = '(CSep %s %s %s %s %s %s)' % (ctree(t), cbool(c['keep']), clp(c['is_leaf']), ckey(c['sep']), flat, ctree(r['roundtrip']))
    coq.append((i, term))
  hdr = HEADER + '''
Inductive case :=
| CTup (t : tree) (keep : bool) (lp : leafpred) (flat : list (path * fval)) (rt : tree)
| CSep (t : tree) (keep : bool) (lp : leafpred) (sep : key) (flat : list (key * fval)) (rt : tree).
Definition chk (c : case) : bool :=
  match c with
  | CTup t keep lp fl rt =>
      list_beq (pair_beq path_eqb fval_beq) (flatten keep (run_lp lp) t) fl &&
      option_beq tree_beq (unflatten fl) (Some rt)
  | CSep t keep lp sep fl rt =>
      list_beq (pair_beq key_eqb fval_beq) (flatten_sep sep keep (run_lp lp) t) fl &&
      option_beq tree_beq (unflatten_sep sep fl) (Some rt)
  end.
'''
  bad = common.coq_mismatches('c16_dict', hdr, [x[1] for x in coq], 'chk', shard=400)
  for j in bad[:10]:
    i = coq[j][0]
    chk.violation('correspondence', 'Model/Flatten.v and flax flatten_dict/unflatten_dict disagree (C16_unflatten_flatten* no longer transfer)',
                  {'case': cases[i], 'observed': obs[i]['traverse_util']})
  chk.cov['traces_validated_against_impl'] = len(coq)

  # ---------------- flat dicts first ----------------
  fobs = results[1]['flats']
  fcoq = []
  for i, (c, o) in enumerate(zip(fcases, fobs)):
    chk.count({'flat_first': c}, len(c['flat']) >= 2)
    if i % 300 == 0:
      chk.sample({'case': c, 'observed': o['traverse_util']})
    want = sorted(([p if c['sep'] is None else c['sep'].join(p), v] for p, v in c['flat']), key=repr)
    want_ne = [e for e in want if e[1] != 'EMPTY']
    for api in ('traverse_util', 'nnx'):
      r = o[api]
      if 'err' in r:
        chk.violation('oracle', '%s: unflatten / flatten raised %s on a prefix-free flat dict' % (api, r['err']), {'case': c})
        continue
      r = r['ok']
      if sorted(r['back'], key=repr) != want:
        chk.violation('oracle', '%s: flatten(unflatten(f), keep_empty_nodes=True) is not f (as a mapping)' % api,
                      {'case': c, 'observed': r})
      if sorted(r['back_noempty'], key=repr) != want_ne:
        chk.violation('oracle', '%s: flatten(unflatten(f)) is not f minus its empty-node entries' % api, {'case': c, 'observed': r})
    if 'ok' in o['traverse_util'] and 'ok' in o['nnx'] and o['traverse_util']['ok'] != o['nnx']['ok']:
      chk.violation('oracle', 'unflatten_dict/flatten_dict and unflatten_mapping/flatten_mapping differ on a flat dict', {'case': c, 'observed': o})
    r = o['traverse_util'].get('ok')
    if r is None:
      continue
    if c['sep'] is None:
      term = '(FTup %s %s %s)' % (clist([cpair(cpath(p), cfval(v)) for p, v in c['flat']]), ctree(r['tree']),
                                  clist([cpair(cpath(p), cfval(v)) for p, v in r['back']]))
    else:
      term = '(FSep %s %s %s %s)' % (ckey(c['sep']), clist([cpair(ckey(c['sep'].join(p)), cfval(v)) for p, v in c['flat']]), ctree(r['tree']),
                                     clist([cpair(ckey(k), cfval(v)) for k, v in r['back']]))
    fcoq.append((i, term))
  fhdr = HEADER + '''From Flaxm Require Import Proofs.FlattenInv.
Inductive case :=
| FTup (fl : list (path * fval)) (t : tree) (back : list (path * fval))
| FSep (sep : key) (fl : list (key * fval)) (t : tree) (back : list (key * fval)).
Definition chk (c : case) : bool :=
  match c with
  | FTup fl t back =>
      pfreeb fl && option_beq tree_beq (unflatten fl) (Some t) &&
      list_beq (pair_beq path_eqb fval_beq) (flatten true no_leaf t) back
  | FSep sep fl t back =>
      option_beq tree_beq (unflatten_sep sep fl) (Some t) &&
      list_beq (pair_beq key_eqb fval_beq) (flatten_sep sep true no_leaf t) back
  end.
'''
  bad = common.coq_mismatches('c16_flat', fhdr, [x[1] for x in fcoq], 'chk', shard=400)
  for j in bad[:10]:
    i = fcoq[j][0]
    chk.violation('correspondence', 'Model/Flatten.v and flax unflatten_dict / flatten_dict disagree on a flat dict (C16_flatten_unflatten no longer transfers)',
                  {'case': fcases[i], 'observed': fobs[i]['traverse_util']})
  chk.cov['traces_validated_against_impl'] += len(fcoq)

  # ---------------- states ----------------
  scoq = []
  def cflat(f):
    return clist([cpair(cpath(p), cN(v)) for p, v in f])
  for i, (c, o) in enumerate(zip(scases, sobs)):
    ss = c['states']
    chk.count({'state': c}, len(ss) >= 2 and any(tuple(p) in {tuple(q) for q, _ in ss[0]} for s in ss[1:] for p, _ in s))
    if i == 0:
      chk.sample({'state_case': c, 'observed': o})
    for k in ('flat0', 'from_to', 'flat_sorted', 'merge', 'State.merge', 'pure'):
      if 'err' in o[k]:
        chk.violation('oracle', 'State operation %s raised %s' % (k, o[k]['err']), {'case': c})
    if o['from_to'].get('ok') is False:
      chk.violation('oracle', 'from_flat_state(to_flat_state(s)) != s', {'case': c})
    if o['flat_sorted'].get('ok') is False:
      chk.violation('oracle', 'to_flat_state is not sorted by path', {'case': c})
    if 'ok' in o['flat0'] and sorted(map(str, o['flat0']['ok'])) != sorted(map(str, ss[0])):
      chk.violation('oracle', 'to_flat_state lost, duplicated or changed entries', {'case': c, 'observed': o['flat0']})
    # merge: later wins (python oracle)
    want = {}
    for s in ss:
      for p, v in s:
        want[tuple(p)] = v
    for k in ('merge', 'State.merge') + (('or',) if len(ss) == 2 else ()):
      if k in o and 'ok' in o[k]:
        got = {tuple(p): v for p, v in o[k]['ok']}
        if got != want:
          chk.violation('oracle', '%s: result is not the union with later states winning' % k, {'case': c, 'observed': o[k]['ok']})
    if len(ss) >= 2:
      bpaths = {tuple(p) for p, _ in ss[1]}
      wantd = {tuple(p): v for p, v in ss[0] if tuple(p) not in bpaths}
      for k in ('diff', 'sub'):
        if 'err' in o[k]:
          chk.violation('oracle', 'a - b raised %s' % o[k]['err'], {'case': c})
        elif {tuple(p): v for p, v in o[k]['ok']} != wantd:
          chk.violation('oracle', 'a - b does not keep exactly the paths of a absent from b', {'case': c, 'observed': o[k]['ok']})
    if c.get('diff_pair') and 'diff_pair' in o:
      a, b = c['diff_pair']
      bp = {tuple(p) for p, _ in b}
      want_ab = {tuple(p): v for p, v in a if tuple(p) not in bp}
      for k in ('diff', 'sub'):
        g = o['diff_pair'][k]
        if 'err' in g:
          chk.violation('oracle', 'a - b raised %s for states in which a path is a leaf on one side and a sub-state on the other' % g['err'], {'a': a, 'b': b})
        elif {tuple(p): v for p, v in g['ok']} != want_ab:
          chk.violation('oracle', 'a - b does not keep exactly the leaf paths of a that are absent from b (a path is a leaf on one side and a sub-state on the other)',
                        {'a': a, 'b': b, 'observed': g['ok']})
    if 'ok' in o['pure']:
      pr = o['pure']['ok']
      if not pr['equal'] or sorted(map(str, pr['restored'])) != sorted(map(str, ss[0])):
        chk.violation('oracle', 'to_pure_dict / replace_by_pure_dict is not lossless', {'case': c, 'observed': pr})
      if pr.get('partial_ok') is False:
        chk.violation('oracle', 'replace_by_pure_dict with a pure dict naming only some leaves did not replace exactly those leaves (others lost or changed)', {'case': c})
    if 'split_merge' in o:
      sm = o['split_merge']
      if 'err' in sm:
        chk.violation('oracle', 'split/merge raised %s' % sm['err'], {'case': c})
      else:
        sm = sm['ok']
        if not sm['back_equal'] or not sm['perm_equal']:
          chk.violation('oracle', 'merge_state(split(s)) != s', {'case': c, 'observed': sm})
        allp = [tuple(p) for part in sm['parts'] for p, _ in part]
        if sorted(allp) != sorted(tuple(p) for p, _ in ss[0]):
          chk.violation('oracle', 'split lost or duplicated a path', {'case': c, 'observed': sm})
    if 'ok' in o['merge']:
      d = o['diff']['ok'] if len(ss) >= 2 and 'ok' in o['diff'] else None
      scoq.append((i, cpair(clist([cflat(s) for s in ss]), cflat(o['merge']['ok']), copt(None if d is None else cflat(d)))))
  shdr = HEADER + '''
Definition flat_equiv (a b : flat) : bool :=
  Nat.eqb (length a) (length b) && forallb (fun pv => option_beq N.eqb (flookup (fst pv) b) (Some (snd pv))) a.
Definition chk (c : list flat * flat * option flat) : bool :=
  let '(ss, m, d) := c in
  flat_equiv (merge_flat ss) m &&
  match d, ss with
  | Some d', a :: b :: _ => flat_equiv (diff_flat a b) d'
  | _, _ => true
  end.
'''
  bad = common.coq_mismatches('c16_state', shdr, [x[1] for x in scoq], 'chk', shard=400)
  for j in bad[:10]:
    i = scoq[j][0]
    chk.violation('correspondence', 'Model merge_flat/diff_flat and nnx merge_state/diff disagree (C16_merge_*, C16_diff_exact)',
                  {'case': scases[i], 'observed': sobs[i]})
  chk.cov['traces_validated_against_impl'] += len(scoq)
  probe_known(chk, known)
  chk.cov['rule'] = ('random nested dicts (depth<=%d, keys incl. empty/unicode/shared prefixes, empty sub-dicts) x keep_empty_nodes x sep(None or a '
                     'single char not in keys) x is_leaf(depth/last key/has key, never true at the root) x dict/FrozenDict, through traverse_util and '
                     'nnx.traversals; random 1-4 overlapping States for merge/diff/|/-, pure-dict and split+merge round trips. non-trivial = >=2 leaves and '
                     '(separator or is_leaf or an empty sub-dict) / overlapping states; distinct by canonical JSON hash' % (5 if thorough else 4))
  chk.cov['trusted_base'] = ['Coq 8.16.1 kernel + vm_compute', 'harness/c16.py + impl_c16.py (generators, encoders, Python oracles)', 'harness/jaxcompat.py']


def probe_known(chk, known):
  """Replay the listed witnesses (F10, F13) on the implementation."""
  res = common.run_impl('impl_c16_probe.py', {})
  if res['opaque_mapping_leaves']['fails']:
    chk.violation('oracle', 'flatten_dict / unflatten_dict / path_aware_map do not treat a Mapping that is neither a dict nor a FrozenDict as a leaf (it is descended into, copied or visited entry by entry)',
                  res['opaque_mapping_leaves'])
  for key, what in (('F10-root-is-leaf', 'flatten_dict(is_leaf true at the root) gives key () which unflatten_dict cannot restore (IndexError)'),
                    ('F13-multichar-sep', "flatten_dict({'a/': {'b': 1}}, sep='//') does not round-trip (multi-character separator)")):
    if res[key]['fails']:
      if key in known:
        chk.known(key, what)
      else:
        chk.violation('oracle', what, res[key])
