import jaxcompat  # noqa: F401
import common
import jax
import numpy as np
import flax
from flax.core import scope as S


def main(_):
  flax.config.update('flax_fix_rng_separator', True)
  try:
    k = jax.random.key(0)
    a = S._fold_in_static(k, ('x', 0x610001))
    b = S._fold_in_static(k, ('x', 'a', 1))
    same = bool((np.asarray(jax.random.key_data(a)) == np.asarray(jax.random.key_data(b))).all())
  except Exception as e:  # pylint: disable=broad-except
    same = False
  finally:
    flax.config.update('flax_fix_rng_separator', False)
  return {'F8': {'collides': same}}


if __name__ == '__main__':
  common.worker_main(main)
