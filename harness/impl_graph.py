"""Builds real NNX object graphs from descriptions and reads back canonical forms (used by C03/C04/C08/C18)."""
import jaxcompat  # noqa: F401
import warnings
warnings.filterwarnings('ignore')
import jax
import jax.numpy as jnp
import numpy as np
from flax import nnx
from flax.nnx import graph as G
from flax.nnx import filterlib


class Box(nnx.Module):
  pass


class Box2(nnx.Module):
  pass


class Custom(nnx.Param):
  pass


import typing as _tp


class NT(_tp.NamedTuple):
  """a generic JAX pytree node whose fields are not declared in alphabetical order"""
  x: _tp.Any
  w: _tp.Any
  a: _tp.Any


NODE_TYPES = {'Box': Box, 'Box2': Box2}
VAR_TYPES = {'Param': nnx.Param, 'BatchStat': nnx.BatchStat, 'Cache': nnx.Cache, 'Intermediate': nnx.Intermediate, 'Custom': Custom}
METAS = [{}, {'tag': 't1'}, {'tag': 't2'}, {'sharding': ('a',)}]


def build(desc):
  objs = []
  for o in desc['objs']:
    if o['kind'] == 'node':
      objs.append(NODE_TYPES[o['ty']]())
    else:
      objs.append(VAR_TYPES[o['vty']](jnp.asarray(o['payload'], dtype=jnp.int64), **METAS[o['meta']]))

  def val(v):
    k = v[0]
    if k == 'ref':
      return objs[v[1]]
    if k == 'static':
      return v[1]
    if k == 'arr':
      return np.array(v[1], dtype=np.int64)
    items = [(kk, val(x)) for kk, x in v[2]]
    if v[1] == 'list':
      return [x for _, x in items]
    if v[1] == 'tuple':
      return tuple(x for _, x in items)
    if v[1] == 'nt':
      return NT(**dict(items))
    return {kk: x for kk, x in items}
  for o, obj in zip(desc['objs'], objs):
    if o['kind'] == 'node':
      for k, v in o['attrs']:
        setattr(obj, k, val(v))
  return objs, val(desc['root'])


def type_name(t):
  for n, c in list(NODE_TYPES.items()) + list(VAR_TYPES.items()):
    if t is c:
      return n
  if t is list:
    return 'list'
  if t is tuple:
    return 'tuple'
  if t is dict:
    return 'dict'
  if t is NT or t is G.GenericPytree:
    return 'nt'
  return t.__name__


def meta_code(md):
  d = {k: v for k, v in dict(md).items() if not k.startswith('on_') and k not in ('get_value_hooks', 'set_value_hooks', 'create_value_hooks', 'add_axis_hooks', 'remove_axis_hooks')}
  for i, m in enumerate(METAS):
    if d == m:
      return i
  return 99


def enc_graphdef(g):
  if isinstance(g, G.NodeRef):
    return ['ref', g.index]
  if isinstance(g, G.VariableDef):
    return ['var', type_name(g.type), g.index, meta_code(g.metadata)]
  attrs = []
  for k, v in g.attributes:
    if k == '_object__state':
      continue
    if isinstance(v, G.Static):
      attrs.append([k, ['static', v.value]])
    elif isinstance(v, G.ArrayAttr):
      attrs.append([k, ['arr']])
    else:
      attrs.append([k, ['sub', enc_graphdef(v)]])
  tn = type_name(g.type)
  if tn in ('list', 'tuple', 'dict', 'nt'):
    return ['tree', tn, attrs]
  return ['node', tn, g.index, attrs]


def enc_leaf(v):
  if isinstance(v, (nnx.VariableState, nnx.Variable)):
    return ['var', type_name(v.type), int(np.asarray(v.value)), meta_code(v.get_metadata())]
  return ['arr', int(np.asarray(v).reshape(-1)[0])]


def enc_flat(state):
  flat = nnx.to_flat_state(state) if isinstance(state, nnx.State) else state
  return [[list(p), enc_leaf(v)] for p, v in flat]


def canon(root):
  """Independent DFS canonical form of a real graph: reference objects numbered in visit order."""
  ids = {}

  def go(x):
    if isinstance(x, nnx.Variable):
      if id(x) in ids:
        return ['ref', ids[id(x)]]
      ids[id(x)] = len(ids)
      return ['var', type_name(type(x)), ids[id(x)], int(np.asarray(x.value)) % 2**64, meta_code(x.get_metadata())]
    if isinstance(x, nnx.Object):
      if id(x) in ids:
        return ['ref', ids[id(x)]]
      i = ids[id(x)] = len(ids)
      return ['node', type_name(type(x)), i, [[k, go(v)] for k, v in sorted(vars(x).items()) if k != '_object__state']]
    if isinstance(x, NT):
      return ['tree', 'nt', [[k, go(v)] for k, v in sorted(x._asdict().items())]]
    if isinstance(x, (list, tuple)):
      return ['tree', 'list' if isinstance(x, list) else 'tuple', [[i, go(v)] for i, v in enumerate(x)]]
    if isinstance(x, dict):
      return ['tree', 'dict', [[k, go(v)] for k, v in sorted(x.items())]]
    if isinstance(x, (np.ndarray, jax.Array)):
      return ['arr', int(np.asarray(x).reshape(-1)[0])]
    if isinstance(x, nnx.VariableState):
      return ['varstate', type_name(x.type), int(np.asarray(x.value))]
    return ['static', x]
  return go(root)


def obj_ids(root):
  """ids of all reference objects reachable"""
  seen = {}

  def go(x):
    if isinstance(x, (nnx.Variable, nnx.Object)):
      if id(x) in seen:
        return
      seen[id(x)] = x
      if isinstance(x, nnx.Object):
        for k, v in vars(x).items():
          if k != '_object__state':
            go(v)
    elif isinstance(x, NT):
      for _, v in sorted(x._asdict().items()):
        go(v)
    elif isinstance(x, (list, tuple)):
      for v in x:
        go(v)
    elif isinstance(x, dict):
      for v in x.values():
        go(v)
  go(root)
  return seen


def dec_filter(f):
  import impl_c14_nnx
  impl_c14_nnx.TYPES.update({'Param': nnx.Param, 'BatchStat': nnx.BatchStat, 'Cache': nnx.Cache, 'Intermediate': nnx.Intermediate,
                             'Custom': Custom, 'Variable': nnx.Variable})
  return impl_c14_nnx.dec(f)
