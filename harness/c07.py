"""C07 -- Lifted vjp/jvp/grad/custom_vjp equal JAX autodiff of the pure apply function."""
import common
import linen_prog as LP
import c08 as C8
from common import cN, cZ, cnat, cbool, clist, copt, cpair

PROOF_FILES = ['Proofs/LiftGrad.v', 'Proofs/NnxLift.v']
ASSUMPTIONS = [
    'jax.vjp / jvp / grad of a polynomial are its symbolic partial derivatives (idealised; values are exact integers in float64)',
    'the differentiated module evaluates a random polynomial of degree <= 4 in its scalar variables (collections params / batch_stats / cache / counter) and 1-3 scalar inputs, after incrementing '
    'the variables of the mutable collection counter (forward-pass side effect)',
    'nn.custom_vjp: the backward rule multiplies variable cotangents by 3 and input cotangents by 2; collections outside grad_vars are held constant when differentiating through it',
]
HEADER = 'From Flaxm Require Import Lib.Harness Model.Filters Model.NnxFilters Model.NnxLift Model.LiftGrad.\nOpen Scope Z_scope.\n'
COLS = ['params', 'params', 'batch_stats', 'cache', 'counter']


def gen_poly(rng, n, depth=0):
  r = rng.random()
  if r < 0.15 or depth > 3:
    return ['const', rng.randint(-2, 3)]
  if r < 0.55:
    return ['var', rng.randrange(n)]
  return [rng.choice(['add', 'mul', 'mul']), gen_poly(rng, n, depth + 1), gen_poly(rng, n, depth + 1)]


def tangents(rng, vars_):
  # variable_tangents holds whole collections: every variable of a chosen collection gets a tangent
  cols = sorted({v['col'] for v in vars_})
  chosen = [c for c in cols if rng.random() < 0.5]
  return [[j, rng.randint(-2, 3)] for j, v in enumerate(vars_) if v['col'] in chosen]


def cpoly(e):
  k = e[0]
  if k == 'const':
    return '(GConst %s)' % cZ(e[1])
  if k == 'var':
    return '(GVar %s)' % cnat(e[1])
  return '(%s %s %s)' % ('GAdd' if k == 'add' else 'GMul', cpoly(e[1]), cpoly(e[2]))


def gen_filter(rng):
  r = rng.random()
  if r < 0.3:
    return 'params'
  if r < 0.5:
    return True
  if r < 0.75:
    return sorted(rng.sample(['params', 'batch_stats', 'cache', 'counter'], rng.randint(1, 3)))
  if r < 0.9:
    return {'deny': rng.choice(['params', 'counter', ['batch_stats', 'cache']])}
  return False


def cdfun(d):
  return '(mkD %s %s %s %s)' % (clist([cN(LP.COLCODE[v['col']]) for v in d['vars']]), clist([cZ(v['val']) for v in d['vars']] + [cZ(x) for x in d['xs']]),
                                cpoly(d['poly']), clist([cnat(i) for i in d['bumps']]))


def run(chk):
  rng = chk.rng
  thorough = chk.tier == 'thorough'
  chk.proofs(PROOF_FILES)
  cases = []
  kinds = ['vjp', 'vjp', 'jvp', 'grad', 'value_and_grad', 'custom_vjp']
  for i in range(1800 if thorough else 180):
    nv = rng.randint(1, 5)
    vars_ = [{'col': rng.choice(COLS), 'name': 'v%d' % j, 'val': rng.randint(-3, 4)} for j in range(nv)]
    nin = rng.randint(1, 3)
    kind = kinds[i % len(kinds)]
    bumps = [j for j, v in enumerate(vars_) if v['col'] == 'counter' and rng.random() < 0.7] if kind != 'custom_vjp' else []
    poly, tv = gen_poly(rng, nv + nin), tangents(rng, vars_)
    if kind == 'jvp' and (i // len(kinds)) % 2 == 0:
      # every other jvp case: a tangent for a variable of a collection that is MUTABLE in the enclosing apply ('counter'), and an output that depends on it
      vars_[0]['col'] = 'counter'
      tv = [t for t in tangents(rng, vars_) if t[0] != 0] + [[0, rng.choice([-2, -1, 1, 2, 3])]]
      tv += [[j, rng.randint(-2, 3)] for j, v in enumerate(vars_) if j != 0 and v['col'] == 'counter' and not any(t[0] == j for t in tv)]
      tv.sort()
      poly = ['add', poly, ['mul', ['var', 0], ['var', nv]]]
    cases.append({'kind': kind, 'vars': vars_, 'nin': nin, 'poly': poly, 'bumps': bumps, 'xs': [rng.randint(-3, 3) for _ in range(nin)], 'ct': rng.randint(-3, 4),
                  'tvars': tv, 'tins': [rng.randint(-2, 3) for _ in range(nin)],
                  'filter': gen_filter(rng), 'has_aux': kind in ('vjp', 'grad', 'value_and_grad') and rng.random() < 0.3,
                  'seq': [rng.choice(['direct', 'diff']) for _ in range(rng.randint(2, 4))], 'hdepth': rng.choice([1, 2, 3])})
  W = 12
  results = common.run_impl_parallel('impl_c07.py', [{'cases': cases[i::W]} for i in range(W)], workers=W, timeout=3000)
  obs = [None] * len(cases)
  for k, r in enumerate(results):
    for j, o in enumerate(r['cases']):
      obs[k + W * j] = o
  rows = []
  stat = {}
  for d, o in zip(cases, obs):
    chk.count(d, len(d['vars']) > 1 and d['filter'] not in (True, False))
    stat[d['kind']] = stat.get(d['kind'], 0) + 1
    if 'err' in o:
      chk.violation('oracle', 'the case could not be run: %s' % o['err'], {'case': d, 'tb': o.get('tb')})
      continue
    r = o['ok']
    impl, ref = r['impl'], r['ref']
    if 'err' in impl or 'err' in ref:
      chk.violation('oracle', 'nn.%s (or the pure reference) raised' % d['kind'], {'case': d, 'impl': impl, 'reference': ref})
      continue
    if impl['ok'] != ref['ok']:
      chk.violation('oracle', 'nn.%s differs from jax autodiff of the pure function (variables, inputs) -> module.apply: primal, cotangents / tangents of the selected collections and of the '
                    'inputs, aux, or the forward-pass updates (published once)' % d['kind'], {'case': d, 'impl': impl['ok'], 'reference': ref['ok']})
      continue
    hi, hr = r.get('hist_impl'), r.get('hist_ref')
    if hi is not None:
      stat['histories'] = stat.get('histories', 0) + 1
      if 'err' in hi or 'err' in hr:
        chk.violation('oracle', 'a history of direct and nn.%s calls on a sub-module bound in setup (or its pure reference) raised' % d['kind'], {'case': d, 'impl': hi, 'reference': hr})
        continue
      if hi['ok'] != hr['ok']:
        chk.violation('oracle', 'a history %s of direct calls and nn.%s calls on one sub-module bound in setup differs from the same sequence of pure Module.apply calls threading the '
                      'variables: primal outputs, or the forward-pass updates are not published exactly once per call' % (d['seq'], d['kind']),
                      {'case': d, 'impl': hi['ok'], 'reference': hr['ok']})
        continue
    a = impl['ok']
    D = cdfun(d)
    f = LP.cfilt(d['filter'])
    after = 'list_beq Z.eqb (vars_after %s) %s' % (D, clist([cZ(int(z)) for z in a['vars_after']]))
    if d['kind'] == 'vjp':
      row = ('(let \'(y, vg, ig) := vjp_model %s %s %s in Z.eqb y %s && list_beq (pair_beq Nat.eqb Z.eqb) vg %s && list_beq Z.eqb ig %s && %s)' % (
          f, D, cZ(d['ct']), cZ(int(a['y'])), clist([cpair(cnat(i), cZ(int(g))) for i, g in a['vg']]), clist([cZ(int(g)) for g in a['ig']]), after))
      want_cols = sorted({v['col'] for v in d['vars'] if C8_in_filter(d['filter'], v['col'])})
      if a['vg_cols'] != want_cols:
        chk.violation('oracle', 'nn.vjp returned cotangents for other collections than vjp_variables selects', {'case': d, 'got': a['vg_cols'], 'expected': want_cols})
    elif d['kind'] == 'jvp':
      row = '(let \'(y, t) := jvp_model %s %s %s in Z.eqb y %s && Z.eqb t %s && %s)' % (
          D, clist([cpair(cnat(i), cZ(t)) for i, t in d['tvars']]), clist([cZ(t) for t in d['tins']]), cZ(int(a['y'])), cZ(int(a['t'])), after)
    elif d['kind'] in ('grad', 'value_and_grad'):
      row = '(list_beq Z.eqb (grad_inputs %s) %s && %s%s)' % (D, clist([cZ(int(g)) for g in a['ig']]), after,
                                                             (' && Z.eqb (primal %s) %s' % (D, cZ(int(a['y'])))) if 'y' in a else '')
    else:
      t = r['through']
      if 'err' in t:
        chk.violation('oracle', 'differentiating through nn.custom_vjp raised %s' % t['err'], {'case': d, 'msg': t.get('msg')})
        continue
      tr = r['through_ref']
      if 'err' in tr or tr['ok'] != t['ok']:
        chk.violation('oracle', 'differentiating through nn.custom_vjp does not use the user\'s backward rule on the true cotangents (x3 for the grad_vars collections, x2 for the inputs)',
                      {'case': d, 'got': t['ok'], 'expected': tr})
        continue
      # forward value = the original function; the user's backward rule (x3 / x2) is used when differentiating
      row = ('(let \'(y, vg, ig) := custom_vjp_model %s %s 3 2 1 in Z.eqb y %s && Z.eqb (custom_vjp_value %s) %s && list_beq (pair_beq Nat.eqb Z.eqb) vg %s && '
             'list_beq Z.eqb ig %s)' % (f, D, cZ(int(a['y'])), D, cZ(int(a['y'])), clist([cpair(cnat(i), cZ(int(g))) for i, g in t['ok']['vg']]), clist([cZ(int(g)) for g in t['ok']['ig']])))
    if hi is not None:
      row = '(%s && (let \'(ys, vs) := hist %s %s in list_beq Z.eqb vs %s && ys_match ys %s))' % (
          row, cnat(len(d['seq'])), D, clist([cZ(int(z)) for z in hi['ok']['vars_after']]), clist([copt(cZ(int(y)) if y is not None else None) for y in hi['ok']['ys']]))
    rows.append((d, o, row))
  # lift.vjp over several scopes at different depths (core API): per-scope cotangents
  ms = [{'depths': [rng.randint(1, 3) for _ in range(n_)], 'vals': [rng.randint(-3, 3) for _ in range(n_)], 'x': rng.randint(1, 3), 'ct': rng.randint(1, 3), 'as_tuple': rng.random() < 0.5}
        for n_ in [2, 2, 3, 3] * (4 if thorough else 1)]
  for c, o in zip(ms, common.run_impl('impl_c07.py', {'multi_scope': ms}, timeout=900)['multi_scope']):
    chk.count({'multi_scope_vjp': c}, len(set(c['depths'])) > 1)
    if 'err' in o:
      chk.violation('oracle', 'lift.vjp over several scopes raised: %s' % o['err'], {'case': c, 'tb': o.get('tb')})
    elif not (o['ok']['y'] and o['ok']['x_grad'] and o['ok']['scope_grads']):
      chk.violation('oracle', 'lift.vjp over several scopes at depths %s: the primal, the input cotangent or the cotangent returned for a scope is not that of the pure function (a scope received '
                    'the cotangent of another scope\'s parameter)' % c['depths'], {'case': c, 'observed': o['ok']})
  # the lifted gradient differentiated again (gradient penalty): outer jax.grad of apply and an enclosing nn.vjp over params
  so = [{'w': [rng.randint(-2, 3) / 2.0 for _ in range(3)], 'b': [rng.randint(-2, 3) / 2.0 for _ in range(3)], 'x': [rng.randint(-3, 3) / 2.0 for _ in range(3)]} for _ in range(12 if thorough else 3)]
  for c, o in zip(so, common.run_impl('impl_c07.py', {'second_order': so}, timeout=900)['second_order']):
    chk.count({'second_order': c}, True)
    if 'err' in o:
      chk.violation('oracle', 'differentiating a module that uses nn.value_and_grad / nn.grad inside raised: %s' % o['err'], {'case': c, 'tb': o.get('tb')})
      continue
    for k, r in o['ok'].items():
      if not all(v for kk, v in r.items() if isinstance(v, bool)):
        chk.violation('oracle', 'nn.value_and_grad / nn.grad used inside a module that is itself differentiated (%s): the value, the inner input gradient, or the outer gradient w.r.t. the '
                      'parameters / the input differs from jax autodiff of the pure function' % k, {'case': c, 'observed': r})
  chk.sample({'case': cases[0], 'observed': obs[0].get('ok', {}).get('impl')})
  hdr = HEADER + '''Definition chk (b : bool) : bool := b.
Fixpoint ys_match (ys : list Z) (es : list (option Z)) : bool :=
  match ys, es with
  | [], [] => true
  | y :: ys', e :: es' => (match e with Some z => Z.eqb y z | None => true end) && ys_match ys' es'
  | _, _ => false
  end.
'''
  bad = common.coq_mismatches('c07', hdr, [r[2] for r in rows], 'chk', shard=60, timeout=900)
  for i in bad[:8]:
    d, o, _ = rows[i]
    chk.violation('correspondence', 'Model/LiftGrad.v and flax.linen nn.%s disagree; theorems C07_* no longer transfer' % d['kind'], {'case': d, 'observed': o['ok']})
  chk.cov['traces_validated_against_impl'] = len(rows)
  chk.notes['stats'] = stat
  chk.cov['rule'] = ('polynomial modules with 1-5 scalar variables in params / batch_stats / cache / counter and 1-3 scalar inputs, random polynomials of depth <= 4, forward-pass counters; '
                     'nn.vjp (vjp_variables in {name, list, True, False, DenyList}, has_aux, integer cotangent), nn.jvp (variable_tangents for random subsets, input tangents), nn.grad, '
                     'nn.value_and_grad (has_aux), nn.custom_vjp (forward value; backward rule observed by differentiating through it); every case also as a history of 2-4 direct / differentiated calls on one sub-module bound in setup (model: hist). non-trivial = more than one variable and a proper filter')
  chk.cov['trusted_base'] = ['Coq 8.16.1 kernel + vm_compute', 'harness/c07.py, impl_c07.py', 'harness/jaxcompat.py', 'jax.vjp, jax.jvp, jax.grad']


def C8_in_filter(f, col):
  if f is True or f is False:
    return f
  if isinstance(f, str):
    return f == col
  if isinstance(f, list):
    return col in f
  return not C8_in_filter(f['deny'], col)
