"""C13 -- Attention and RNNs: stepwise equals whole-sequence; padding and masks are inert."""
import numpy as np
import common
from common import cN, cZ, cnat, cbool, clist, copt, cpair

PROOF_FILES = ['Proofs/Seq.v', 'Proofs/SeqBi.v']
ASSUMPTIONS = [
    'the RNN wrapper logic is exercised exactly with an integer cell (carry\' = a*carry + b*x, y = carry\' + c*x) in both APIs; the real cells are compared with their documented '
    'recurrences (numpy) and with the manual loop of cell.apply within 1e-9',
    'attention: weights are compared with a numpy softmax over the allowed positions within 1e-9; non-interference oracles demand bit-identical outputs under perturbation of ignored positions',
    'the float32 fast path of nnx attention is compared with Linen within 1e-5',
]
HEADER = '''From Coq Require Import QArith Qabs.
From Flaxm Require Import Lib.Harness Model.Seq Model.Layers Model.Attn.
Close Scope Q_scope.
Open Scope Z_scope.
(* power-of-two attention: every query with an allowed key has the model's weights (relative tolerance 1e-9) and outputs (1e-9; 1e-5 for the float32 fast path of nnx) *)
Definition closeq9 (a b : Q) : bool := qclose (1 # 1000000000) a b.
Fixpoint all2 {A B} (f : A -> B -> bool) (a : list A) (b : list B) : bool :=
  match a, b with [], [] => true | x :: a', y :: b' => f x y && all2 f a' b' | _, _ => false end.
Definition attn_rows_ok (otol : Q) (dv : nat) (qs ks vs bias : list (list Z)) (mask : list (list bool)) (w o : list (list Q)) : bool :=
  all2 (fun qbm wo => let '(q, b, m) := qbm in let '(wr, orow) := wo in
          negb (existsb (fun x => x) m) ||
          (all2 closeq9 wr (weights (logits_of q ks b) m) && all2 (qclose otol) orow (attend dv q ks b m vs)))
       (combine (combine qs bias) mask) (combine w o).
'''
TOL = 1e-9


def gen_int_rnn(rng):
  nb = rng.choice([0, 1, 1, 2])
  B = [rng.randint(1, 3) for _ in range(nb)]
  T = rng.randint(1, 6)
  x = np.array([rng.randint(-3, 3) for _ in range(int(np.prod(B + [T])))], dtype=np.int64).reshape(B + [T])
  use_len = rng.random() < 0.7
  lens = np.array([rng.randint(1, T) for _ in range(int(np.prod(B)) if B else 1)], dtype=np.int64).reshape(B).tolist() if use_len else None
  return {'test': 'int_rnn', 'x': x.tolist(), 'lens': lens, 'time_major': rng.random() < 0.3, 'reverse': rng.random() < 0.5, 'keep_order': rng.random() < 0.5,
          'a': rng.randint(-2, 3), 'b': rng.randint(-2, 3), 'c': rng.randint(-2, 3),
          'c0': (np.array([rng.randint(-2, 2) for _ in range(int(np.prod(B)) if B else 1)]).reshape(B).tolist() if rng.random() < 0.4 else None),
          'bidirectional': rng.random() < 0.3,
          # which flags are passed at call time (the constructor then holds the value in 'ctor', mostly the opposite one) and which only to the constructor
          'at_call': [k for k in ('return_carry', 'time_major', 'reverse', 'keep_order') if rng.random() < 0.5],
          'ctor': {k: rng.random() < 0.7 for k in ('return_carry', 'time_major', 'reverse', 'keep_order')}}


def gen_real_rnn(rng):
  B = [rng.randint(1, 3) for _ in range(rng.choice([1, 1, 2]))]
  T = rng.randint(1, 5)
  return {'test': 'real_rnn', 'seed': rng.randint(0, 10 ** 6), 'batch': B, 'T': T, 'features': rng.randint(1, 3), 'hidden': rng.randint(1, 3),
          'lens': (np.array([rng.randint(1, T) for _ in range(int(np.prod(B)))]).reshape(B).tolist() if rng.random() < 0.7 else None),
          'kind': rng.choice(['lstm', 'lstm', 'olstm', 'gru', 'simple', 'simple_res', 'mgu']), 'reverse': rng.random() < 0.5, 'keep_order': rng.random() < 0.5}


def gen_attention(rng):
  B = [rng.randint(1, 2) for _ in range(rng.choice([0, 1, 1]))]
  Tq, Tk, H = rng.randint(1, 4), rng.randint(1, 5), rng.randint(1, 3)
  kind = rng.choice(['none', 'random', 'causal', 'padding', 'combined'])
  if kind == 'none':
    mask = None
  else:
    m = np.ones(B + [1, Tq, Tk], dtype=bool)
    if kind in ('random', 'combined'):
      m &= np.array([rng.random() < 0.6 for _ in range(m.size)]).reshape(m.shape)
    if kind in ('causal', 'combined'):
      m &= np.tril(np.ones((Tq, Tk), dtype=bool))
    if kind in ('padding', 'combined'):
      for idx in np.ndindex(*B):
        n = rng.randint(1, Tk)
        m[idx][..., n:] = False
    mask = m.tolist()
  return {'test': 'attention', 'seed': rng.randint(0, 10 ** 6), 'batch': B, 'Tq': Tq, 'Tk': Tk, 'heads': H, 'dim': rng.randint(1, 3), 'bias': rng.random() < 0.4, 'mask': mask}


def gen_pow2attn(rng):
  Tq, Tk, D = rng.randint(1, 3), rng.randint(1, 5), rng.randint(1, 3)
  Dv = D          # the nnx fast path (jax.nn.dot_product_attention) wants values of the key depth
  kind = rng.choice(['none', 'random', 'causal', 'padding'])
  mask = None
  if kind != 'none':
    m = np.ones((Tq, Tk), dtype=bool)
    if kind == 'random':
      m &= np.array([rng.random() < 0.6 for _ in range(m.size)]).reshape(m.shape)
    elif kind == 'causal':
      m &= np.tril(np.ones((Tq, Tk), dtype=bool))
    else:
      m[:, rng.randint(1, Tk):] = False
    mask = m.tolist()
  return {'test': 'pow2attn', 'q': [[rng.randint(-2, 2) for _ in range(D)] for _ in range(Tq)], 'k': [[rng.randint(-2, 2) for _ in range(D)] for _ in range(Tk)],
          'v': [[rng.randint(-9, 9) for _ in range(Dv)] for _ in range(Tk)], 'bias': ([[rng.randint(-3, 3) for _ in range(Tk)] for _ in range(Tq)] if rng.random() < 0.5 else None),
          'mask': mask}


def gen_masks(rng):
  nq, nk = rng.randint(1, 5), rng.randint(1, 5)
  big = rng.random() < 0.3           # values a half-precision float cannot represent exactly
  val = (lambda: rng.choice([0, 1, 2, 3, 257, 258, 259, 2049, 2050, 2051])) if big else (lambda: rng.randint(0, 3))
  n = rng.choice([1, 2, 3, 5, 8]) if not big else rng.choice([260, 264])
  r, cdim = rng.randint(1, 3), rng.randint(1, 4)
  parts = [[[rng.random() < 0.6 for _ in range(cdim)] for _ in range(r)] for _ in range(rng.randint(1, 3))]
  return {'test': 'masks', 'q': [val() for _ in range(nq)], 'k': [val() for _ in range(nk)], 'fn': rng.choice(['mul', 'eq', 'ge']), 'dtype': rng.choice(['f32', 'bf16', 'f16', 'bool']),
          'n': n, 'offset': rng.choice([0, 0, 7]), 'parts': parts, 'none': sorted(rng.sample(range(len(parts)), rng.randint(0, len(parts))))}


def gen_decode(rng):
  return {'test': 'decode', 'seed': rng.randint(0, 10 ** 6), 'batch': rng.randint(1, 2), 'bshape': rng.choice([None, None, [], [2, 3], [1, 2], [2, 1, 2]]), 'T': rng.randint(1, 6), 'heads': rng.randint(1, 3), 'features': rng.randint(1, 4), 'dim': rng.randint(1, 3)}


def rnn_rows(c, got):
  """Model/Seq.v on every sequence of the batch"""
  x = np.array(c['x'], dtype=np.int64)
  B = x.shape[:-1]
  parts = []
  y = np.array(got['y'], dtype=np.int64).reshape(x.shape)
  carry = np.array(got['carry'], dtype=np.int64).reshape(B)
  for b in np.ndindex(*B):
    n = int(np.array(c['lens']).reshape(B)[b]) if c['lens'] is not None else None
    c0 = int(np.array(c['c0']).reshape(B)[b]) if c.get('c0') is not None else 0
    nvalid = n if n is not None else x.shape[-1]
    parts.append('(let \'(fin, ys) := rnn Z Z Z (int_cell %s %s %s) %s %s %s %s %s in option_beq Z.eqb fin (Some %s) && list_beq Z.eqb (firstn %d ys) %s)' % (
        cZ(c['a']), cZ(c['b']), cZ(c['c']), cbool(c['reverse']), cbool(c['keep_order']), copt(cnat(n) if n is not None else None), cZ(c0), clist([cZ(int(v)) for v in x[b]]),
        cZ(int(carry[b])), nvalid, clist([cZ(int(v)) for v in y[b][:nvalid]])))
  return '(' + ' && '.join(parts) + ')'


def run(chk):
  rng = chk.rng
  thorough = chk.tier == 'thorough'
  chk.proofs(PROOF_FILES)
  gens = [gen_int_rnn, gen_int_rnn, gen_real_rnn, gen_attention, gen_attention, gen_decode, gen_masks, gen_pow2attn]
  cases = [gens[i % len(gens)](rng) for i in range(2400 if thorough else 300)]
  W = 14
  results = common.run_impl_parallel('impl_c13.py', [{'cases': cases[i::W]} for i in range(W)], workers=W, timeout=3000)
  obs = [None] * len(cases)
  for k, r in enumerate(results):
    for j, o in enumerate(r['cases']):
      obs[k + W * j] = o
  rows = []
  stat = {}
  for c, o in zip(cases, obs):
    t = c['test']
    stat[t] = stat.get(t, 0) + 1
    chk.count(c, True)
    if 'err' in o:
      chk.violation('oracle', 'the %s case raised %s' % (t, o['err']), {'case': c, 'msg': o.get('msg'), 'tb': o.get('tb')})
      continue
    r = o['ok']
    if t == 'int_rnn':
      li, nx = r['linen'], r['nnx']
      for api, got in (('Linen', li), ('NNX', nx)):
        if 'err' in got:
          chk.violation('oracle', '%s RNN raised %s' % (api, got['err']), {'case': c, 'msg': got.get('msg')})
      if 'ok' in li and 'ok' in nx:
        # outputs at padded positions are unspecified: compare the valid prefix (done inside the model rows) and the carries
        if li['ok']['carry'] != nx['ok']['carry']:
          chk.violation('oracle', 'Linen and NNX RNN return different final carries', {'case': c, 'linen': li['ok'], 'nnx': nx['ok']})
      for api, got in (('linen', li), ('nnx', nx)):
        if 'ok' in got:
          rows.append(((t + ':' + api, c, o), rnn_rows(c, got['ok'])))
      if 'linen_bi' in r:
        bi = r['linen_bi']
        if 'err' in bi:
          chk.violation('oracle', 'Bidirectional raised %s' % bi['err'], {'case': c, 'msg': bi.get('msg')})
        else:
          cf = dict(c, reverse=False, keep_order=False, c0=None)
          cb = dict(c, reverse=True, keep_order=True, c0=None, a=c['a'] + 1)
          rows.append(((t + ':bidirectional', c, o), '(%s && %s)' % (rnn_rows(cf, {'y': bi['ok']['y_f'], 'carry': bi['ok']['carry_f']}), rnn_rows(cb, {'y': bi['ok']['y_b'], 'carry': bi['ok']['carry_b']}))))
    elif t == 'real_rnn':
      for key, what in (('dev_outputs_vs_recurrence', 'the outputs of RNN(cell) at valid positions differ from the documented recurrence of the cell run over the valid steps'),
                        ('dev_carry_vs_recurrence', 'the final carry of RNN(cell) is not the carry after exactly seq_len valid steps of the documented recurrence'),
                        ('dev_outputs_vs_cell_loop', 'RNN(cell) differs from the Python loop of cell.apply')):
        if not r[key] <= TOL:
          chk.violation('oracle', what, {'case': c, 'deviation': r[key]})
      if r.get('padding_inert') is False:
        chk.violation('oracle', 'inputs at padded positions (>= seq_lengths) influence a valid output or the returned carry', {'case': c})
      if 'dev_nnx_vs_linen' in r and ('err' in r['dev_nnx_vs_linen'] or not r['dev_nnx_vs_linen']['ok'] <= TOL):
        chk.violation('oracle', 'nnx.RNN(nnx.LSTMCell) with the Linen parameters differs from Linen', {'case': c, 'observed': r['dev_nnx_vs_linen']})
    elif t == 'masks':
      cb = lambda m: clist([clist([cbool(bool(v)) for v in row]) for row in m])
      fterm = {'mul': '(fun a b => negb (Z.eqb (a * b) 0))', 'eq': 'Z.eqb', 'ge': '(fun a b => Z.leb b a)'}[c['fn']]
      cz = lambda xs: clist([cZ(v) for v in xs])
      bb = 'list_beq (list_beq Bool.eqb)'
      for api in ('linen', 'nnx'):
        g = r[api]
        if g['mask_shape'] != [1, len(c['q']), len(c['k'])] or g['causal_shape'] != [1, c['n'], c['n']]:
          chk.violation('oracle', '%s mask helper returns another shape than [1, len_q, len_kv]' % api, {'case': c, 'observed': g})
          continue
        row = ['%s (attn_mask %s %s %s) %s' % (bb, fterm, cz(c['q']), cz(c['k']), cb(g['mask']))]
        if c['n'] <= 8:
          row.append('%s (causal_mask %s) %s' % (bb, cnat(c['n']), cb(g['causal'])))
        else:
          import numpy as _np
          if not _np.array_equal(_np.array(g['causal']), _np.tril(_np.ones((c['n'], c['n']), dtype=bool))):
            chk.violation('oracle', '%s make_causal_mask(dtype=%s) of length %d is not lower triangular (a position sees a later one)' % (api, c['dtype'], c['n']), {'case': {k: v for k, v in c.items() if k != 'parts'}})
        parts = clist([copt(None if i in c['none'] else cb(p)) for i, p in enumerate(c['parts'])])
        row.append('option_beq (%s) (combine_masks %s) %s' % (bb, parts, copt(None if g['combined'] is None else cb(g['combined']))))
        rows.append(((t + ':' + api, c, o), '(' + ' && '.join(row) + ')'))
    elif t == 'pow2attn':
      from c12_coq import cq
      Tq, Tk = len(c['q']), len(c['k'])
      zl = lambda l: clist([cZ(int(v)) for v in l])
      zll = lambda ll: clist([zl(l) for l in ll])
      bias = c['bias'] if c['bias'] is not None else [[0] * Tk for _ in range(Tq)]
      mask = c['mask'] if c['mask'] is not None else [[True] * Tk for _ in range(Tq)]
      for api in ('linen', 'nnx'):
        g = r[api]
        if not all(np.isfinite(np.array(g['w'])[i]).all() for i in range(Tq) if any(mask[i])):
          chk.violation('oracle', '%s attention weights of a query with an allowed key are not finite' % api, {'case': c, 'observed': g})
          continue
        qll = lambda ll: clist([clist([cq(v) if np.isfinite(v) else '0%Q' for v in l]) for l in ll])
        rows.append(((t + ':' + api, c, o), '(attn_rows_ok %s %s %s %s %s %s %s %s %s)' % (
            '(1 # 1000000000)%Q' if api == 'linen' else '(1 # 100000)%Q', cnat(len(c['v'][0])), zll(c['q']), zll(c['k']), zll(c['v']), zll(bias), clist([clist([cbool(bool(b)) for b in row]) for row in mask]), qll(g['w']), qll(g['o']))))
    elif t == 'attention':
      if not r['dev_weights'] <= TOL or not r['dev_output'] <= 1e-8:
        chk.violation('oracle', 'attention weights / outputs over the allowed positions are not the softmax of scaled dot products plus bias', {'case': c, 'observed': r})
      if r['masked_weight_max'] != 0.0:
        chk.violation('oracle', 'a masked position receives non-zero attention weight from a query that has an allowed key', {'case': c, 'observed': r})
      if r.get('mask_inert') is False:
        chk.violation('oracle', 'keys / values at positions no valid query may see influence an output', {'case': c})
      if not r['dev_nnx_weights'] <= TOL:
        chk.violation('oracle', 'Linen and NNX attention weights differ', {'case': c, 'observed': r})
    else:
      if not r['dev_linen_decode_padding'] <= TOL:
        chk.violation('oracle', 'Linen decoding with a key-padding mask passed at every step differs from whole-sequence attention under the causal and padding masks', {'case': c, 'observed': r})
      if not r['dev_linen_decode'] <= TOL or r['cache_index'] != c['T']:
        chk.violation('oracle', 'Linen attention fed one position at a time through the decode cache differs from whole-sequence causal attention', {'case': c, 'observed': r})
      if not r['causal_inert']:
        chk.violation('oracle', 'positions after a causal position influence its output', {'case': c})
      if 'err' in r['nnx'] or not r['nnx']['ok']['dev_nnx_decode'] <= TOL or not r['nnx']['ok']['dev_nnx_whole_vs_linen'] <= 1e-5:
        chk.violation('oracle', 'NNX attention: stepwise decoding differs from whole-sequence causal attention, or NNX differs from Linen on the same parameters', {'case': c, 'observed': r['nnx']})
  chk.sample({'case': cases[0], 'observed': obs[0].get('ok')})
  hdr = HEADER + 'Definition chk (b : bool) : bool := b.\n'
  bad = common.coq_mismatches('c13', hdr, [r[1] for r in rows], 'chk', shard=60, timeout=900)
  for i in bad[:8]:
    kind, c, o = rows[i][0]
    chk.violation('correspondence', 'Model/Seq.v (%s) and flax disagree on the valid outputs or the final carry; theorems C13_* no longer transfer' % kind, {'case': c, 'observed': o['ok']})
  chk.cov['traces_validated_against_impl'] = len(rows)
  chk.notes['by_test'] = stat
  chk.cov['rule'] = ('integer-cell RNNs in Linen and NNX: batch shapes (), (b,), (b1,b2), T 1-6, seq_lengths in [1,T], reverse, keep_order, time_major, initial carries, Bidirectional; real cells '
                     '(LSTM, OptimizedLSTM, GRU, Simple, MGU) against their recurrences and the manual loop, padded inputs perturbed; attention with random / causal / padding / combined masks and '
                     'bias, ignored keys and values perturbed; power-of-two attention (integer q / k / v / bias in units of ln 2, masks) against the rational model; stepwise decode vs whole-sequence causal attention in Linen and NNX on the same parameters. distinct by canonical JSON hash')
  chk.cov['trusted_base'] = ['Coq 8.16.1 kernel + vm_compute', 'harness/c13.py, impl_c13.py (numpy recurrences and softmax)', 'harness/jaxcompat.py', 'float64 arithmetic']
