"""C12 -- Feed-forward layers compute their documented formulas; Linen and NNX agree."""
import math
import numpy as np
import common
from common import cN, cZ, cnat, cbool, clist, copt, cpair

PROOF_FILES = ['Proofs/Layers.v', 'Proofs/ConvT.v', 'Proofs/Conv2.v', 'Proofs/Dropout.v', 'Proofs/Einsum.v']
ASSUMPTIONS = [
    'inputs and parameters are small integers held in float64, so the linear layers are exact and compared by equality; normalisation layers are compared within 1e-9 relative',
    'the reference is an independent numpy implementation of the documented formulas as direct sums (harness/c12_ref.py); the Gallina model covers Dense, 1-D Conv (all padding modes, stride, '
    'kernel dilation, groups), 1-D pooling, Embed and the statistics of the normalisation layers',
    'dtype promotion, precision, dot_general / conv_general_dilated injection and axis_name statistics are not covered',
]
HEADER = 'From Coq Require Import QArith Qabs.\nFrom Flaxm Require Import Lib.Harness Model.Layers Model.Dropout Model.Einsum.\n'


def ints(rng, shape, lo=-3, hi=3):
  return np.array([rng.randint(lo, hi) for _ in range(int(np.prod(shape)) if shape else 1)], dtype=np.int64).reshape(shape).tolist()


def gen_dense(rng):
  lead = [rng.randint(1, 3) for _ in range(rng.randint(0, 2))]
  i, o = rng.randint(1, 4), rng.randint(1, 4)
  return {'layer': 'dense', 'x': ints(rng, lead + [i]), 'kernel': ints(rng, [i, o]), 'bias': ints(rng, [o]), 'use_bias': rng.random() < 0.7}


def gen_dense_general(rng):
  rank = rng.randint(2, 4)
  shape = [rng.randint(1, 3) for _ in range(rank)]
  if rng.random() < 0.4:
    shape = [rng.choice([2, 3])] * rank          # equal sizes: a permuted contraction is silent, not a shape error
  naxes = rng.randint(1, min(3, rank - 1))
  axes = sorted(rng.sample(range(rank), naxes))
  # the axes may be written in any order; the kernel dimensions follow the contracted axes in ascending order
  axis = [a if rng.random() < 0.5 else a - rank for a in rng.sample(axes, len(axes))]
  feats = [rng.randint(1, 3) for _ in range(rng.randint(1, 2))]
  return {'layer': 'dense_general', 'x': ints(rng, shape), 'kernel': ints(rng, [shape[a] for a in axes] + feats), 'bias': ints(rng, feats), 'axis': axis, 'features': feats,
          'use_bias': rng.random() < 0.7}


EINSUMS = [('...ij,jk->...ik', lambda r: ([r.randint(1, 2), r.randint(1, 3), 2], [2, 3], [3])),
           ('bnd,ndh->bnh', lambda r: ([2, 3, 2], [3, 2, 2], [3, 2])),
           ('bij,jk->bik', lambda r: ([2, 2, 3], [3, 2], [2])),
           ('nta,hab->nthb', lambda r: ([1, 2, 2], [3, 2, 2], [3, 2])),
           ('ab,bc->ca', lambda r: ([2, 3], [3, 2], [2]))]


EINSUM_ALT = {'...ij,jk->...ik': '...ij,jk->...ki', 'bnd,ndh->bnh': 'bnd,ndh->bhn', 'bij,jk->bik': 'bij,jk->kbi', 'nta,hab->nthb': 'nta,hab->bnht', 'ab,bc->ca': 'ab,bc->ac'}


def gen_einsum(rng):
  eq, f = rng.choice(EINSUMS)
  xs, ks, bs = f(rng)
  c = {'layer': 'einsum', 'eq': eq, 'x': ints(rng, xs), 'kernel': ints(rng, ks), 'bias': ints(rng, bs), 'use_bias': rng.random() < 0.6}
  if rng.random() < 0.4:
    # the equation given at call time (it takes precedence in NNX; Linen accepts it only when the constructor has none): the module was
    # built with another equation over the same operands that places the kernel's surviving axes elsewhere in the result
    c['ctor_eq'] = EINSUM_ALT[eq]
  return c


def gen_padding(rng, nd, allow_causal=True, strings=('SAME', 'VALID', 'CIRCULAR', 'REFLECT')):
  r = rng.random()
  if r < 0.55:
    opts = list(strings) + (['CAUSAL'] if (nd == 1 and allow_causal) else [])
    return rng.choice(opts)
  if r < 0.7:
    return rng.randint(0, 2)
  return [[rng.randint(0, 2), rng.randint(0, 2)] if rng.random() < 0.7 else rng.randint(0, 2) for _ in range(nd)]


def gen_conv(rng):
  nd = rng.choice([1, 1, 2])
  lead = [rng.randint(1, 2) for _ in range(rng.choice([0, 1, 1, 2]))]
  groups = rng.choice([1, 1, 2])
  cin = groups * rng.randint(1, 2)
  feats = groups * rng.randint(1, 2)
  ksz = [rng.randint(1, 3) for _ in range(nd)]
  sizes = [rng.randint(3, 6) for _ in range(nd)]
  padding = gen_padding(rng, nd)
  in_dil = [rng.choice([1, 1, 2]) for _ in range(nd)] if not isinstance(padding, str) or padding == 'VALID' else [1] * nd
  c = {'layer': 'conv', 'x': ints(rng, lead + sizes + [cin]), 'kernel_size': ksz, 'kernel': ints(rng, ksz + [cin // groups, feats], -2, 2), 'bias': ints(rng, [feats]),
       'use_bias': rng.random() < 0.6, 'strides': [rng.randint(1, 3) for _ in range(nd)], 'padding': padding, 'input_dilation': in_dil,
       'kernel_dilation': [rng.choice([1, 1, 2]) for _ in range(nd)], 'groups': groups, 'mask': None}
  if rng.random() < 0.25:
    c['mask'] = ints(rng, ksz + [cin // groups, feats], 0, 1)
  return c


def gen_conv_local(rng):
  nd = 1
  cin, feats = rng.randint(1, 2), rng.randint(1, 2)
  ksz = [rng.randint(1, 3)]
  n = rng.randint(3, 6)
  strides, kdil = [rng.randint(1, 2)], [rng.choice([1, 1, 2])]
  padding = rng.choice(['VALID', 'SAME', 'CIRCULAR', 'CAUSAL', [[1, 1]]])
  k_eff = (ksz[0] - 1) * kdil[0] + 1
  import c12_ref as R
  lo, hi, _ = R._pads(padding, [n], [k_eff], strides, kdil, ksz, 1)[0]
  out = (n + lo + hi - k_eff) // strides[0] + 1
  if out <= 0:
    return gen_conv_local(rng)
  return {'layer': 'conv_local', 'x': ints(rng, [rng.randint(1, 2), n, cin]), 'kernel_size': ksz, 'kernel': ints(rng, [out, ksz[0] * cin, feats], -2, 2), 'bias': ints(rng, [out, feats]),
          'use_bias': rng.random() < 0.5, 'strides': strides, 'padding': padding, 'kernel_dilation': kdil}


def gen_conv_transpose(rng):
  nd = rng.choice([1, 1, 2])
  cin, cout = rng.randint(1, 2), rng.randint(1, 2)
  ksz = [rng.randint(1, 3) for _ in range(nd)]
  tk = rng.random() < 0.5
  kshape = ksz + ([cout, cin] if tk else [cin, cout])
  return {'layer': 'conv_transpose', 'x': ints(rng, [rng.randint(1, 2)] + [rng.randint(2, 4) for _ in range(nd)] + [cin]), 'kernel_size': ksz, 'kernel': ints(rng, kshape, -2, 2),
          'bias': ints(rng, [cout]), 'use_bias': rng.random() < 0.5, 'strides': [rng.randint(1, 3) for _ in range(nd)], 'padding': rng.choice(['SAME', 'VALID', 'CIRCULAR']), 'transpose_kernel': tk,
          'kernel_dilation': [rng.choice([1, 1, 2]) for _ in range(nd)]}


def gen_embed(rng):
  n, f = rng.randint(2, 5), rng.randint(1, 3)
  ishape = [rng.randint(1, 3) for _ in range(rng.randint(0, 2))]
  return {'layer': 'embed', 'table': ints(rng, [n, f]), 'ids': np.array([rng.randrange(n) for _ in range(int(np.prod(ishape)) if ishape else 1)]).reshape(ishape).tolist(),
          'query': ints(rng, [rng.randint(1, 3), f])}


def gen_pool(rng):
  nd = rng.choice([1, 1, 2])
  nbatch = rng.choice([0, 1, 1, 1, 2])          # missing, one, or extra batch dimensions
  shape = [rng.randint(1, 2) for _ in range(nbatch)] + [rng.randint(3, 6) for _ in range(nd)] + [rng.randint(1, 2)]
  return {'layer': 'pool', 'op': rng.choice(['avg', 'max', 'min']), 'x': ints(rng, shape, -5, 5), 'window': [rng.randint(1, 3) for _ in range(nd)],
          'strides': [rng.randint(1, 3) for _ in range(nd)], 'padding': rng.choice(['SAME', 'VALID', [[rng.randint(0, 2), rng.randint(0, 2)] for _ in range(nd)]]), 'count_include_pad': rng.random() < 0.5}


def gen_norm(rng):
  kind = rng.choice(['layer', 'layer', 'rms', 'group', 'instance', 'batch', 'batch'])
  rank = rng.randint(2, 4) if kind not in ('instance',) else rng.randint(3, 4)
  shape = [rng.randint(1, 3) for _ in range(rank - 1)] + [rng.choice([2, 4])]
  c = {'layer': 'norm', 'kind': kind, 'x': ints(rng, shape, -4, 4), 'epsilon': rng.choice([1e-6, 1e-3, 0.5]), 'use_scale': rng.random() < 0.7, 'use_bias': rng.random() < 0.7,
       'use_fast_variance': rng.random() < 0.5}
  if rng.random() < 0.3:
    m = ints(rng, shape, 0, 1)
    c['mask'] = np.array(m, dtype=bool).tolist()
  if kind in ('layer', 'rms'):
    red = rng.choice([[-1], [rank - 1], [-1, -2], list(range(1, rank))]) if rank > 2 else rng.choice([[-1], [rank - 1]])
    c['reduction_axes'] = red
    c['feature_axes'] = [-1] if rng.random() < 0.8 or rank < 3 else [-2, -1]
    fshape = [shape[a] for a in sorted(a % rank for a in c['feature_axes'])]
  elif kind == 'group':
    if rng.random() < 0.5:
      c['num_groups'], c['group_size'] = rng.choice([1, 2]), None
    else:
      c['num_groups'], c['group_size'] = None, rng.choice([1, 2])
    fshape = [shape[-1]]
  elif kind == 'instance':
    fshape = [shape[-1]]
  else:
    c['axis'] = rng.choice([-1, -1, rank - 1, 0])
    nf = shape[c['axis']]
    fshape = [nf]
    c['momentum'] = rng.choice([0.0, 0.5, 0.9, 1.0])
    c['mean'], c['var'] = ints(rng, [nf], -2, 2), ints(rng, [nf], 0, 3)
    c['x2'] = ints(rng, shape, -4, 4)
    if c.get('mask') is not None:
      # every feature keeps at least one unmasked element (the statistics of an empty set are undefined: NaN in the code)
      m = np.array(c['mask'], dtype=bool)
      mm = np.moveaxis(m, c['axis'], 0)
      for f in range(mm.shape[0]):
        if not mm[f].any():
          mm[f].reshape(-1)[0] = True
          mm[f][...] = mm[f]
      flat = mm.reshape(mm.shape[0], -1)
      for f in range(flat.shape[0]):
        if not flat[f].any():
          flat[f, 0] = True
      c['mask'] = np.moveaxis(flat.reshape(mm.shape), 0, c['axis'] % rank).tolist()
  if c.get('mask') is not None and rng.random() < 0.5:
    # a mask that is only broadcastable to the input: some axes have size 1 (e.g. a per-token padding mask (B, T, 1))
    m = np.array(c['mask'], dtype=bool)
    axes = [a for a in range(rank) if rng.random() < 0.5]
    small = m
    for a in axes:
      small = np.take(small, [0], axis=a)
    full = np.broadcast_to(small, m.shape)
    ok = True
    if kind == 'batch':
      fm = np.moveaxis(full, c['axis'] % rank, 0).reshape(m.shape[c['axis'] % rank], -1)
      ok = bool(fm.any(axis=1).all())
    if ok:
      c['mask'] = small.tolist()
  c['scale'], c['bias'] = ints(rng, fshape, -2, 3), ints(rng, fshape, -2, 2)
  return c


def gen_dropout(rng):
  shape = [rng.randint(1, 4) for _ in range(rng.randint(1, 3))]
  bd = sorted(rng.sample(range(len(shape)), rng.randint(0, len(shape) - 1))) if rng.random() < 0.5 else []
  bd = [d if rng.random() < 0.5 else d - len(shape) for d in bd]        # negative axes too
  return {'layer': 'dropout', 'x': ints(rng, shape, 1, 5), 'rate': rng.choice([0.0, 0.25, 0.5, 1.0]), 'deterministic': rng.random() < 0.25, 'broadcast_dims': bd, 'seed': rng.randint(0, 99)}


GENS = [gen_dense, gen_dense_general, gen_einsum, gen_conv, gen_conv, gen_conv, gen_conv_local, gen_conv_transpose, gen_embed, gen_pool, gen_pool, gen_norm, gen_norm, gen_norm, gen_dropout]


MASK = [None]      # positions that count for the comparison (outputs at masked positions are unspecified)


def close(a, b, tol):
  if a['shape'] != b['shape']:
    return False
  if MASK[0] is not None and list(np.shape(MASK[0])) == a['shape']:
    m = np.array(MASK[0]).reshape(-1)
    return all((not mk) or (x == y) or (x != x and y != y) or (math.isfinite(x) and math.isfinite(y) and abs(x - y) <= tol * (1 + abs(y))) for x, y, mk in zip(a['data'], b['data'], m))
  return all((x == y) or (x != x and y != y) or (math.isfinite(x) and math.isfinite(y) and abs(x - y) <= tol * (1 + abs(y))) for x, y in zip(a['data'], b['data']))


def same_struct(a, b, tol):
  if 'shape' in a:
    return close(a, b, tol)
  return set(k for k in a if k != 'stats_unchanged_by_inference') == set(k for k in b if k != 'stats_unchanged_by_inference') and \
      all(same_struct(a[k], b[k], tol) for k in a if k != 'stats_unchanged_by_inference')


def run(chk):
  rng = chk.rng
  thorough = chk.tier == 'thorough'
  chk.proofs(PROOF_FILES)
  cases = [GENS[i % len(GENS)](rng) for i in range(6000 if thorough else 600)]
  # a systematic sweep of the CIRCULAR ConvTranspose alignment: both kernel layouts x kernel size x stride x dilation in one dimension, and anisotropic kernels in two
  for tk in (False, True):
    for k in (1, 2, 3):
      for st in (1, 2, 3):
        for dil in (1, 2):
          kshape = [k] + ([1, 1] if tk else [1, 1])
          cases.append({'layer': 'conv_transpose', 'x': ints(rng, [1, 4, 1]), 'kernel_size': [k], 'kernel': ints(rng, kshape, -2, 2), 'bias': ints(rng, [1]), 'use_bias': False,
                        'strides': [st], 'padding': 'CIRCULAR', 'transpose_kernel': tk, 'kernel_dilation': [dil]})
    for ksz, st in (([1, 2], [1, 1]), ([2, 3], [1, 2]), ([3, 2], [2, 1]), ([2, 1], [3, 2])):
      cases.append({'layer': 'conv_transpose', 'x': ints(rng, [1, 3, 4, 1]), 'kernel_size': ksz, 'kernel': ints(rng, ksz + [1, 1], -2, 2), 'bias': ints(rng, [1]), 'use_bias': False,
                    'strides': st, 'padding': 'CIRCULAR', 'transpose_kernel': tk, 'kernel_dilation': [1, 1]})
  W = 14
  results = common.run_impl_parallel('impl_c12.py', [{'cases': cases[i::W]} for i in range(W)], workers=W, timeout=3000)
  obs = [None] * len(cases)
  for k, r in enumerate(results):
    for j, o in enumerate(r['cases']):
      obs[k + W * j] = o
  stat = {}
  rows = []
  import c12_coq
  for c, o in zip(cases, obs):
    layer = c['layer'] + (':' + c['kind'] if c['layer'] == 'norm' else '')
    stat[layer] = stat.get(layer, 0) + 1
    chk.count(c, True)
    if 'err' in o:
      chk.violation('oracle', 'the layer case could not be run: %s' % o['err'], {'case': c, 'tb': o.get('tb')})
      continue
    r = o['ok']
    tol = 1e-9 if c['layer'] == 'norm' or (c['layer'] == 'pool' and c['op'] == 'avg') else 0.0
    if c['layer'] == 'dropout':
      check_dropout(chk, c, r)
      row = c12_coq.row(c, r)
      if row is not None:
        rows.append((c, o, row))
      continue
    ref = r['ref']
    MASK[0] = np.broadcast_to(np.array(c['mask'], dtype=bool), np.shape(c['x'])) if c.get('mask') is not None and c['layer'] == 'norm' else None
    for api in ('linen', 'nnx'):
      if api not in r:
        continue
      got = r[api]
      if 'err' in ref and 'err' in got:
        continue
      if ('err' in ref) != ('err' in got):
        chk.violation('oracle', '%s %s %s while the reference formula %s' % (api, layer, 'raises ' + got['err'] if 'err' in got else 'returns a value',
                                                                             'raises' if 'err' in ref else 'gives a value'), {'case': c, api: got, 'reference': ref})
        continue
      if not same_struct(got['ok'], ref['ok'], tol):
        chk.violation('oracle', '%s %s differs from the documented formula evaluated by the independent reference' % (api, layer), {'case': c, api: got['ok'], 'reference': ref['ok']})
      if api == 'nnx' and got['ok'].get('stats_unchanged_by_inference') is False:
        chk.violation('oracle', 'nnx.BatchNorm changed its running statistics in inference mode', {'case': c})
    if 'nnx' in r and 'linen' in r and 'ok' in r['linen'] and 'ok' in r['nnx'] and not same_struct(r['linen']['ok'], r['nnx']['ok'], tol):
      chk.violation('oracle', 'Linen and NNX %s disagree on the same parameters and input' % layer, {'case': c, 'linen': r['linen']['ok'], 'nnx': r['nnx']['ok']})
    row = c12_coq.row(c, r)
    if row is not None:
      rows.append((c, o, row))
  chk.sample({'case': cases[3], 'observed': obs[3].get('ok', {}).get('linen')})
  hdr = HEADER + c12_coq.CHK
  bad = common.coq_mismatches('c12', hdr, [r[2] for r in rows], 'chk', shard=60, timeout=900)
  for i in bad[:8]:
    c, o, _ = rows[i]
    chk.violation('correspondence', 'Model/Layers.v and flax (%s) disagree; theorems C12_* no longer transfer' % c['layer'], {'case': c, 'observed': o['ok'].get('linen')})
  chk.cov['traces_validated_against_impl'] = len(rows)
  chk.notes['by_layer'] = stat
  chk.cov['rule'] = ('per layer, random hyper-parameters and integer inputs / parameters: Dense, DenseGeneral (axes incl. negative, multi-dim features), Einsum (5 equations incl. ellipsis), '
                     'Conv 1-D / 2-D (kernel 1-3, strides 1-3, SAME / VALID / CIRCULAR / REFLECT / CAUSAL / int / pair padding, kernel and input dilation, groups, mask, 0-2 extra batch dims), '
                     'ConvLocal, ConvTranspose (SAME / VALID, transpose_kernel), Embed + attend, avg / max / min pool, LayerNorm / RMSNorm / GroupNorm / InstanceNorm / BatchNorm (axes, '
                     'epsilon, masks, momentum incl. 0 and 1, train then inference), Dropout (rate 0 / .25 / .5 / 1, deterministic, broadcast_dims); Linen and NNX. distinct by canonical JSON hash')
  chk.cov['trusted_base'] = ['Coq 8.16.1 kernel + vm_compute', 'harness/c12.py, c12_ref.py (numpy reference), c12_coq.py, impl_c12.py', 'harness/jaxcompat.py', 'float64 arithmetic of XLA on small integers']


def check_dropout(chk, c, r):
  x = np.array(c['x'], float)
  for api in ('linen', 'nnx', 'nnx_call_rngs'):
    got = r[api]
    if 'err' in got:
      chk.violation('oracle', '%s Dropout raised %s' % (api, got['err']), {'case': c, 'msg': got.get('msg')})
      continue
    y = np.array(got['ok']['data']).reshape(got['ok']['shape'])
    if c['deterministic'] or c['rate'] == 0.0:
      ok = np.array_equal(y, x)
      what = 'is not the identity when deterministic or at rate 0'
    elif c['rate'] == 1.0:
      ok = not y.any()
      what = 'is not zero at rate 1'
    else:
      keep = 1.0 - c['rate']
      zero = (y == 0)
      ok = bool(np.all(zero | (np.abs(y - x / keep) < 1e-12)))
      what = 'does not scale the survivors by 1/(1-rate)'
      if ok and c['broadcast_dims']:
        # the mask is shared along broadcast dims
        m = ~zero
        for d in c['broadcast_dims']:
          ok = ok and bool(np.all(m == np.take(m, [0], axis=d % m.ndim)))
        what = 'does not share the mask along broadcast_dims'
    if not ok:
      chk.violation('oracle', '%s Dropout %s' % (api, what), {'case': c, 'output': got['ok']})
  # the mask depends on the key only: another input with the same key is dropped at the same positions
  if not c['deterministic'] and 0.0 < c['rate'] < 1.0 and 'ok' in r['linen'] and 'ok' in r['linen_repeat']:
    m1 = np.array(r['linen']['ok']['data']) == 0
    m2 = np.array(r['linen_repeat']['ok']['data']) == 0
    if not np.array_equal(m1, m2):
      chk.violation('oracle', 'the Dropout mask depends on the data (same key, different input, different positions dropped)', {'case': c})
  # the mask is the Bernoulli(1 - rate) draw of the key on the broadcast shape: drawn here independently for the key passed as rng=
  if 'bits_rng' in r and not c['deterministic'] and 'ok' in r.get('linen_rng', {}):
    x = np.array(c['x'], float)
    bshape = list(x.shape)
    for d in c['broadcast_dims']:
      bshape[d] = 1
    m = np.broadcast_to(np.array(r['bits_rng'], bool).reshape(bshape), x.shape)
    y = np.array(r['linen_rng']['ok']['data']).reshape(r['linen_rng']['ok']['shape'])
    if y.shape != x.shape or not np.array_equal(y != 0, m):
      chk.violation('oracle', 'Dropout(rng=key) does not drop exactly the positions where bernoulli(key, 1 - rate, broadcast shape) is False', {'case': c, 'output': r['linen_rng']['ok'], 'mask': r['bits_rng']})
  if 'ok' in r['nnx'] and 'ok' in r['nnx_call_rngs'] and r['nnx']['ok'] != r['nnx_call_rngs']['ok']:
    chk.violation('oracle', 'nnx.Dropout gives different masks for the same stream passed at construction and at call time', {'case': c})
