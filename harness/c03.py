"""C03 -- NNX split/merge round trip, filters, update, pop, clone, state on arbitrary object graphs."""
import common
import graph_prog as GP
from common import cN, cZ, cnat, cbool, clist, copt, cpair

PROOF_FILES = ['Proofs/Graph.v', 'Proofs/GraphIso.v', 'Proofs/GraphTotal.v']
ASSUMPTIONS = [
    'reference objects are nnx.Object instances and Variables; list/tuple/dict are flattened by value (a container shared by two attributes is duplicated: known finding F9)',
    'attribute names are interned in sorted order (only their order and equality matter); types, metadata dicts and static values are interned as codes',
    'Python object identity is observed through an independent DFS canonical form (impl_graph.canon) and id() sets',
]
HEADER = 'From Flaxm Require Import Lib.Harness Model.NnxFilters Model.Graph Proofs.Graph.\n' + GP.TYINFO


def gen_filters(rng):
  k = rng.randint(0, 3)
  fs = []
  for _ in range(k):
    r = rng.random()
    if r < 0.5:
      fs.append({'type': rng.choice(['Param', 'BatchStat', 'Cache', 'Intermediate', 'Custom', 'Variable'])})
    elif r < 0.65:
      fs.append({'pc': rng.choice(GP.ATTRS)})
    elif r < 0.8:
      fs.append({'any': [{'type': 'Param'}, {'type': 'Cache'}]})
    elif r < 0.9:
      fs.append({'not': {'type': 'Param'}})
    else:
      fs.append({'all': [{'type': 'Param'}, {'not': {'type': 'Custom'}}]})
  if fs and rng.random() < 0.8:
    fs.append({'ellipsis': 1})
  return fs


def run(chk):
  rng = chk.rng
  thorough = chk.tier == 'thorough'
  chk.proofs(PROOF_FILES)
  known = {k['key'] for k in common.load_known() if k['property'] == 'C03' and k.get('status') == 'known'}
  cases = []
  for i in range(6000 if thorough else 480):
    desc = GP.gen_graph(rng, 14 if thorough else 7)
    cases.append({'desc': desc, 'filters': gen_filters(rng), 'pop_filter': rng.choice([None, {'type': 'Param'}, {'type': 'BatchStat'}, {'type': 'Cache'}, {'pc': rng.choice(GP.ATTRS)}])})
  W = 12
  results = common.run_impl_parallel('impl_c03.py', [{'cases': cases[i::W]} for i in range(W)], workers=W, timeout=3000)
  obs = [None] * len(cases)
  for k, r in enumerate(results):
    for j, o in enumerate(r['cases']):
      obs[k + W * j] = o
  coq = []
  stat = {'nonexhaustive': 0, 'pop': 0}
  for c, o in zip(cases, obs):
    chk.count(c['desc'], GP.shares_or_cycles(c['desc']))
    if 'err' in o:
      chk.violation('oracle', 'the graph case could not be run: %s' % o['err'], {'case': c, 'tb': o.get('tb')})
      continue
    r = o['ok']
    heap, root = GP.cheap(c['desc']), GP.cval(c['desc']['root'])
    rows = []
    # ---- oracles
    if not r['untouched']:
      chk.violation('oracle', 'nnx.split changed the graph it was given', {'case': c})
    if 'err' in r['split']:
      chk.violation('oracle', 'nnx.split raised %s' % r['split']['err'], {'case': c, 'msg': r['split'].get('msg')})
      continue
    rt = r['roundtrip']
    if 'err' in rt or not rt['ok']['canon_equal'] or not rt['ok']['fresh']:
      chk.violation('oracle', 'merge(split(g)) is not isomorphic to g (types, statics, Variable values/metadata, or which paths reach the same object), or reuses objects of g',
                    {'case': c, 'observed': rt, 'expected_canon': r['canon']})
    rt2 = r['roundtrip'].get('ok', {})
    if rt2.get('second_merge_equal') is False or rt2.get('states_untouched') is False:
      chk.violation('oracle', 'merging the same states a second time, after the metadata and values of the first merged copy were changed in place, does not rebuild g (or the states / g changed)',
                    {'case': c, 'observed': {k: rt2.get(k) for k in ('second_merge_equal', 'states_untouched')}})
    hk = r.get('hooks', {})
    if 'err' in hk or hk['ok'] != {'raw': [[5, 7]] * 4, 'set_once': 8, 'get': 9, 'shared': True}:
      chk.violation('oracle', 'update / split / merge on Variables with on_set_value / on_get_value hooks do not move the raw values unchanged (update(g, state(g)) must be the identity; hooks '
                    'run on user access only)', {'observed': hk, 'expected': {'raw': [[5, 7]] * 4, 'set_once': 8, 'get': 9, 'shared': True}})
    if 'err' in r['clone'] or not (r['clone']['ok']['canon_equal'] and r['clone']['ok']['disjoint']):
      chk.violation('oracle', 'nnx.clone is not an isomorphic copy sharing nothing mutable with the original', {'case': c, 'observed': r['clone']})
    if 'err' not in r['update'] and not r['update']['ok']['identity_kept']:
      chk.violation('oracle', 'nnx.update replaced objects instead of updating Variables in place', {'case': c})
    sp = r['split']['ok']
    rows.append('flat_beq (flatten %s %s) (Some (%s, %s))' % (heap, root, GP.cgattr(['sub', sp['graphdef']]), GP.cflat(sp['flat'])))
    # hypotheses of C03_leaf_order_sorted / C03_merge_split_any_order hold for this graph; its leaves are in sorted order
    rows.append('(wf_heap %s && wf_value %s)' % (heap, root))
    rows.append('(match flatten %s %s with Some (_, ls) => list_beq fleaf_beq (sort_leaves ls) ls | None => false end)' % (heap, root))
    # round trip inside the model: unflatten then flatten gives the same graphdef and leaves
    rows.append('(match flatten %s %s with Some (g, ls) => match unflatten g (map snd ls) with Some (h2, v2) => flat_beq (flatten h2 v2) (Some (g, ls)) | None => false end | None => false end)' % (heap, root))
    if 'split_filters' in r:
      sf = r['split_filters']
      fsc = clist([GP.cfilt(f) for f in c['filters']])
      if 'err' in sf:
        stat['nonexhaustive'] += 1
        rows.append('(match split ti %s %s %s with None => true | Some _ => false end)' % (fsc, heap, root))
      else:
        s = sf['ok']
        if s.get('merge_unsorted_equal') is False:
          chk.violation('oracle', 'merge depends on the order of the entries inside a state (a State rebuilt from its leaves in reverse order, or built by merge_state in reverse order, '
                        'merges to another graph)', {'case': c})
        if not s['merge_equal'] or not s['merge_permuted_equal']:
          chk.violation('oracle', 'merging the states of a filtered split (in the given or in reversed order) does not rebuild the graph', {'case': c, 'observed': s})
        if s['state_buckets'] != s['buckets']:
          chk.violation('oracle', 'nnx.state(node, *filters) differs from the states of nnx.split(node, *filters)', {'case': c})
        allp = [tuple(p) for b in s['buckets'] for p, _ in b]
        if sorted(map(str, allp)) != sorted(str(tuple(p)) for p, _ in sp['flat']):
          chk.violation('oracle', 'a filtered split lost or duplicated a leaf', {'case': c, 'buckets': s['buckets']})
        rows.append('(match split ti %s %s %s with Some (_, bs) => list_beq (list_beq fleaf_beq) bs %s | None => false end)' % (
            fsc, heap, root, clist([GP.cflat(b) for b in s['buckets']])))
    if 'ok' in r['update']:
      u = r['update']['ok']
      g2, l2 = GP.canon_to_flat(u['canon'])
      varstate = [x for x in u['state_in'] if x[1][0] == 'var']
      rows.append('(match update %s %s %s with Some h2 => flat_beq (flatten h2 %s) (Some (%s, %s)) | None => false end)' % (
          heap, root, GP.cflat(varstate), root, GP.cgattr(g2), GP.cflat(l2)))
    if 'pop' in r:
      stat['pop'] += 1
      pp = r['pop']
      if 'ok' in pp:
        g3, l3 = GP.canon_to_flat(pp['ok']['canon_after'])
        popped = pp['ok']['popped']
        rows.append('(match pop ti [%s] %s %s with Some (h2, [b]) => flat_beq (flatten h2 %s) (Some (%s, %s)) && list_beq fleaf_beq (sort_leaves b) (sort_leaves %s) | _ => false end)' % (
            GP.cfilt(c['pop_filter']), heap, root, root, GP.cgattr(g3), GP.cflat(l3), GP.cflat(popped)))
      else:
        rows.append('(match pop ti [%s] %s %s with None => true | Some _ => false end)' % (GP.cfilt(c['pop_filter']), heap, root))
    coq.append((c, o, '(' + ' && '.join(rows) + ')'))
  chk.sample({'case': cases[0], 'observed_split': obs[0].get('ok', {}).get('split')})
  hdr = HEADER + 'Definition chk (b : bool) : bool := b.\n'
  bad = common.coq_mismatches('c03', hdr, [x[2] for x in coq], 'chk', shard=40, timeout=900)
  for i in bad[:8]:
    c, o, _ = coq[i]
    chk.violation('correspondence', 'Model/Graph.v and flax.nnx.graph disagree (graphdef / leaves of split, first-match buckets, update, or pop); theorems C03_* no longer transfer',
                  {'case': c, 'observed': {k: v for k, v in o['ok'].items() if k in ('split', 'split_filters', 'update', 'pop')}})
  chk.cov['traces_validated_against_impl'] = len(coq)
  pr = common.run_impl('impl_c03_probe.py', {})
  for key, what in (('F9-shared-container', 'a list held by two attributes is duplicated by merge(split(m)): m.a is m.b before, not after (pytree containers have value semantics)'),
                    ('F19-pop-leaves-aliases', 'nnx.pop(m, Param) on a Variable held by two attributes removes only the first attribute: nnx.state(m, Param) is still non-empty afterwards')):
    if pr[key]['fails']:
      if key in known:
        chk.known(key, what)
      else:
        chk.violation('oracle', what, pr[key])
  chk.notes['stats'] = stat
  chk.cov['rule'] = ('random rooted object graphs with up to %d reference objects (two Module classes, 5 Variable types incl. a subclass, metadata), attribute names that sort around each other, '
                     'self references, cycles, Variables shared between nodes and inside nested list/tuple/dict containers, array and static attributes; filter tuples (types, subclass, '
                     'path predicates, Any/All/Not, trailing ...). non-trivial = a shared reference or a cycle through the root; distinct by canonical JSON hash' % (14 if thorough else 7))
  chk.cov['trusted_base'] = ['Coq 8.16.1 kernel + vm_compute', 'harness/c03.py, graph_prog.py, impl_graph.py, impl_c03.py', 'harness/jaxcompat.py']
