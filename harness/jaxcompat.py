"""Adapters that let flax 0.10.5 (/repo) run on the installed jax 0.11.x.

They adapt *jax*, not flax, and are imported before flax by every process of the
harness that runs the implementation.  Nothing in /repo is changed by them.
Listed in the trusted base (DESIGN.md section 0.1).
"""
import functools
import jax
import jax.extend.core as _jex_core

APPLIED = []

if not hasattr(jax.core, 'get_opaque_trace_state'):
  jax.core.get_opaque_trace_state = _jex_core.get_opaque_trace_state
  APPLIED.append('get_opaque_trace_state')

_orig_jit = jax.jit


@functools.wraps(_orig_jit)
def _jit(*args, **kwargs):
  if 'abstracted_axes' in kwargs and kwargs['abstracted_axes'] is None:
    kwargs.pop('abstracted_axes')
  return _orig_jit(*args, **kwargs)


jax.jit = _jit
APPLIED.append('jit.abstracted_axes')

_orig_remat = jax.checkpoint


@functools.wraps(_orig_remat)
def _remat(*args, **kwargs):
  if 'concrete' in kwargs and not kwargs['concrete']:
    kwargs.pop('concrete')
  return _orig_remat(*args, **kwargs)


jax.checkpoint = _remat
jax.remat = _remat
APPLIED.append('remat.concrete')

if not hasattr(jax, 'device_put_sharded'):
  import jax.numpy as _jnp

  def _device_put_sharded(shards, devices):
    return jax.tree_util.tree_map(lambda *xs: _jnp.stack(xs), *shards)

  jax.device_put_sharded = _device_put_sharded
  APPLIED.append('device_put_sharded')

if not hasattr(jax, 'device_put_replicated'):
  import jax.numpy as _jnp2

  def _device_put_replicated(x, devices):
    n = len(devices)
    return jax.tree_util.tree_map(lambda a: _jnp2.stack([a] * n), x)

  jax.device_put_replicated = _device_put_replicated
  APPLIED.append('device_put_replicated')
