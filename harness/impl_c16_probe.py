import jaxcompat  # noqa: F401
import common
from flax import traverse_util as TU


def main(_):
  out = {}
  d = {'a': {'b': 1}}
  try:
    r = TU.unflatten_dict(TU.flatten_dict(d, is_leaf=lambda p, x: True))
    out['F10-root-is-leaf'] = {'fails': r != d, 'got': repr(r)}
  except Exception as e:  # pylint: disable=broad-except
    out['F10-root-is-leaf'] = {'fails': True, 'got': type(e).__name__}
  d = {'a/': {'b': 1}}
  try:
    r = TU.unflatten_dict(TU.flatten_dict(d, sep='//'), sep='//')
    out['F13-multichar-sep'] = {'fails': r != d, 'got': repr(r)}
  except Exception as e:  # pylint: disable=broad-except
    out['F13-multichar-sep'] = {'fails': True, 'got': type(e).__name__}
  return out


if __name__ == '__main__':
  common.worker_main(main)
