import jaxcompat  # noqa: F401
import common
from flax import traverse_util as TU


def main(_):
  out = {}
  d = {'a': {'b': 1}}
  try:
    r = TU.unflatten_dict(TU.flatten_dict(d, is_leaf=lambda p, x: True))
    out['F10-root-is-leaf'] = {'fails': r != d, 'got': repr(r)}
  except Exception as e:  # pylint: disable=broad-except
    out['F10-root-is-leaf'] = {'fails': True, 'got': type(e).__name__}
  d = {'a/': {'b': 1}}
  try:
    r = TU.unflatten_dict(TU.flatten_dict(d, sep='//'), sep='//')
    out['F13-multichar-sep'] = {'fails': r != d, 'got': repr(r)}
  except Exception as e:  # pylint: disable=broad-except
    out['F13-multichar-sep'] = {'fails': True, 'got': type(e).__name__}
  # leaves that are Mappings but neither dict nor FrozenDict stay leaves of flatten_dict / path_aware_map
  import types
  from collections.abc import Mapping

  class Box(Mapping):
    def __init__(self, **kw):
      self.d = dict(kw)
    def __getitem__(self, k):
      return self.d[k]
    def __iter__(self):
      return iter(self.d)
    def __len__(self):
      return len(self.d)
  bad = []
  for leaf in (types.MappingProxyType({'z': 1}), Box(u=2, v=3), Box()):
    for sep in (None, '/'):
      tree = {'params': {'w': 5, 'cfg': leaf}, 'opt': leaf}
      try:
        flat = TU.flatten_dict(tree, sep=sep)
        want = {('params', 'w'), ('params', 'cfg'), ('opt',)} if sep is None else {'params/w', 'params/cfg', 'opt'}
        if set(flat.keys()) != want or not all(v is leaf for k, v in flat.items() if k not in (('params', 'w'), 'params/w')):
          bad.append(['flatten', type(leaf).__name__, sep, sorted(map(str, flat.keys()))])
        back = TU.unflatten_dict(flat, sep=sep)
        if back['opt'] is not leaf or back['params']['cfg'] is not leaf:
          bad.append(['roundtrip', type(leaf).__name__, sep])
      except Exception as e:  # pylint: disable=broad-except
        bad.append(['flatten raised', type(leaf).__name__, sep, type(e).__name__])
    visits = []
    try:
      TU.path_aware_map(lambda p, x: visits.append(p) or x, {'params': {'w': 5, 'cfg': leaf}, 'opt': leaf})
      if sorted(visits) != [('opt',), ('params', 'cfg'), ('params', 'w')]:
        bad.append(['path_aware_map', type(leaf).__name__, sorted(visits)])
    except Exception as e:  # pylint: disable=broad-except
      bad.append(['path_aware_map raised', type(leaf).__name__, type(e).__name__])
  out['opaque_mapping_leaves'] = {'fails': bool(bad), 'bad': bad[:6]}
  return out


if __name__ == '__main__':
  common.worker_main(main)
