"""Implementation side of C17."""
import jaxcompat  # noqa: F401
import warnings
warnings.filterwarnings('ignore')
import copy
import itertools
import common
import jax
import jax.numpy as jnp
import numpy as np
import optax
from fractions import Fraction
from flax import nnx
from flax.training import train_state as ts_lib
from flax.core import freeze


def safe(fn):
  try:
    return {'ok': fn()}
  except Exception as e:  # pylint: disable=broad-except
    import traceback
    return {'err': type(e).__name__, 'msg': str(e)[:200], 'tb': traceback.format_exc()[-600:]}


def int_momentum():
  """integer 'momentum with weight decay' (exact in float64): trace' = g + trace; update = -(2g + trace + p)"""
  def init(params):
    return jax.tree_util.tree_map(jnp.zeros_like, params)

  def update(g, tr, params=None):
    u = jax.tree_util.tree_map(lambda a, b, c: -(2 * a + b + c), g, tr, params)
    tr2 = jax.tree_util.tree_map(lambda a, b: a + b, g, tr)
    return u, tr2
  return optax.GradientTransformation(init, update)


class Recorder:
  """an optax transformation that records how it was called"""

  def __init__(self, inner):
    self.inner, self.calls = inner, []

  def tx(self):
    def init(params):
      self.calls.append(('init', jax.tree_util.tree_structure(params)))
      return self.inner.init(params)

    def update(g, s, p=None):
      self.calls.append(('update', jax.tree_util.tree_structure(g), jax.tree_util.tree_structure(p)))
      return self.inner.update(g, s, p)
    return optax.GradientTransformation(init, update)


TXS = {
    'sgd': lambda: optax.sgd(0.5),
    'momentum': lambda: optax.sgd(0.25, momentum=0.5),
    'adam': lambda: optax.adam(1e-2),
    'adamw': lambda: optax.adamw(1e-2, weight_decay=0.1),
    'chain': lambda: optax.chain(optax.clip_by_global_norm(1.0), optax.scale_by_adam(), optax.scale(-0.1)),
    'schedule': lambda: optax.sgd(optax.exponential_decay(0.5, 2, 0.5)),
    'int_momentum': int_momentum,
}


DT = {'f64': jnp.float64, 'f32': jnp.float32, 'bf16': jnp.bfloat16, 'f16': jnp.float16}


def wide(x, i):
  """a float32 pseudo-random gradient (depends only on shape and step) for mixed-precision cases"""
  return jnp.sin(jnp.arange(x.size, dtype=jnp.float32).reshape(x.shape) * 1.37 + (i + 1) * 0.731).astype(jnp.float32)


def bits(tree):
  return [np.asarray(x).tobytes().hex() + ':' + str(np.asarray(x).dtype) + ':' + str(np.asarray(x).shape) for x in jax.tree_util.tree_leaves(tree)]


def mk_params(desc):
  def rec(d):
    if isinstance(d, dict) and 'v' not in d:
      return {k: rec(v) for k, v in d.items()}
    return jnp.asarray(np.array(d['v'], dtype=np.float64 if d.get('f64') else np.float32).reshape(d['shape'])).astype(DT[d['dtype']] if 'dtype' in d else (jnp.float64 if d.get('f64') else jnp.float32))
  return rec(desc)


def linen_ts(c):
  params = mk_params(c['params'])
  if c.get('frozen'):
    params = freeze(params)
  rec = Recorder(TXS[c['tx']]())
  tx = rec.tx()
  grads_seq = [jax.tree_util.tree_map(lambda x, i=i: (x * 0 + (i + 1)).astype(x.dtype) * (1 if i % 2 == 0 else -2), params) for i in range(c['steps'])]
  if c.get('wide_grads'):
    grads_seq = [jax.tree_util.tree_map(lambda x, i=i: wide(x, i), params) for i in range(c['steps'])]
  owg = c.get('owg')
  if owg:
    full = {'params': params, ts_lib.OVERWRITE_WITH_GRADIENT: {'scale': jnp.ones(2)}}
  else:
    full = params
  st = ts_lib.TrainState.create(apply_fn=None, params=full, tx=tx)
  p, o = params, TXS[c['tx']]().init(params)
  out = {'steps': [], 'old_intact': True}
  for i, g in enumerate(grads_seq):
    before = (bits(st.params), bits(st.opt_state), int(st.step))
    gfull = {'params': g, ts_lib.OVERWRITE_WITH_GRADIENT: {'scale': jnp.full(2, float(i + 5))}} if owg else g
    new = st.apply_gradients(grads=gfull)
    u, o = TXS[c['tx']]().update(g, o, p)
    p = optax.apply_updates(p, u)
    if (bits(st.params), bits(st.opt_state), int(st.step)) != before:
      out['old_intact'] = False
    got_p = new.params['params'] if owg else new.params
    out['steps'].append({
        'params_equal': bits(got_p) == bits(p), 'opt_equal': bits(new.opt_state) == bits(o), 'step': int(new.step),
        'is_new_instance': new is not st and type(new) is type(st),
        'owg_replaced': (bits(new.params[ts_lib.OVERWRITE_WITH_GRADIENT]) == bits({'scale': jnp.full(2, float(i + 5))})) if owg else True,
        'same_treedef': jax.tree_util.tree_structure(got_p) == jax.tree_util.tree_structure(p),
        'static_kept': new.tx is st.tx and new.apply_fn is st.apply_fn,
    })
    st = new
  out['tx_calls'] = [c0[0] for c0 in rec.calls]
  return out


class CustomVar(nnx.Variable):
  pass


class SubParam(nnx.Param):
  pass


VT = {'Param': nnx.Param, 'BatchStat': nnx.BatchStat, 'Custom': CustomVar, 'SubParam': SubParam}
MRO = {'Param': ['Param', 'Variable'], 'BatchStat': ['BatchStat', 'Variable'], 'Custom': ['Custom', 'Variable'], 'SubParam': ['SubParam', 'Param', 'Variable']}


class Box(nnx.Module):
  pass


def build_model(vars_desc, share):
  root = Box()
  created = {}
  for v in vars_desc:
    node = root
    for k in v['path'][:-1]:
      if not hasattr(node, k):
        setattr(node, k, Box())
      node = getattr(node, k)
    var = VT[v['type']](jnp.asarray(np.array(v['val'], dtype=np.float64)).astype(DT[v.get('dtype', 'f64')]))
    created[tuple(v['path'])] = var
    setattr(node, v['path'][-1], var)
  if share and len(vars_desc) >= 1:
    # a second attribute aliasing the first variable
    first = created[tuple(vars_desc[0]['path'])]
    root.alias = first
  root.static_attr = 'hello'
  return root, created


def dec_filter(f):
  from impl_c14_nnx import dec as d14
  import impl_c14_nnx
  impl_c14_nnx.TYPES.update({'Param': nnx.Param, 'BatchStat': nnx.BatchStat, 'Custom': CustomVar, 'SubParam': SubParam, 'Variable': nnx.Variable})
  return d14(f)


def nnx_opt(c):
  model, created = build_model(c['vars'], c.get('share'))
  wrt = dec_filter(c['wrt'])
  txf = TXS[c['tx']]
  opt = nnx.Optimizer(model, txf(), wrt=wrt)
  ids_before = {p: id(v) for p, v in created.items()}
  out = {'steps': []}
  # hand loop on a twin
  twin, tcreated = build_model(c['vars'], c.get('share'))
  p = nnx.state(twin, wrt)
  o = txf().init(p)
  for i in range(c['steps']):
    params_now = nnx.state(model, wrt)
    g = jax.tree_util.tree_map(lambda x, i=i: x * 0 + (i + 1) * (1 if i % 2 == 0 else -2), params_now)
    gt = jax.tree_util.tree_map(lambda x, i=i: x * 0 + (i + 1) * (1 if i % 2 == 0 else -2), p)
    if c.get('wide_grads'):
      # gradients wider than the parameters (mixed precision): the hand loop promotes, applies, then casts once
      g = jax.tree_util.tree_map(lambda x, i=i: wide(x, i), params_now)
      gt = jax.tree_util.tree_map(lambda x, i=i: wide(x, i), p)
    snapshot_unselected = {pth: np.asarray(v.value).tobytes() for pth, v in created.items()}
    opt.update(g)
    u, o = txf().update(gt, o, p)
    p = optax.apply_updates(p, u)
    sel_paths = {pth for pth, _ in nnx.to_flat_state(nnx.state(model, wrt))}
    unchanged = all(np.asarray(v.value).tobytes() == snapshot_unselected[pth] for pth, v in created.items()
                    if pth not in sel_paths and not (c.get('share') and pth == tuple(c['vars'][0]['path']) and ('alias',) in sel_paths))
    out['steps'].append({
        'params_equal': bits(nnx.state(model, wrt)) == bits(p),
        'opt_equal': bits(jax.tree_util.tree_map(lambda x: x, nnx.state(opt.opt_state))) == bits(o) if True else None,
        'step': int(opt.step.value),
        'unselected_unchanged': bool(unchanged),
        'identity_kept': all(id(v) == ids_before[pth] for pth, v in created.items()) and (not c.get('share') or model.alias is created[tuple(c['vars'][0]['path'])]),
        'static_kept': model.static_attr == 'hello',
        'values': [[list(pth), [float(x) for x in np.asarray(v.value).reshape(-1)]] for pth, v in created.items()],
        'opt_types': sorted({type(x).__name__ for x in jax.tree_util.tree_leaves(opt.opt_state, is_leaf=lambda y: isinstance(y, nnx.Variable))}),
    })
  sel = [list(pth) for pth, _ in nnx.to_flat_state(nnx.state(model, wrt))]
  out['selected_paths'] = sel
  return out


def nnx_trainstate(c):
  model, created = build_model(c['vars'], False)
  graphdef, params, rest = nnx.split(model, nnx.Param, ...)
  txf = TXS[c['tx']]
  st = nnx.TrainState.create(graphdef, params=params, tx=txf(), rest=rest) if False else nnx.TrainState.create(graphdef, params=params, tx=txf())
  p, o = params, txf().init(params)
  out = {'steps': [], 'old_intact': True}
  for i in range(c['steps']):
    g = jax.tree_util.tree_map(lambda x, i=i: x * 0 + (i + 1), p)
    if c.get('wide_grads'):
      g = jax.tree_util.tree_map(lambda x, i=i: wide(x, i), p)
    before = (bits(st.params), bits(st.opt_state), int(st.step))
    new = st.apply_gradients(grads=g)
    u, o = txf().update(g, o, p)
    p = optax.apply_updates(p, u)
    if (bits(st.params), bits(st.opt_state), int(st.step)) != before:
      out['old_intact'] = False
    out['steps'].append({'params_equal': bits(new.params) == bits(p), 'opt_equal': bits(new.opt_state) == bits(o), 'step': int(new.step),
                         'is_new_instance': new is not st})
    st = new
  return out


def frac(x):
  f = Fraction(float(x))
  return [f.numerator, f.denominator]


def metrics_case(c):
  stream = c['stream']
  out = {'parts': []}
  for part in c['partitions']:
    def go():
      avg, wf = nnx.metrics.Average(), nnx.metrics.Welford()
      mm = nnx.MultiMetric(a=nnx.metrics.Average('values'), w=nnx.metrics.Welford('values'))
      i = 0
      for n in part:
        batch = stream[i:i + n]
        i += n
        if n == 1 and c.get('scalar_singletons'):
          v = batch[0]
        else:
          v = jnp.asarray(np.repeat(np.array(batch, dtype=np.float32), c.get('rep', 1)))
        avg.update(values=v)
        wf.update(values=v)
        mm.update(values=v)
      st = wf.compute()
      r = {'avg': frac(avg.compute()), 'mean': frac(st.mean), 'std': frac(st.standard_deviation), 'sem': frac(st.standard_error_of_mean),
           'count': int(wf.count.value), 'mm_a': frac(mm.compute()['a']), 'mm_mean': frac(mm.compute()['w'].mean)}
      avg.reset(); wf.reset(); mm.reset()
      r['reset_ok'] = float(avg.total.value) == 0.0 and int(avg.count.value) == 0 and int(wf.count.value) == 0 and float(wf.mean.value) == 0.0 and \
          float(wf.m2.value) == 0.0 and int(mm.a.count.value) == 0
      # after reset a new stream is independent of the old one
      avg.update(values=jnp.asarray([2.0, 4.0]))
      r['after_reset'] = float(avg.compute())
      return r
    out['parts'].append(safe(go))
  return out


def accuracy_case(c):
  logits = np.array(c['logits'], dtype=np.float32)
  labels = np.array(c['labels'], dtype=np.int32)
  out = []
  for part in c['partitions']:
    def go():
      acc = nnx.metrics.Accuracy(threshold=c['threshold']) if c['threshold'] is not None else nnx.metrics.Accuracy()
      i = 0
      for n in part:
        acc.update(logits=jnp.asarray(logits[i:i + n]), labels=jnp.asarray(labels[i:i + n]))
        i += n
      return frac(acc.compute())
    out.append(safe(go))
  return out


def nnx_opt_rebuilt(c):
  """nnx.Optimizer whose object graph is rebuilt between steps by the graph machinery (nnx.jit train step, merge(split(opt)), clone), with optax
  states that are NamedTuples whose fields are not in alphabetical order (rprop): params and optimizer state follow the hand loop"""
  txs = {'adam': lambda: optax.adam(1e-2), 'rprop': lambda: optax.rprop(1e-2), 'chain_rprop': lambda: optax.chain(optax.clip(1.0), optax.rprop(1e-2)),
         'momentum': lambda: optax.sgd(0.25, momentum=0.5)}

  class Net(nnx.Module):
    def __init__(self):
      self.w = nnx.Param(jnp.asarray(np.array(c['w'], dtype=np.float64)))
      self.b = nnx.Param(jnp.asarray(np.array(c['b'], dtype=np.float64)))

  def grads_for(p, i):
    return jax.tree_util.tree_map(lambda x: (x * 0 + 1.0) * ((i + 1) * (1.0 if i % 2 == 0 else -2.0)) + 0.5 * x, p)
  model = Net()
  opt = nnx.Optimizer(model, txs[c['tx']]())
  p = nnx.state(Net(), nnx.Param)
  tx = txs[c['tx']]()
  o = tx.init(p)
  steps = []

  @nnx.jit
  def jit_step(opt, g):
    opt.update(g)
  for i in range(c['steps']):
    g = grads_for(nnx.state(opt.model, nnx.Param), i)
    if c['mode'] == 'jit':
      jit_step(opt, g)
    else:
      if c['mode'] == 'splitmerge':
        opt = nnx.merge(*nnx.split(opt))
      elif c['mode'] == 'clone':
        opt = nnx.clone(opt)
      opt.update(g)
    u, o = tx.update(grads_for(p, i), o, p)
    p = optax.apply_updates(p, u)
    a = [np.asarray(x, dtype=np.float64) for x in jax.tree_util.tree_leaves(nnx.state(opt.model, nnx.Param))]
    b = [np.asarray(x, dtype=np.float64) for x in jax.tree_util.tree_leaves(p)]
    # the optimizer state in optax's own structure (the wrapper's Variables unwrapped field by field), so that leaves pair up by field
    from flax.nnx.training.optimizer import _opt_state_variables_to_state
    oa = [np.asarray(x, dtype=np.float64) for x in jax.tree_util.tree_leaves(_opt_state_variables_to_state(opt.opt_state))]
    ob = [np.asarray(x, dtype=np.float64) for x in jax.tree_util.tree_leaves(o)]
    close = lambda xs, ys: len(xs) == len(ys) and all(x.shape == y.shape and np.allclose(x, y, rtol=1e-12, atol=1e-12) for x, y in zip(xs, ys))
    steps.append({'params_close': bool(close(a, b)), 'opt_close': bool(close(oa, ob)), 'step': int(opt.step.value)})
  return {'steps': steps}


def main(payload):
  res = {}
  if 'nnx_opt_rebuilt' in payload:
    res['nnx_opt_rebuilt'] = [safe(lambda c=c: nnx_opt_rebuilt(c)) for c in payload['nnx_opt_rebuilt']]
  for key, fn in (('linen_ts', linen_ts), ('nnx_opt', nnx_opt), ('nnx_ts', nnx_trainstate)):
    if key in payload:
      res[key] = [safe(lambda c=c: fn(c)) for c in payload[key]]
  if 'metrics' in payload:
    res['metrics'] = [metrics_case(c) for c in payload['metrics']]
  if 'accuracy' in payload:
    res['accuracy'] = [accuracy_case(c) for c in payload['accuracy']]
  return res


if __name__ == '__main__':
  common.worker_main(main)
