"""Implementation side of C05, one further family on integer modules: a module that receives bound sub-modules through its dataclass
fields (declared in any order) wrapped in nn.jit / nn.remat / an identity nn.map_variables, or handed to nn.cond / nn.switch as the
lifted module. Reference: the plain module / the Python branch."""
import jaxcompat  # noqa: F401
import warnings
warnings.filterwarnings('ignore')
from typing import Any
import common
import jax
import jax.numpy as jnp
import numpy as np
import flax
import flax.linen as nn

I64 = jnp.int64


def safe(fn):
  try:
    return {'ok': fn()}
  except Exception as e:  # pylint: disable=broad-except
    import traceback
    return {'err': type(e).__name__, 'msg': str(e)[:200], 'tb': traceback.format_exc()[-500:]}


class Lin(nn.Module):
  w: int = 1

  @nn.compact
  def __call__(self, x):
    k = self.param('k', lambda key: jnp.asarray(self.w, dtype=I64))
    n = self.variable('count', 'n', lambda: jnp.asarray(0, dtype=I64))
    n.value = n.value + 1
    return x * k + n.value


def tree(v):
  return sorted(('/'.join(str(getattr(k, 'key', k)) for k in p), int(a)) for p, a in jax.tree_util.tree_flatten_with_path(flax.core.unfreeze(v))[0])


def fields_case(c):
  """c: names (field names in declaration order), ws, order (call order), form jit|remat|map_variables|cond|switch, created (sub-modules
  built inside the parent and bound before the transform, or passed unbound from outside)"""
  names, ws = c['names'], c['ws']
  ann = {nm: Any for nm in names}

  def body(self, x):
    for nm in c['order']:
      x = getattr(self, nm)(x) * 3
    return x
  Multi = type('Multi', (nn.Module,), {'__annotations__': dict(ann), '__call__': body})
  x = jnp.asarray(c['x'], dtype=I64)
  form = c['form']

  def wrap(cls):
    if form == 'jit':
      return nn.jit(cls)
    if form == 'remat':
      return nn.remat(cls)
    if form == 'map_variables':
      return nn.map_variables(cls, ['params', 'count'], mutable=True)
    return cls

  def make_top(lifted):
    class Top(nn.Module):
      @nn.compact
      def __call__(self, x):
        subs = {nm: Lin(w=w, name='m_' + nm) for nm, w in zip(names, ws)}
        if c['created']:
          for nm in names:      # bind and create the variables outside the transform
            subs[nm](x)
        if form in ('cond', 'switch') and lifted:
          holder = Multi(**subs, name='holder')

          def run(mdl, x):
            return mdl(x)

          def other(mdl, x):
            return mdl(x) * 0 - 1
          if form == 'cond':
            return nn.cond(c['pred'], run, other, holder, x)
          return nn.switch(0 if c['pred'] else 1, [run, other], holder, x)
        if form in ('cond', 'switch'):
          holder = Multi(**subs, name='holder')
          return holder(x) if c['pred'] else holder(x) * 0 - 1
        return (wrap(Multi) if lifted else Multi)(**subs, name='holder')(x)
    return Top()

  def go(lifted):
    top = make_top(lifted)
    y, v = top.init_with_output(jax.random.key(0), x)
    y2, upd = top.apply(v, x, mutable=['count'])
    return {'init': int(y), 'vars': tree(v), 'apply': int(y2), 'upd': tree(upd)}
  return {'impl': safe(lambda: go(True)), 'ref': safe(lambda: go(False))}


def autoname_probe():
  """lifted helper methods / branch functions that create AUTO-NAMED sub-modules: identity map_variables(init=True) in decorator form, and
  nn.cond / nn.switch with an auto-named layer in every branch: the variable tree of init and the outputs are those of the plain code"""
  out = []
  const = lambda v: nn.initializers.constant(v)
  shapes = lambda t: sorted(('/'.join(str(getattr(k, 'key', k)) for k in p), tuple(a.shape)) for p, a in jax.tree_util.tree_flatten_with_path(flax.core.unfreeze(t))[0])
  x = jnp.ones((2, 3))

  def mapvars(lifted):
    def block(self, x):
      return nn.Dense(4, kernel_init=const(0.5))(x) + nn.Dense(4, kernel_init=const(0.25))(x)
    if lifted:
      block = nn.map_variables(block, 'params', init=True)

    class M(nn.Module):
      _block = block

      @nn.compact
      def __call__(self, x):
        x = nn.Dense(4, kernel_init=const(1.0))(x)
        x = self._block(x)
        return nn.Dense(2, kernel_init=const(2.0))(x)
    return M()

  def branches(kind):
    class M(nn.Module):
      @nn.compact
      def __call__(self, x, i):
        def b0(mdl, x):
          return nn.Dense(2, kernel_init=const(0.5))(x)

        def b1(mdl, x):
          return -nn.Dense(2, kernel_init=const(0.5))(x)
        if kind == 'plain':
          y = b1(self, x) if i else b0(self, x)
        elif kind == 'cond':
          y = nn.cond(i == 1, b1, b0, self, x)
        else:
          y = nn.switch(i, [b0, b1], self, x)
        return nn.Dense(1, kernel_init=const(1.0))(y)
    return M()

  def run(name, plain, lifted, *args):
    try:
      yp, vp = plain.init_with_output(jax.random.key(0), x, *args)
      yl, vl = lifted.init_with_output(jax.random.key(0), x, *args)
      ya = lifted.apply(vp, x, *args)
      out.append({'case': name, 'same_tree': shapes(vp) == shapes(vl), 'same_init_out': bool(np.allclose(yp, yl)), 'same_apply_out': bool(np.allclose(ya, plain.apply(vp, x, *args))),
                  'plain': [p for p, _ in shapes(vp)], 'lifted': [p for p, _ in shapes(vl)]})
    except Exception as e:  # pylint: disable=broad-except
      out.append({'case': name, 'err': type(e).__name__, 'msg': str(e)[:200]})
  run('map_variables(init=True) on a helper method', mapvars(False), mapvars(True))
  for kind in ('cond', 'switch'):
    for i in (0, 1):
      run('nn.%s with an auto-named layer per branch, branch %d' % (kind, i), branches('plain'), branches(kind), i)
  return out


def main(payload):
  if payload.get('autoname'):
    return {'autoname': autoname_probe()}
  return {'fields': [fields_case(c) for c in payload.get('fields', [])]}


if __name__ == '__main__':
  common.worker_main(main)
