"""Module programs shared by C01/C02/C05/C06/C07/C09/C18: generator, Coq rendering (Model/Linen.v syntax),
and the interpreter that turns a program into real flax.linen Modules (imported lazily)."""
import hashlib
import json
from common import cN, cZ, cnat, cbool, clist, copt, cpair

# 'stats' is a substring of 'batch_stats' and 'count' of 'counter': a filter given as one name must not match by containment
COLS = ['params', 'batch_stats', 'cache', 'intermediates', 'perturbations', 'counter', 'aux', 'stats', 'count']
COLCODE = {c: i for i, c in enumerate(sorted(COLS))}     # interned in alphabetical order (Model/Bridge.v sorts collections like jax.tree_map sorts dict keys)
STREAMS = ['params', 'dropout', 'noise']
NAMES = ['w', 'b', 'k', 'mean', 'count', 'h', 'sub', 'inner', 'blk']
NAMECODE = {n: i for i, n in enumerate(NAMES)}


# ---------------------------------------------------------------------------------------------
# rendering
# ---------------------------------------------------------------------------------------------
def cvec(v):
  return clist([cZ(int(x)) for x in v])


def cname(n):
  """n: ['exp', str] or ['auto', cls, k]"""
  if n[0] == 'exp':
    return '(NExp %s)' % cN(NAMECODE[n[1]])
  return '(NAuto %s %s)' % (cN(n[1]), cnat(n[2]))


def cexpr(e):
  k = e[0]
  if k == 'in':
    return 'EInput'
  if k == 'loc':
    return '(ELocal %s)' % cN(e[1])
  if k == 'const':
    return '(EConst %s)' % cvec(e[1])
  if k == 'add':
    return '(EAdd %s %s)' % (cexpr(e[1]), cexpr(e[2]))
  if k == 'mul':
    return '(EMul %s %s)' % (cexpr(e[1]), cexpr(e[2]))
  if k == 'sum':
    return '(ESum %s)' % cexpr(e[1])
  raise ValueError(e)


def cstmt(s):
  k = s[0]
  if k == 'param':
    return '(SParam %s %s %s %s)' % (cN(s[1]), cname(['exp', s[2]]), cnat(s[3]), cZ(s[4]))
  if k == 'var':
    return '(SVar %s %s %s %s %s)' % (cN(s[1]), cN(COLCODE[s[2]]), cname(['exp', s[3]]), cnat(s[4]), cZ(s[5]))
  if k == 'varset':
    return '(SVarSet %s %s %s)' % (cN(COLCODE[s[1]]), cname(['exp', s[2]]), cexpr(s[3]))
  if k == 'sow':
    return '(SSow %s %s %s)' % (cN(COLCODE[s[1]]), cname(['exp', s[2]]), cexpr(s[3]))
  if k == 'perturb':
    return '(SPerturb %s %s %s)' % (cN(s[1]), cname(['exp', s[2]]), cexpr(s[3]))
  if k == 'rng':
    return '(SRng %s)' % stream_code(s[1])
  if k == 'let':
    return '(SLet %s %s)' % (cN(s[1]), cexpr(s[2]))
  if k == 'child':
    return '(SChild %s %s %s)' % (cN(s[1]), cN(s[2]), copt(None if s[3] is None else cN(NAMECODE[s[3]])))
  if k == 'call':
    return '(SCall %s %s %s)' % (cN(s[1]), cN(s[2]), cexpr(s[3]))
  raise ValueError(s)


def cclasses(prog):
  return clist([cpair(cN(int(c)), cpair(clist([cstmt(s) for s in body]), cexpr(ret))) for c, (body, ret) in sorted(prog['classes'].items(), key=lambda kv: int(kv[0]))])


def cfilt(f):
  if isinstance(f, bool):
    return '(FBool %s)' % cbool(f)
  if isinstance(f, str):
    return '(FName %s)' % cN(COLCODE[f])
  if isinstance(f, list):
    return '(FSet %s)' % clist([cN(COLCODE[x]) for x in f])
  if isinstance(f, dict) and 'deny' in f:
    return '(FDeny %s)' % cfilt(f['deny'])
  raise ValueError(f)


def stream_code(s):
  # Model/Linen.v: make_rng falls back to the stream whose code is e_params, so the 'params' stream carries the
  # code of the 'params' collection
  return cN(COLCODE['params']) if s == 'params' else cN(STREAMS.index(s) + 100)


def cenv(prog, mutable, streams):
  # e_params = code of 'params' as a collection; the 'params' stream has its own code (100)
  return '(mkEnv %s %s %s %s %s)' % (cfilt(mutable), clist([stream_code(s) for s in streams]), cclasses(prog), cN(COLCODE['params']), cN(COLCODE['perturbations']))


def cnode(tree):
  """tree: nested dict with list leaves / {'tuple': [...]} -> node"""
  if isinstance(tree, dict) and 'tuple' in tree and len(tree) == 1:
    return '(VLeaf (STuple %s))' % clist([cvec(v) for v in tree['tuple']])
  if isinstance(tree, dict):
    return '(VNode %s)' % clist([cpair(cname(parse_name(k)), cnode(v)) for k, v in tree.items()])
  return '(VLeaf (SVec %s))' % cvec(tree)


def cvtree(vars_):
  return clist([cpair(cN(COLCODE[c]), cnode(t)) for c, t in vars_.items()])


TPREFIX = {'jit': 'Jit', 'remat': 'Checkpoint', 'mapvars': 'Map_variables'}
TCODE = {'jit': 1000, 'remat': 2000, 'mapvars': 3000}       # class code of a transformed class = code of the class + this


def parse_name(s):
  """'K3_0' -> auto; 'JitK3_0' -> auto of the transformed class; otherwise explicit"""
  off = 0
  for t, pre in TPREFIX.items():
    if s.startswith(pre + 'K'):
      off, s2 = TCODE[t], s[len(pre):]
      break
  else:
    s2 = s
  if s2.startswith('K') and s2.count('_') == 1 and s2[1:].split('_')[0].isdigit() and s2.split('_')[1].isdigit():
    return ['auto', off + int(s2[1:].split('_')[0]), int(s2.split('_')[1])]
  return ['exp', s]


# ---------------------------------------------------------------------------------------------
# generator
# ---------------------------------------------------------------------------------------------
def gen_expr(rng, locals_, depth=2):
  r = rng.random()
  if depth <= 0 or r < 0.35:
    if locals_ and rng.random() < 0.7:
      return ['loc', rng.choice(locals_)]
    return ['in'] if rng.random() < 0.7 else ['const', [rng.randint(-2, 3)]]
  if r < 0.7:
    return ['add', gen_expr(rng, locals_, depth - 1), gen_expr(rng, locals_, depth - 1)]
  if r < 0.9:
    return ['mul', gen_expr(rng, locals_, depth - 1), gen_expr(rng, locals_, depth - 1)]
  return ['sum', gen_expr(rng, locals_, depth - 1)]


def gen_program(rng, n, max_depth=3, features=None, malformed=0.0, name_pool=None, input_shaped=0.0):
  """A program: classes {id: (body, ret)}, top id.  All arrays have length n (or 1)."""
  features = features or {'param', 'var', 'varset', 'sow', 'perturb', 'rng', 'child'}
  classes = {}
  counter = [0]

  def gen_class(depth):
    cid = counter[0]
    counter[0] += 1
    body, locals_, insts, used = [], [], [], set()
    nloc = [0]

    def newloc():
      nloc[0] += 1
      return nloc[0]

    def fresh_name():
      pool = name_pool or NAMES
      cands = [x for x in pool if x not in used]
      if not cands or rng.random() < malformed:
        return rng.choice(pool)
      nm = rng.choice(cands)
      used.add(nm)
      return nm
    for _ in range(rng.randint(1, 6)):
      r = rng.random()
      if r < 0.25 and 'param' in features:
        x = newloc()
        body.append(['param', x, fresh_name(), 0 if rng.random() < input_shaped else rng.choice([n, n, 1]), rng.randint(-2, 3)])
        locals_.append(x)
      elif r < 0.40 and 'var' in features:
        x = newloc()
        col = rng.choice(['batch_stats', 'cache', 'counter', 'stats', 'count'])
        nm = fresh_name()
        body.append(['var', x, col, nm, rng.choice([n, 1]), rng.randint(0, 2)])
        locals_.append(x)
        if 'varset' in features and rng.random() < 0.7:
          body.append(['varset', col, nm, ['add', ['loc', x], gen_expr(rng, locals_, 1)]])
      elif r < 0.48 and 'sow' in features:
        body.append(['sow', rng.choice(['intermediates', 'aux']), fresh_name(), gen_expr(rng, locals_, 1)])
      elif r < 0.54 and 'perturb' in features:
        x = newloc()
        body.append(['perturb', x, fresh_name(), gen_expr(rng, locals_, 1)])
        locals_.append(x)
      elif r < 0.62 and 'rng' in features:
        body.append(['rng', rng.choice(STREAMS)])
      elif r < 0.85 and 'child' in features and depth > 0:
        if insts and rng.random() < 0.3:
          i = rng.choice(insts)           # call an existing instance again
        else:
          i = len(insts) + 1
          if rng.random() < 0.25 and counter[0] > cid + 1:
            sub = rng.randint(cid + 1, counter[0] - 1)   # reuse an already defined class (another instance of it)
          else:
            sub = gen_class(depth - 1)
          nm = fresh_name() if rng.random() < 0.4 else None
          body.append(['child', i, sub, nm])
          insts.append(i)
        x = newloc()
        body.append(['call', x, i, gen_expr(rng, locals_, 1)])
        locals_.append(x)
      else:
        x = newloc()
        body.append(['let', x, gen_expr(rng, locals_, 2)])
        locals_.append(x)
    classes[str(cid)] = (body, gen_expr(rng, locals_, 2))
    return cid
  top = gen_class(max_depth)
  return {'classes': classes, 'top': top, 'n': n}


def gen_filter(rng):
  r = rng.random()
  cols = ['params', 'batch_stats', 'cache', 'intermediates', 'counter', 'aux', 'perturbations', 'stats', 'count']
  if r < 0.15:
    return False
  if r < 0.3:
    return True
  if r < 0.5:
    return rng.choice(cols)
  if r < 0.7:
    return rng.sample(cols, rng.randint(0, 3))
  if r < 0.9:
    return {'deny': rng.choice([rng.choice(cols), rng.sample(cols, rng.randint(0, 2))])}
  return {'deny': {'deny': rng.choice(cols)}}


# ---------------------------------------------------------------------------------------------
# expected key data, computed independently of flax (hashlib + jax.random.fold_in)
# ---------------------------------------------------------------------------------------------
def suffix_hash(suffix, sep):
  m = hashlib.sha1()
  for x in suffix:
    if sep:
      m.update(b'\x00')
    if isinstance(x, str):
      m.update(x.encode('utf-8'))
    else:
      m.update(int(x).to_bytes((int(x).bit_length() + 7) // 8, 'big'))
  return int.from_bytes(m.digest()[:4], 'big')


# ---------------------------------------------------------------------------------------------
# lifted transforms (C05): annotation of programs and their plain equivalents
# ---------------------------------------------------------------------------------------------
def add_lifts(rng, prog, n, kinds=('jit', 'remat', 'mapvars'), ctl=True):
  """annotate some child statements with a class transform and add control-flow statements
  ['ctl', x, kind, branches=[(stmts, ret)], arg_expr] whose branch bodies only set variables declared before."""
  for cid, (body, ret) in list(prog['classes'].items()):
    new = []
    locals_ = []
    declared = []
    for s in body:
      if s[0] == 'child' and rng.random() < 0.6:
        s = s + [rng.choice(kinds)]
      new.append(s)
      if s[0] in ('param', 'var', 'perturb', 'let', 'call'):
        locals_.append(s[1])
      if s[0] == 'var':
        declared.append((s[2], s[3], s[4]))
      if ctl and s[0] in ('var', 'let', 'call') and rng.random() < 0.3:
        kind = rng.choice(['cond', 'switch', 'while'])
        nb = {'cond': 2, 'switch': 3, 'while': 1}[kind]
        x = max([0] + [t[1] for t in new if t[0] in ('param', 'var', 'perturb', 'let', 'call', 'ctl')]) + 1
        branches = []
        # every branch writes the same variables (lax traces all branches: an immutable collection written by any
        # branch raises under the lifted form, whatever branch is selected) and keeps their shapes
        written = [d for d in declared if rng.random() < 0.6]
        for _ in range(nb):
          stmts = []
          for col, nm, size in written:
            e = gen_expr(rng, locals_, 1)
            stmts.append(['varset', col, nm, ['add', e, ['const', [0] * n]] if size != 1 else ['sum', e]])
          branches.append([stmts, ['add', ['in'], gen_expr(rng, locals_, 1)] if rng.random() < 0.7 else ['in']])
        for col, nm, size in written:      # give the variables their declared shape before the control statement (a loop carry must keep its shape)
          e = gen_expr(rng, locals_, 1)
          new.append(['varset', col, nm, ['add', e, ['const', [0] * n]] if size != 1 else ['sum', e]])
        new.append(['ctl', x, kind, branches, ['add', gen_expr(rng, locals_, 1), ['const', [0] * n]]])
        locals_.append(x)
    prog['classes'][cid] = (new, ret)
  if rng.random() < 0.35:
    # a lifted (remat / map_variables) child with an explicit name that draws from an rng stream and is called twice
    top = str(prog['top'])
    body, ret = prog['classes'][top]
    used = {s[2] for s in body if s[0] in ('param', 'perturb')} | {s[3] for s in body if s[0] in ('var', 'child') and s[3]} | {s[2] for s in body if s[0] == 'sow'}
    free = [nm for nm in NAMES if nm not in used]
    if free:
      cid = max(int(k) for k in prog['classes']) + 1
      prog['classes'][str(cid)] = ([['rng', rng.choice(STREAMS)], ['let', 1, ['in']], ['rng', rng.choice(STREAMS)]], ['loc', 1])
      inst = max([0] + [s[1] for s in body if s[0] == 'child']) + 1
      loc = max([0] + [s[1] for s in body if s[0] in ('param', 'var', 'perturb', 'let', 'call', 'ctl')]) + 1
      body = body + [['child', inst, cid, rng.choice(free), rng.choice(['remat', 'mapvars'])], ['call', loc, inst, ['in']], ['call', loc + 1, inst, ['in']]]
      prog['classes'][top] = (body, ret)
  return prog


def gen_sel(rng):
  """the branch every cond / switch statement takes and the trip count of every while statement in one run"""
  return {'cond': rng.randint(0, 1), 'switch': rng.randint(0, 2), 'while': rng.randint(1, 3), 'post': rng.choice([None, 1, 2, -1, 3])}


def subst_in(e, z):
  if e[0] == 'in':
    return ['loc', z]
  if e[0] in ('add', 'mul'):
    return [e[0], subst_in(e[1], z), subst_in(e[2], z)]
  if e[0] == 'sum':
    return ['sum', subst_in(e[1], z)]
  return e


def plain_equivalent(prog, sel):
  """the untransformed program with the control flow resolved for the selectors sel: class transforms become classes with the
  transformed class name, cond / switch become the selected branch, while becomes its unrolling"""
  out = {'classes': {}, 'top': prog['top'], 'n': prog['n']}
  extra = {}
  for cid, (body, ret) in prog['classes'].items():
    new = []
    fresh = [10000]

    def tmp():
      fresh[0] += 1
      return fresh[0]
    for s in body:
      if s[0] == 'child' and len(s) == 5:
        tc = TCODE[s[4]] + s[2]
        extra[str(tc)] = s[2]
        new.append(['child', s[1], tc, s[3]])
      elif s[0] == 'ctl':
        _, xv, kind, branches, arg = s
        z = tmp()
        new.append(['let', z, arg])
        if kind == 'while':
          stmts, ret_b = branches[0]
          for _ in range(sel['while']):
            for t in stmts:
              new.append(['varset', t[1], t[2], subst_in(t[3], z)])
            z2 = tmp()
            new.append(['let', z2, subst_in(ret_b, z)])
            z = z2
          new.append(['let', xv, ['loc', z]])
        else:
          stmts, ret_b = branches[sel[kind]]
          for t in stmts:
            new.append(['varset', t[1], t[2], subst_in(t[3], z)])
          new.append(['let', xv, subst_in(ret_b, z)])
      else:
        new.append(s)
    if sel.get('post') is not None:
      ret = ['mul', ret, ['const', [sel['post']]]]          # every module of the run carries the closure post(y) = y * k
    out['classes'][cid] = (new, ret)
  for tc, base in extra.items():
    out['classes'][tc] = None      # filled below (a transformed class has the body of its base class)
  for tc, base in extra.items():
    out['classes'][tc] = out['classes'][str(base)]
  return out
