"""Implementation side of C08: nnx.vmap / scan / grad against the eager per-index loop, the Python loop and jax.grad."""
import jaxcompat  # noqa: F401
import warnings
warnings.filterwarnings('ignore')
import common
import jax
import jax.numpy as jnp
import numpy as np
from flax import nnx


class Box(nnx.Module):
  pass


class Custom(nnx.Param):
  pass


VT = {'Param': nnx.Param, 'BatchStat': nnx.BatchStat, 'Cache': nnx.Cache, 'Intermediate': nnx.Intermediate, 'Custom': Custom, 'Variable': nnx.Variable}


def dec_filter(f):
  import impl_c14_nnx
  impl_c14_nnx.TYPES.update(VT)
  return impl_c14_nnx.dec(f)


def build(vars_, dtype=jnp.int64):
  m = Box()
  out = []
  for v in vars_:
    node = m
    for k in v['path'][:-1]:
      if not hasattr(node, k):
        setattr(node, k, Box())
      node = getattr(node, k)
    var = VT[v['type']](jnp.asarray(np.array(v['val']), dtype=dtype))
    setattr(node, v['path'][-1], var)
    out.append(var)
  return m, out


def getvar(m, path):
  x = m
  for k in path:
    x = getattr(x, k)
  return x


def state_axes(sa):
  return nnx.StateAxes([(dec_filter(f), (nnx.Carry if s == 'carry' else s)) for f, s in sa])


def make_body(c):
  paths = [v['path'] for v in c['vars']]

  def ev(m, e, x, carry):
    k = e[0]
    if k == 'const':
      return jnp.asarray(e[1], dtype=jnp.int64)
    if k == 'x':
      return x
    if k == 'c':
      return carry
    if k == 'sum':
      return jnp.sum(getvar(m, paths[e[1]]).value)
    a, b = ev(m, e[1], x, carry), ev(m, e[2], x, carry)
    return a + b if k == 'add' else a * b

  def run(m, x, carry):
    for s in c['body']['stmts']:
      if s[0] == 'addto':
        v = getvar(m, paths[s[1]])
        v.value = v.value + ev(m, s[2], x, carry)
      elif s[0] == 'scale':
        v = getvar(m, paths[s[1]])
        v.value = v.value * s[2]
      else:
        carry = ev(m, s[1], x, carry)
    return carry, ev(m, c['body']['ret'], x, carry)
  return run


def specs_of(c, m, vars_objs):
  """the axis of each Variable as StateAxes.map_prefix decides (first matching filter); None = no match"""
  out = []
  for v in c['vars']:
    var = getvar(m, v['path'])
    got = 'nomatch'
    for f, s in c['sa']:
      if nnx.filterlib.to_predicate(dec_filter(f))(tuple(v['path']), var):
        got = s
        break
    out.append(got)
  return out


def enc_vals(m, c, specs):
  """values of the Variables in the representation of the model: whole (flat) or list of flat slices along the axis"""
  out = []
  for v, s in zip(c['vars'], specs):
    a = np.asarray(getvar(m, v['path']).value)
    if isinstance(s, int):
      a = np.moveaxis(a, s, 0)
      out.append({'slices': [[int(z) for z in a[i].reshape(-1)] for i in range(a.shape[0])]})
    else:
      out.append({'whole': [int(z) for z in a.reshape(-1)]})
  return out


def safe(fn):
  try:
    return {'ok': fn()}
  except Exception as e:  # pylint: disable=broad-except
    return {'err': type(e).__name__, 'msg': str(e)[:200]}


def vmap_case(c):
  run = make_body(c)
  xs = jnp.asarray(np.array(c['xs']), dtype=jnp.int64)

  def f(m, x):
    _, y = run(m, x, jnp.asarray(0, dtype=jnp.int64))
    return y
  m, objs = build(c['vars'])
  specs = specs_of(c, m, objs)

  def impl():
    ys = nnx.vmap(f, in_axes=(state_axes(c['sa']), 0), out_axes=0)(m, xs)
    return {'ys': [int(z) for z in np.asarray(ys)], 'vals': enc_vals(m, c, specs), 'same_objects': all(getvar(m, v['path']) is o for v, o in zip(c['vars'], objs))}

  def eager():
    # per index: a clone whose axis-group Variables hold the slice; None groups shared (same value for every index)
    m2, _ = build(c['vars'])
    if 'nomatch' in specs or any(s == 'carry' for _, s in c['sa']):
      raise ValueError('invalid spec')
    n = len(c['xs'])
    per, ys = [], []
    for i in range(n):
      mi = nnx.clone(m2)
      for v, s in zip(c['vars'], specs):
        if isinstance(s, int):
          var = getvar(mi, v['path'])
          var.value = jnp.take(var.value, i, axis=s)
      ys.append(int(f(mi, xs[i])))
      per.append(mi)
    vals = []
    for v, s in zip(c['vars'], specs):
      arrs = [np.asarray(getvar(mi, v['path']).value) for mi in per]
      if isinstance(s, int):
        vals.append({'slices': [[int(z) for z in a.reshape(-1)] for a in arrs]})
      else:
        if any((a != arrs[0]).any() for a in arrs):
          raise ValueError('broadcast state updated differently per index')
        vals.append({'whole': [int(z) for z in arrs[0].reshape(-1)]})
    return {'ys': ys, 'vals': vals, 'same_objects': True}
  return {'impl': safe(impl), 'eager': safe(eager), 'specs': specs}


def scan_case(c):
  run = make_body(c)
  xs = jnp.asarray(np.array(c['xs']), dtype=jnp.int64)
  c0 = jnp.asarray(c['c0'], dtype=jnp.int64)

  def layout_probe(m):
    # what the body can see of the LAYOUT of its Variables: a position-weighted sum over the row-major entries of every Variable
    tot = jnp.asarray(0, dtype=jnp.int64)
    for v in c['vars']:
      a = getvar(m, v['path']).value.reshape(-1)
      tot = tot + jnp.sum(a * (jnp.arange(a.shape[0], dtype=jnp.int64) % 7 + 1))
    return tot

  def f(m, carry, x):
    probe = layout_probe(m)
    carry, y = run(m, x, carry)
    return carry, (y, probe)
  m, objs = build(c['vars'])
  specs = specs_of(c, m, objs)

  def impl():
    carry, (ys, probes) = nnx.scan(f, in_axes=(state_axes(c['sa']), nnx.Carry, 0), out_axes=(nnx.Carry, 0), reverse=c['reverse'])(m, c0, xs)
    return {'carry': int(carry), 'ys': [int(z) for z in np.asarray(ys)], 'probes': [int(z) for z in np.asarray(probes)], 'vals': enc_vals(m, c, specs),
            'same_objects': all(getvar(m, v['path']) is o for v, o in zip(c['vars'], objs))}

  def eager():
    m2, _ = build(c['vars'])
    if 'nomatch' in specs:
      raise ValueError('invalid spec')
    n = len(c['xs'])
    order = list(range(n))[::-1] if c['reverse'] else list(range(n))
    carry, ys, probes = c0, [0] * n, [0] * n
    for i in order:
      whole = {}
      for j, (v, s) in enumerate(zip(c['vars'], specs)):
        if isinstance(s, int):
          var = getvar(m2, v['path'])
          whole[j] = var.value
          var.value = jnp.take(var.value, i, axis=s)
      carry, (y, pr) = f(m2, carry, xs[i])
      ys[i] = int(y)
      probes[i] = int(pr)
      for j, (v, s) in enumerate(zip(c['vars'], specs)):
        if isinstance(s, int):
          var = getvar(m2, v['path'])
          w = jnp.moveaxis(whole[j], s, 0).at[i].set(var.value)
          var.value = jnp.moveaxis(w, 0, s)
    return {'carry': int(carry), 'ys': ys, 'probes': probes, 'vals': enc_vals(m2, c, specs), 'same_objects': True}
  return {'impl': safe(impl), 'eager': safe(eager), 'specs': specs}


def grad_case(c):
  """loss over one module, or (c['two']) over two modules of the same structure, both differentiated"""
  paths = [v['path'] for v in c['vars']]
  nm = 2 if c.get('two') else 1
  nv = len(paths)

  def ev(vals, e, x):
    k = e[0]
    if k == 'const':
      return float(e[1])
    if k == 'var':
      return vals[e[1]]
    if k == 'x':
      return x
    a, b = ev(vals, e[1], x), ev(vals, e[2], x)
    return a + b if k == 'add' else a * b

  def loss(*args):
    ms, x = args[:nm], args[nm]
    for i in c['bumps']:
      v = getvar(ms[i // nv], paths[i % nv])
      v.value = v.value + 1.0
    vals = [getvar(m, p).value for m in ms for p in paths]
    l = ev(vals, c['loss'], x)
    if c['has_aux']:
      return l, vals[0] * 2.0
    return l
  x = jnp.asarray(float(c['x']))
  wrt = dec_filter(c['wrt'])

  def mods(dtype=jnp.float64):
    out = []
    for k in range(nm):
      vs = [dict(v, val=(v['val'] if k == 0 else v['val2'])) for v in c['vars']]
      out.append(build(vs, dtype=dtype))
    return out

  def impl():
    built = mods()
    ms = [m for m, _ in built]
    if nm == 1:
      argnums = nnx.DiffState(0, wrt) if c['diffstate'] else 0
    else:
      argnums = tuple(nnx.DiffState(k, wrt) for k in range(nm)) if c['diffstate'] else tuple(range(nm))
    kw = {'has_aux': True} if c['has_aux'] else {}
    if c['value_and_grad']:
      out, g = nnx.value_and_grad(loss, argnums=argnums, **kw)(*ms, x)
      value = float(out[0]) if c['has_aux'] else float(out)
      aux = float(out[1]) if c['has_aux'] else None
    else:
      g = nnx.grad(loss, argnums=argnums, **kw)(*ms, x)
      value, aux = None, None
      if c['has_aux']:
        g, a = g
        aux = float(a)
    gs = [g] if nm == 1 else list(g)
    grads = []
    for k, gk in enumerate(gs):
      for p, sv in nnx.to_flat_state(gk):
        grads.append([([k] if nm == 2 else []) + list(p), float(np.asarray(sv.value))])
    return {'value': value, 'aux': aux, 'grads': grads,
            'vals': [float(getvar(m, p).value) for m in ms for p in paths], 'same_objects': all(getvar(m, p) is o for (m, objs) in built for p, o in zip(paths, objs))}

  def ref():
    # jax.grad of the loss written as a function of the selected Variables' values
    built = mods()
    ms = [m for m, _ in built]
    allp = [(k, p) for k in range(nm) for p in paths]
    sel = [i for i, (k, p) in enumerate(allp) if nnx.filterlib.to_predicate(wrt)(tuple(p), getvar(ms[k], p))]
    vals0 = [float(getvar(ms[k], p).value) for k, p in allp]

    def pure(sel_vals):
      vals = list(map(jnp.asarray, vals0))
      for i, z in zip(sel, sel_vals):
        vals[i] = z
      vals = [v + 1.0 if i in c['bumps'] else v for i, v in enumerate(vals)]
      return ev(vals, c['loss'], x), vals
    (l, vals), g = jax.value_and_grad(pure, has_aux=True)([jnp.asarray(vals0[i]) for i in sel])
    order = sorted(range(len(sel)), key=lambda j: (allp[sel[j]][0], tuple(allp[sel[j]][1])))
    return {'value': float(l) if c['value_and_grad'] else None, 'aux': float(vals[0] * 2.0) if c['has_aux'] else None,
            'grads': [[([allp[sel[j]][0]] if nm == 2 else []) + list(allp[sel[j]][1]), float(g[j])] for j in order], 'vals': [float(v) for v in vals], 'same_objects': True}
  return {'impl': safe(impl), 'eager': safe(ref)}


def probe():
  out = {}

  class S(nnx.Module):
    def __init__(self):
      self.w = nnx.Param(jnp.arange(3.))
      self.k = nnx.Cache(jnp.asarray(5.))

  def sbody(m, c, x):
    m.k.value = m.k.value + 1.0
    c = c + x + m.k.value
    return c, c
  s, s2 = S(), S()
  sax = nnx.StateAxes({nnx.Param: 0, ...: None})
  c, ys = nnx.scan(sbody, in_axes=(sax, nnx.Carry, 0), out_axes=(nnx.Carry, 0))(s, jnp.asarray(0.), jnp.arange(3.))
  c2 = jnp.asarray(0.)
  for i in range(3):
    c2, _ = sbody(s2, c2, jnp.arange(3.)[i])
  out['F22-scan-broadcast-write-dropped'] = {'fails': float(c) != float(c2) or float(s.k.value) != float(s2.k.value), 'scan': [float(c), float(s.k.value)], 'loop': [float(c2), float(s2.k.value)]}
  # aliasing under different axis specifications must be rejected, under equal ones accepted
  m = S()

  def two(a, b):
    a.w.value = a.w.value + 1.0
    return a.w.value
  r = safe(lambda: np.asarray(nnx.vmap(two, in_axes=(nnx.StateAxes({nnx.Param: 0, ...: None}), nnx.StateAxes({nnx.Param: None, ...: None})), out_axes=0)(m, m)).tolist())
  out['alias_inconsistent'] = r
  m = S()
  r = safe(lambda: np.asarray(nnx.vmap(two, in_axes=(nnx.StateAxes({nnx.Param: 0, ...: None}), nnx.StateAxes({nnx.Param: 0, ...: None})), out_axes=0)(m, m)).tolist())
  out['alias_consistent'] = {**r, 'w': np.asarray(m.w.value).tolist()}
  # out_axes checks
  out['out_axes_none'] = safe(lambda: nnx.scan(lambda m, c: (c, m), in_axes=(nnx.StateAxes({...: None}), nnx.Carry), out_axes=(nnx.Carry, None), length=2)(S(), jnp.asarray(0.)))
  out['two_carries'] = safe(lambda: nnx.scan(lambda a, b: (a, b), in_axes=(nnx.Carry, nnx.Carry), out_axes=(nnx.Carry, nnx.Carry), length=2)(jnp.asarray(0.), jnp.asarray(0.)))
  return out


def main(payload):
  if payload.get('probe'):
    return probe()
  res = {}
  for key, fn in (('vmap', vmap_case), ('scan', scan_case), ('grad', grad_case)):
    res[key] = [fn(c) for c in payload.get(key, [])]
  return res


if __name__ == '__main__':
  common.worker_main(main)
