"""C11 -- checkpoint directory state machine: crash points, retention, step ordering, both back-ends."""
from fractions import Fraction
import common
from common import cN, cZ, cnat, cbool, clist, copt, cpair

PROOF_FILES = ['Proofs/Ckpt.v']
ASSUMPTIONS = [
    'file-system atomicity: os.rename and os.remove are atomic, open(wb)+write can be torn, rmtree is not atomic (modelled as begin/end); crash = the process dies between two '
    'such operations (injected by raising a BaseException from interposed flax.io / os / shutil functions; Orbax internals between mkdir(tmp) and rename(tmp, final) are one step)',
    'Orbax Checkpointer.save = [force: rmtree destination] + mkdir <name>.orbax-checkpoint-tmp + write + rename; validated per run against the traced operation kinds',
    'names are prefix+str(step) with a prefix that contains no digits and does not end in a sign, dot or exponent marker, so that natural_sort orders by step value (F3 otherwise)',
    'steps are compared as exact rationals (float rounding of huge or tiny steps is outside the model)',
]
HEADER = 'From Flaxm Require Import Lib.Harness Model.Ckpt.\n'


SCALE = [1]


def cq(s):
  """a step as a Coq Z, scaled by the history's common factor"""
  f = Fraction(s) * SCALE[0]
  assert f.denominator == 1, (s, SCALE)
  return cZ(int(f))


def history_scale(h):
  import math
  den = 1
  for sv in h['saves']:
    den = den * Fraction(step_repr(sv['step'])).denominator // math.gcd(den, Fraction(step_repr(sv['step'])).denominator)
  return den


def step_repr(step):
  return str(float(step['f'])) if isinstance(step, dict) else str(int(step))


def cname(cls):
  if cls[0] == 'step':
    return '(NStep %s)' % cq(cls[1])
  if cls[0] == 'tmp':
    return 'NTmp'
  if cls[0] == 'orbtmp':
    return '(NOrbTmp %s)' % cq(cls[1])
  return '(NOther %s)' % cN(abs(hash(cls[1])) % 1000)


def centry(kind, payload):
  c = 'Partial' if payload is None else '(Complete %s)' % cN(payload)
  return '(%s %s)' % ('EDir' if kind == 'dir' else 'EFile', c)


KIND = {'create': 'KCreate', 'write': 'KWrite', 'rename': 'KRename', 'remove': 'KRemove', 'rmtree_begin': 'KRmB', 'rmtree_end': 'KRmE', 'mktmpdir': 'KMk', 'filldir': 'KFill'}


def gen_history(rng, thorough):
  orbax = rng.random() < 0.5
  n = rng.randint(2, 7 if thorough else 6)
  kind = rng.choice(['int', 'int', 'float', 'mixed'])
  saves = []
  cur = rng.randint(0, 3)
  used = set()
  crash_at = rng.randrange(n) if rng.random() < 0.8 else None
  payload = rng.randint(1, 100000)
  for i in range(n):
    r = rng.random()
    if r < 0.65 or not used:
      cur += rng.randint(1, 4)
      s = cur
    elif r < 0.8:
      s = rng.choice(sorted(used))            # existing step
    else:
      s = max(-2, cur - rng.randint(1, 5))    # older step
    if kind == 'float' or (kind == 'mixed' and rng.random() < 0.4):
      f = float(s) + rng.choice([0.5, 0.25, 0.125])
      if rng.random() < 0.15:
        f = f * 1000.0
      step = {'f': repr(f)}
      val = Fraction(f)
    else:
      step = int(s)
      val = Fraction(int(s))
    if any(v == val for v in used if True) and not isinstance(step, int):
      pass
    used.add(s if isinstance(step, int) else float(step['f']))
    payload += 1
    overwrite = rng.random() < 0.25
    if orbax and overwrite and rng.random() < 0.7:
      overwrite = False     # keep most Orbax histories outside the F14 region
    saves.append({'step': step, 'payload': payload, 'keep': rng.choice([0, 1, 1, 2, 2, 3, 4]), 'overwrite': overwrite,
                  'every': rng.choice([None, None, 2, 5, 10]), 'crash': (rng.randint(0, 7) if i == crash_at else None)})
  return {'prefix': rng.choice(['checkpoint_', 'model', 'ckpt_']), 'orbax': orbax, 'saves': saves, 'async': (not orbax) and rng.random() < 0.7 and crash_at is None, 'overlap': rng.random() < 0.7,
          # the legacy back-end on the native shim of flax/io.py (what runs without tensorflow): crash points are the os / shutil primitives it is made of
          'native_io': (not orbax) and rng.random() < 0.4,
          # the second public entry point (what the examples call); single process, no multiprocess arrays
          'multiprocess': (not orbax) and rng.random() < 0.3}


def distinct_step_values(h):
  seen = {}
  for sv in h['saves']:
    v = Fraction(step_repr(sv['step']))
    r = step_repr(sv['step'])
    if v in seen and seen[v] != r:
      return False
    seen[v] = r
  return True


def in_f14_region(h, i):
  """Orbax + overwrite of an existing step, or overwrite removing newer checkpoints with a crash in that save."""
  sv = h['saves'][i]
  return h['orbax'] and sv['overwrite']


def run(chk):
  rng = chk.rng
  thorough = chk.tier == 'thorough'
  chk.proofs(PROOF_FILES)
  known = {k['key'] for k in common.load_known() if k['property'] == 'C11' and k.get('status') == 'known'}
  hs = []
  while len(hs) < (900 if thorough else 112):
    h = gen_history(rng, thorough)
    if distinct_step_values(h):
      hs.append(h)
  # overwriting the existing latest step, dying at every crash point of that save: legacy back-end, on the tensorflow-style and on the native io shim
  for native in (True, False):
    for keep in (1, 2):
      for k in range(0, 8):
        hs.append({'prefix': 'checkpoint_', 'orbax': False, 'async': False, 'overlap': False, 'native_io': native, 'multiprocess': False,
                   'saves': [{'step': 1, 'payload': 11, 'keep': keep, 'overwrite': False, 'every': None, 'crash': None},
                             {'step': 2, 'payload': 12, 'keep': keep, 'overwrite': False, 'every': None, 'crash': None},
                             {'step': 2, 'payload': 13, 'keep': keep, 'overwrite': True, 'every': None, 'crash': k},
                             {'step': 3, 'payload': 14, 'keep': keep, 'overwrite': False, 'every': None, 'crash': None}]})
  if thorough:
    # every crash point of every save of a subset of histories
    extra = []
    for h in hs[:60]:
      for i in range(len(h['saves'])):
        for k in range(0, 8):
          h2 = {**h, 'async': False, 'saves': [dict(s, crash=(k if j == i else None)) for j, s in enumerate(h['saves'])]}
          extra.append(h2)
    hs += extra
  W = 14
  payloads = [{'histories': hs[i::W]} for i in range(W)]
  payloads[0]['probes'] = True
  results = common.run_impl_parallel('impl_c11.py', payloads, workers=W, timeout=3000)
  res = [None] * len(hs)
  for k, r in enumerate(results):
    for j, o in enumerate(r['histories']):
      res[k + W * j] = o
  coq = []
  ncrash = 0
  opkinds = {}
  for h, o in zip(hs, res):
    crashed = any(s['crash'] is not None for s in h['saves'])
    chk.count({'history': h}, crashed or any(s['every'] for s in h['saves']))
    if 'err' in o:
      chk.violation('oracle', 'the save history could not be run: %s' % o['err'], {'history': h, 'tb': o.get('tb')})
      continue
    steps_payload = {}
    SCALE[0] = history_scale(h)
    prev_latest = None
    rows = []
    for i, (sv, r) in enumerate(zip(h['saves'], o['ok'])):
      for kd in r['ops']:
        opkinds[kd] = opkinds.get(kd, 0) + 1
      listed = [(e[0][1], e[1], e[2]) for e in r['snapshot'] if e[0][0] == 'step']
      api = r['api']
      was_crash = r['outcome'] == 'crash'
      if not r.get('settled', True):
        prev_latest = None
        q_every = None
      ncrash += was_crash
      f14 = in_f14_region(h, i)
      # ---- oracles on the implementation alone
      if not f14 or not was_crash:
        lat = api['latest']
        if lat is None and was_crash and prev_latest is not None and not any(in_f14_region(h, j) and o['ok'][j]['outcome'] == 'crash' for j in range(i)):
          chk.violation('oracle', 'after a crash inside save_checkpoint no checkpoint is left (latest_checkpoint is None) although step %s was the latest before the call' % prev_latest,
                        {'history': h, 'save_index': i, 'api': api, 'snapshot': r['snapshot'], 'ops': r['ops']})
        if lat is not None:
          latv = Fraction(lat)
          candidates = {prev_latest, Fraction(step_repr(sv['step']))} if was_crash else None
          if isinstance(api['restore_latest'], str) or api['restore_latest'] is None:
            if not (f14 or any(in_f14_region(h, j) and o['ok'][j]['outcome'] == 'crash' for j in range(i))):
              chk.violation('oracle', 'after %s the latest checkpoint cannot be restored (partial or temporary file listed)' % ('a crash' if was_crash else 'a save'),
                            {'history': h, 'save_index': i, 'api': api, 'snapshot': r['snapshot']})
          if was_crash and candidates is not None and latv not in candidates and not (sv['overwrite'] and prev_latest is not None and Fraction(step_repr(sv['step'])) < prev_latest):
            chk.violation('oracle', 'after a crash the latest checkpoint is neither the previous latest nor the new one', {'history': h, 'save_index': i, 'api': api})
      if not h['orbax'] and r.get('settled') and r.get('trees_ok') is False:
        chk.violation('oracle', 'a checkpoint in the directory does not restore to the tree that was saved (an empty sub-tree or a key is missing)',
                      {'history': h, 'save_index': i, 'snapshot': r['snapshot']})
      if r['outcome'] == 'saved':
        me = step_repr(sv['step'])
        mine = [x for x in listed if Fraction(x[0]) == Fraction(me)]
        newest_kept = sorted({Fraction(x[0]) for x in listed})
        if not mine and newest_kept and Fraction(me) >= newest_kept[-1]:
          chk.violation('oracle', 'a completed save of the newest step is not in the directory', {'history': h, 'save_index': i, 'snapshot': r['snapshot']})
        if mine and mine[0][2] != sv['payload']:
          chk.violation('oracle', 'restoring the step just saved does not return the tree saved', {'history': h, 'save_index': i, 'snapshot': r['snapshot']})
      if r['outcome'].startswith('exc:') and i > 0 and not h.get('async'):
        if r['snapshot'] != o['ok'][i - 1]['snapshot']:
          chk.violation('oracle', 'a rejected save changed the directory', {'history': h, 'save_index': i, 'before': o['ok'][i - 1]['snapshot'], 'after': r['snapshot']})
      if api['latest'] is not None and not isinstance(api['latest'], str):
        pass
      if api['latest'] is not None and listed:
        mx = max(Fraction(x[0]) for x in listed)
        if Fraction(api['latest']) != mx:
          chk.violation('oracle', 'latest_checkpoint is not the numerically largest step', {'history': h, 'save_index': i, 'api': api, 'listed': [x[0] for x in listed]})
      prev_latest = Fraction(api['latest']) if api['latest'] else None
      # ---- row for the model
      every = copt(None if sv['every'] is None else cq(sv['every']))
      q = '(mkReq %s %s %s %s %s %s)' % (cq(step_repr(sv['step'])), cN(sv['payload']), cnat(sv['keep']), cbool(sv['overwrite']), every, cbool(h['orbax']))
      snap = clist([cpair(cname(e[0]), centry(e[1], e[2])) for e in r['snapshot']])
      if r['outcome'] in ('saved', 'crash'):
        oc = 'OSaved'
      elif r['outcome'] in ('exc:InvalidCheckpointError', 'exc:ValueError'):
        oc = 'ORejected'
      else:
        oc = 'OOther'
        chk.violation('oracle', 'save_checkpoint raised an unexpected exception: %s %s' % (r['outcome'], r.get('msg')), {'history': h, 'save_index': i})
      lat = copt(None if api['latest'] is None else cq(api['latest']))
      rl = api['restore_latest']
      rlat = 'RNone' if rl is None else ('RBroken' if isinstance(rl, str) else '(RPayload %s)' % cN(rl))
      rows.append(cpair(q, copt(None if sv['crash'] is None else cnat(sv['crash'])), snap, oc, clist([KIND[k] for k in r['ops']]), lat, rlat, cbool(r.get('settled', True)), cbool(not (h.get('async') and h.get('overlap')))))
    if not h.get('async'):
      coq.append((h, o, clist(rows)))
    else:
      # async saves must leave the same directory as the same saves done synchronously: replayed in the model as synchronous
      coq.append((h, o, clist(rows)))
  chk.sample({'history': hs[0], 'observed': [{k: r[k] for k in ('outcome', 'ops', 'snapshot', 'api')} for r in res[0].get('ok', [])][:3]})
  hdr = HEADER + '''
Inductive okind := KCreate | KWrite | KRename | KRemove | KRmB | KRmE | KMk | KFill.
Definition kind_of (o : fsop) : okind :=
  match o with OpCreate _ => KCreate | OpWrite _ _ => KWrite | OpRename _ _ => KRename | OpRemove _ => KRemove
  | OpRmtreeBegin _ => KRmB | OpRmtreeEnd _ => KRmE | OpMkTmpDir _ => KMk | OpFillDir _ _ => KFill end.
Definition okind_beq (a b : okind) : bool :=
  match a, b with KCreate, KCreate | KWrite, KWrite | KRename, KRename | KRemove, KRemove | KRmB, KRmB | KRmE, KRmE | KMk, KMk | KFill, KFill => true | _, _ => false end.
Inductive oc := OSaved | ORejected | OOther.
Inductive rl := RNone | RBroken | RPayload (p : N).
(* contents of temporaries are not compared (never listed); everything else exactly *)
Definition entry_eqv (n : fname) (a b : entry) : bool :=
  match n with NOrbTmp _ => match a, b with EDir _, EDir _ => true | _, _ => false end | _ => entry_beq a b end.
Definition dir_eqv (a b : dir) : bool :=
  Nat.eqb (length a) (length b) &&
  forallb (fun ne => match dlookup (fst ne) b with Some e => entry_eqv (fst ne) (snd ne) e | None => false end) a.
Definition row := (req * option nat * dir * oc * list okind * option Z * rl * bool * bool)%type.
Fixpoint replay (d : dir) (rows : list row) : bool :=
  match rows with
  | [] => true
  | (q, crash, snap, o, kinds, lat, r, settled, cmpk) :: rest =>
      let '(mo, ops) := save_ops d q in
      let ops' := match crash with Some k => firstn k ops | None => ops end in
      let d' := exec_ops ops' d in
      (if settled then dir_eqv d' snap else true) &&
      (match mo, o with Saved, OSaved => true | ErrExists, ORejected | ErrOlder, ORejected => true | _, _ => false end) &&
      (if cmpk then list_beq okind_beq (map kind_of ops') kinds else true) &&
      (if negb settled then true else match latest d', lat with
       | None, None => true
       | Some (NStep s), Some s' => Z.eqb s s'
       | _, _ => false end) &&
      (if negb settled then true else match latest d', r with
       | None, RNone => true
       | Some n, RPayload p => option_beq N.eqb (restore d' n) (Some p)
       | Some n, RBroken => match restore d' n with None => true | Some _ => false end
       | _, _ => false end) &&
      replay d' rest
  end.
Definition chk (rows : list row) : bool := replay [] rows.
'''
  bad = common.coq_mismatches('c11', hdr, [x[2] for x in coq], 'chk', shard=150, timeout=900)
  for i in bad[:8]:
    chk.violation('correspondence', 'Model/Ckpt.v and flax.training.checkpoints disagree on a save history (directory contents after a save or crash, outcome, the sequence of '
                  'atomic operations, latest, or what restoring the latest returns); theorems C11_* no longer transfer',
                  {'history': coq[i][0], 'observed': [{k: r[k] for k in ('outcome', 'ops', 'snapshot', 'api')} for r in coq[i][1]['ok']]})
  chk.cov['traces_validated_against_impl'] = len(coq)
  pr = results[0]['probes']
  for key, what in (('F3-prefix-sign', "legacy back-end, prefix 'ckpt-': saving step 2 after step 1 raises InvalidCheckpointError (the '-' is parsed as a sign)"),
                    ('F14-orbax-overwrite-crash', 'Orbax back-end: overwriting an existing latest step is delete-then-write; dying in between leaves a half-deleted latest checkpoint that cannot be restored')):
    if pr[key]['fails']:
      if key in known:
        chk.known(key, what)
      else:
        chk.violation('oracle', what, pr[key])
  for b in pr.get('mixed_backends', [{'missing': True}])[:3]:
    chk.violation('oracle', 'a directory whose back-end changed in the middle of the run (Orbax directories and msgpack files under one prefix, keep=2): a save raised, retention did not '
                  'leave exactly the two newest steps, or a retained step does not restore', b)
  for b in pr.get('restore_with_target', [{'missing': True}])[:4]:
    chk.violation('oracle', 'restoring a retained step does not return exactly the tree saved at that step (train-state-like trees with lists / tuples / a namedtuple of 1-23 entries, '
                  'three steps with keep=2, restored into a template and with target=None)', b)
  chk.notes['histories'] = len(hs)
  chk.notes['saves_that_crashed'] = ncrash
  chk.notes['atomic_operation_kinds_observed'] = opkinds
  chk.notes['backends'] = {'orbax': sum(1 for h in hs if h['orbax']), 'legacy': sum(1 for h in hs if not h['orbax']), 'async': sum(1 for h in hs if h.get('async')),
                           'legacy_on_native_io_shim': sum(1 for h in hs if h.get('native_io')),
                           'save_checkpoint_multiprocess': sum(1 for h in hs if h.get('multiprocess'))}
  chk.cov['rule'] = ('random histories of 2-6 saves (ints, floats, mixed, older and existing steps), keep 1-4, keep_every_n_steps in {None,2,5,10}, overwrite, 3 prefixes, both back-ends, '
                     'AsyncManager; in ~80% of histories one save dies after k in 0..7 atomic operations (torn write included); in the thorough tier every crash point of every save '
                     'of 60 histories. Observed after every save: directory snapshot (every entry restored), outcome, operation kinds, latest_checkpoint, available_steps, restore of latest. '
                     'non-trivial = a crash or keep_every_n_steps in the history; distinct by canonical JSON hash')
  chk.cov['trusted_base'] = ['Coq 8.16.1 kernel + vm_compute', 'harness/c11.py + impl_c11.py (crash injection by interposition)', 'harness/jaxcompat.py', 'orbax-checkpoint, tensorflow gfile']
