"""C18 -- Linen<->NNX bridge wrappers behave like the module they wrap."""
import common
import linen_prog as LP
import c08 as C8
from common import cN, cZ, cnat, cbool, clist, copt, cpair

PROOF_FILES = ['Proofs/Bridge.v']
ASSUMPTIONS = [
    'Linen semantics of the wrapped module programs are those of Model/Linen.v (C01/C02); the NNX modules wrapped by ToLinen are the integer-body modules of Model/NnxLift.v',
    'variable trees are compared flat (path -> leaf), as the bridge code itself merges them',
    'programs wrapped by ToNNX do not sow (known finding F24) and the oracle is skipped when one name is used in two collections at one path (known finding F11)',
]
HEADER = 'From Flaxm Require Import Lib.Harness Model.NnxFilters Model.NnxLift Model.Filters Model.Linen Model.Bridge.\n'
TYPE2COL = {'Param': 'params', 'BatchStat': 'batch_stats', 'Cache': 'cache', 'Intermediate': 'intermediates', 'Perturbation': 'perturbations'}


def flat_paths(tree, prefix=()):
  out = []
  for k, v in tree.items():
    if isinstance(v, dict) and not ('tuple' in v and len(v) == 1):
      out += flat_paths(v, prefix + (k,))
    else:
      out.append(prefix + (k,))
  return out


def has_f11(vars_):
  seen = set()
  for col, tree in vars_.items():
    for p in flat_paths(tree):
      if p in seen:
        return True
      seen.add(p)
  return False


def csval(v):
  if isinstance(v, dict):
    return '(STuple %s)' % clist([LP.cvec(x) for x in v['tuple']])
  return '(SVec %s)' % LP.cvec(v)


def cattrs(attrs):
  return clist([cpair(clist([LP.cname(LP.parse_name(k)) for k in a['path']]), cpair(cN(LP.COLCODE[a['col']]), csval(a['val']))) for a in attrs])


def written_cols(prog):
  cols = set()
  for body, _ in prog['classes'].values():
    for s in body:
      if s[0] == 'varset':
        cols.add(s[1])
      if s[0] == 'perturb':
        cols.add('perturbations')
  return sorted(cols)


def run(chk):
  rng = chk.rng
  thorough = chk.tier == 'thorough'
  chk.proofs(PROOF_FILES)
  known = {k['key'] for k in common.load_known() if k['property'] == 'C18' and k.get('status') == 'known'}
  tn, tl = [], []
  for i in range(1500 if thorough else 150):
    n = rng.choice([1, 2, 3])
    prog = LP.gen_program(rng, n, max_depth=rng.choice([1, 2, 3]), features={'param', 'var', 'varset', 'perturb', 'rng', 'child'},
                          malformed=0.3 if i % 10 == 0 else 0.0, name_pool=['w', 'h', 'inner'] if i % 10 == 0 else None)
    wc = written_cols(prog)
    r = rng.random()
    mutable = True if r < 0.35 else (wc if r < 0.7 and wc else rng.choice([False, wc[:1], ['batch_stats'], {'deny': 'params'}]))
    tn.append({'prog': prog, 'streams': rng.choice([['params'], ['params', 'dropout'], ['params', 'dropout', 'noise']]), 'mutable': mutable,
               'xs': [[rng.randint(-3, 3) for _ in range(n)] for _ in range(rng.randint(2, 4))],
               'call_rngs': [rng.choice([None, None, rng.randint(0, 50)]) for _ in range(4)]})
  for i in range(700 if thorough else 70):
    vars_ = C8.gen_vars(rng)
    for v in vars_:
      v['type'] = rng.choice(['Param', 'Param', 'BatchStat', 'Cache', 'Custom', 'SubParam', 'SubParam', 'Queue', 'StepStat'])
      v['spec'] = 'carry'
      v['val'] = [rng.randint(-3, 4) for _ in range(rng.randint(1, 3))]
    body = C8.gen_body(rng, vars_, 'vmap')
    n = rng.randint(1, 3)
    colsw = sorted({{'Param': 'params', 'BatchStat': 'batch_stats', 'Cache': 'cache', 'Custom': 'Custom', 'SubParam': 'SubParam', 'Queue': 'Queue', 'StepStat': 'StepStat'}[vars_[s[1]]['type']] for s in body['stmts'] if s[0] in ('addto', 'scale')})
    r = rng.random()
    mutable = True if r < 0.3 else (colsw if r < 0.6 and colsw else rng.choice([False, ['batch_stats'], ['cache', 'Custom'], ['SubParam'], colsw[:1]]))
    if i % 6 == 5:
      for v in vars_:
        if rng.random() < 0.6:
          v['hook'] = True          # a per-instance on_get_value hook and no other metadata
    tl.append({'desc': {'vars': vars_, 'body': body}, 'xs': [[rng.randint(-2, 3) for _ in range(n)] for _ in range(rng.randint(2, 4))], 'mutable': mutable})
  W = 12
  results = common.run_impl_parallel('impl_c18.py', [{'tonnx': tn[i::W], 'tolinen': tl[i::W]} for i in range(W)], workers=W, timeout=3000)

  def gather(key, n):
    out = [None] * n
    for k, r in enumerate(results):
      for j, o in enumerate(r[key]):
        out[k + W * j] = o
    return out
  nres, lres = gather('tonnx', len(tn)), gather('tolinen', len(tl))
  rows = []
  stat = {'tonnx_calls': 0, 'tonnx_err': 0, 'tonnx_f11': 0, 'tolinen_calls': 0}
  for c, o in zip(tn, nres):
    nested = len(c['prog']['classes']) > 1
    chk.count({'tonnx': c}, nested and c['mutable'] is not False)
    if 'err' in o:
      chk.violation('oracle', 'the ToNNX case could not be run: %s' % o['err'], {'case': c, 'tb': o.get('tb')})
      continue
    r = o['ok']
    init, ref = r['init'], r['ref_init']
    if ('err' in init) != ('err' in ref) or ('err' in init and init['err'] != ref['err']):
      chk.violation('oracle', 'ToNNX.lazy_init and Module.init disagree on failing', {'case': c, 'tonnx': init, 'linen': ref})
      continue
    if 'err' in init:
      stat['tonnx_err'] += 1
      continue
    f11 = has_f11(ref['vars'])
    stat['tonnx_f11'] += f11
    if not f11 and init['vars'] != ref['vars']:
      chk.violation('oracle', 'the variables held by ToNNX after lazy_init differ from Module.init (values or names)', {'case': c, 'tonnx': init['vars'], 'linen': ref['vars']})
      continue
    for a in init['attrs']:
      if a['registered'] != a['col'] or a['col'] not in ref['vars']:
        chk.violation('oracle', 'a collection is not stored under the NNX Variable type registered for its name', {'case': c, 'attr': a})
    if init.get('keys') != init.get('keys_expected'):
      chk.violation('oracle', 'the keys drawn by the Linen module during ToNNX.lazy_init are not the ones the wrapper\'s rng streams hand out', {'case': c, 'got': init.get('keys'), 'expected': init.get('keys_expected')})
    top = cN(c['prog']['top'])
    row = ['(let v0 := flat_vtree %s in fm_eqv (pair_beq N.eqb sval_beq) (to_nnx v0) %s && lv_eqv (to_linen (to_nnx v0)) (flat_vtree %s))' % (
        LP.cvtree(ref['vars']), cattrs(init['attrs']), LP.cvtree(init['vars']))]
    for x, call in zip(c['xs'][1:], r['calls']):
      stat['tonnx_calls'] += 1
      impl, rf = call['impl'], call['ref']
      if not f11:
        if ('err' in impl) != ('err' in rf) or ('err' in impl and impl['err'] != rf['err']):
          chk.violation('oracle', 'a ToNNX call and Module.apply on the variables it holds disagree on failing', {'case': c, 'x': x, 'tonnx': impl, 'linen': rf})
          break
        if 'err' not in impl and (impl['out'] != rf['out'] or impl['vars'] != rf['vars']):
          chk.violation('oracle', 'a ToNNX call differs from Module.apply on the variables it holds (output, or the state after merging the updates of mutable collections)',
                        {'case': c, 'x': x, 'tonnx': impl, 'linen': rf})
          break
      if 'err' not in impl and call.get('keys_expected') is not None and impl.get('keys') != call['keys_expected']:
        chk.violation('oracle', 'the keys drawn inside a ToNNX call are not those of the rngs passed to the call (or, without them, of the wrapper\'s own streams in order)',
                      {'case': c, 'x': x, 'got': impl.get('keys'), 'expected': call['keys_expected']})
        break
      env = LP.cenv(c['prog'], c['mutable'], c['streams'])
      vb = LP.cvtree(call['vars_before'])
      if 'err' in impl:
        stat['tonnx_err'] += 1
        row.append('(match apply_m %s %s %s %s with Err _ => true | Ok _ => false end)' % (env, top, vb, LP.cvec(x)))
      else:
        row.append('(match apply_m %s %s %s %s with Ok (y, s) => vec_beq y %s && lv_eqv (to_linen (merge_updates (to_nnx (flat_vtree %s)) (flat_vtree (returned %s (s_vars s))))) (flat_vtree %s) '
                   '| Err _ => false end)' % (env, top, vb, LP.cvec(x), LP.cvec(impl['out']), vb, env, LP.cvtree(impl['vars'])))
    rows.append((('tonnx', c, o), '(' + ' && '.join(row) + ')'))
  COLOF = {'Param': 'params', 'BatchStat': 'batch_stats', 'Cache': 'cache', 'Custom': 'Custom', 'SubParam': 'SubParam', 'Queue': 'Queue', 'StepStat': 'StepStat'}
  for c, o in zip(tl, lres):
    chk.count({'tolinen': c}, c['mutable'] is not False and len(c['desc']['vars']) > 1)
    if 'err' in o:
      chk.violation('oracle', 'the ToLinen case could not be run: %s' % o['err'], {'case': c, 'tb': o.get('tb')})
      continue
    r = o['ok']
    if 'err' in r['init']:
      chk.violation('oracle', 'ToLinen.init raised %s' % r['init']['err'], {'case': c, 'msg': r['init'].get('msg')})
      continue
    if r['init']['out'] != r['ref_init']['out'] or r['init']['vars'] != r['ref_init']['vars'] or not r['init']['has_graphdef']:
      chk.violation('oracle', 'ToLinen.init does not return the NNX module\'s output / expose its Variables under the collection named after their type / store the graphdef',
                    {'case': c, 'tolinen': r['init'], 'nnx': r['ref_init']})
      continue
    vals = [v['val'] for v in c['desc']['vars']]
    keep = lambda col: c['mutable'] is True or (isinstance(c['mutable'], list) and col in c['mutable'])
    row = []
    for x, call in zip(c['xs'][1:], r['calls']):
      stat['tolinen_calls'] += 1
      impl, rf = call['impl'], call['ref']
      if 'err' in impl:
        chk.violation('oracle', 'ToLinen.apply raised %s' % impl['err'], {'case': c, 'msg': impl.get('msg')})
        break
      want_upd = {}
      for v in c['desc']['vars']:
        col = COLOF[v['type']]
        if keep(col):
          want_upd.setdefault(col, {})['/'.join(v['path'])] = rf['state_after'][col]['/'.join(v['path'])]
      if impl['out'] != rf['out'] or impl['updates'] != want_upd:
        chk.violation('oracle', 'ToLinen.apply differs from the NNX module called with the same state (output), or does not return exactly the mutable collections\' new state',
                      {'case': c, 'x': x, 'tolinen': impl, 'nnx_out': rf['out'], 'expected_updates': want_upd})
        break
      if any(v.get('hook') for v in c['desc']['vars']):
        continue        # hooks are outside the body model: oracle only
      # model: one body run on the current values
      newvals = [rf['kept'][COLOF[v['type']]]['/'.join(v['path'])] for v in c['desc']['vars']]
      if abs(impl['out']) > 10 ** 12 or any(abs(z) > 10 ** 12 for v in newvals for z in v):
        break        # int64 wrap-around region: the exact-integer body model does not apply (the oracle above still does)
      row.append('(let \'(vals2, _, y) := brun %s %s %s 0%%Z in Z.eqb y %s && list_beq (list_beq Z.eqb) (map (fun jv => if nth (fst jv) %s false then snd jv else nth (fst jv) %s []) (combine (seq 0 %d) vals2)) %s)' % (
          C8.cbody(c['desc']['body']), clist([clist([cZ(z) for z in v]) for v in vals]), cZ(sum(x)), cZ(impl['out']),
          clist([cbool(keep(COLOF[v['type']])) for v in c['desc']['vars']]), clist([clist([cZ(z) for z in v]) for v in vals]), len(vals),
          clist([clist([cZ(z) for z in v]) for v in newvals])))
      vals = newvals
    if row:
      rows.append((('tolinen', c, o), '(' + ' && '.join(row) + ')'))
  # sharding metadata of boxed Linen variables through ToNNX and back (names, logical rules, an explicit mesh); the source variables stay as they were
  mc = [{'params': [{'kind': rng.choice(['plain', 'part', 'part', 'logical']), 'rank': rng.randint(1, 2), 'mesh': rng.random() < 0.5, 'seed': rng.randint(0, 5)} for _ in range(rng.randint(1, 3))]}
        for _ in range(16 if thorough else 4)]
  mres = common.run_impl('impl_c18.py', {'meta': mc}, timeout=1500)['meta']
  for c, o in zip(mc, mres):
    chk.count({'sharding_metadata': c}, any(d['kind'] != 'plain' for d in c['params']))
    if 'err' in o:
      chk.violation('oracle', 'a Linen module with partitioned parameters could not be converted with ToNNX: %s' % o['err'], {'case': c, 'tb': o.get('tb')})
      continue
    r = o['ok']
    if r['source_after'] != r['want'] or r['spec_after'] != r['spec_before']:
      chk.violation('oracle', 'converting Linen variables to NNX attributes changed the caller\'s Linen variables (a box lost its names / rules / mesh; get_partition_spec afterwards: %s)' % r['spec_after'],
                    {'case': c, 'before': r['want'], 'after': r['source_after']})
      continue
    for k, w in r['want'].items():
      if w['type'] == 'raw':
        continue
      n = r['nnx_side'][k]
      if n['sharding'] != w['names'] or n['mesh'] != w['mesh'] or (w['rules'] is not None and n['rules'] != w['rules']):
        chk.violation('oracle', 'the NNX Variable ToNNX creates for a boxed Linen parameter does not carry its sharding metadata (names as sharding, rules as sharding_rules, mesh)',
                      {'case': c, 'param': k, 'linen_box': w, 'nnx_variable': n})
    for j, cl in enumerate(r['calls']):
      if cl['boxes'] != r['want']:
        chk.violation('oracle', 'on call %d the Linen module inside ToNNX received other boxes than linen init produces (type, names, rules or mesh lost in NNX -> Linen)' % (j + 1),
                      {'case': c, 'received': cl['boxes'], 'expected': r['want']})
      if cl['y'] != cl['y_ref']:
        chk.violation('oracle', 'ToNNX output differs from linen apply on the values the wrapper holds', {'case': c, 'observed': cl})
  # histories on the name <-> type registry itself (names and classes of their own), against Model/Bridge.v
  rg = []
  for i in range(400 if thorough else 60):
    nn_, nt_ = rng.randint(1, 3), rng.randint(1, 3)
    ops = []
    for _ in range(rng.randint(2, 8)):
      r_ = rng.random()
      if r_ < 0.45:
        ops.append(['reg', rng.choice(list(range(nn_)) + [100 + rng.randrange(nt_)]), rng.randrange(nt_), rng.random() < 0.5])
      elif r_ < 0.8:
        ops.append(['name_of', rng.randrange(nt_), rng.random() < 0.5])
      else:
        ops.append(['type_of', rng.choice(list(range(nn_)) + [100 + rng.randrange(nt_)])])
    rg.append({'nnames': nn_, 'ntypes': nt_, 'ops': ops})
  rres = common.run_impl('impl_c18.py', {'registry': rg, 'uid': chk.seed % 1000})['registry']
  for c, o in zip(rg, rres):
    chk.count({'registry': c}, any(op[0] == 'reg' and op[3] for op in c['ops']))
    if 'err' in o:
      chk.violation('oracle', 'a registry history raised %s' % o['err'], {'case': c, 'tb': o.get('tb')})
      continue
    hist = []
    for op, g in zip(c['ops'], o['ok']):
      cop = ('(ROReg %s %s %s)' % (cN(op[1]), cN(op[2]), cbool(op[3]))) if op[0] == 'reg' else \
            ('(RONameOf %s %s %s)' % (cN(op[1]), cN(100 + op[1]), cbool(op[2]))) if op[0] == 'name_of' else '(ROTypeOf %s)' % cN(op[1])
      obs = {'ok': 'OOk', 'err': 'OErr'}.get(g[0]) or ('(OName %s)' % cN(g[1] if g[1] >= 0 else 999) if g[0] == 'name' else '(OType %s)' % cN(g[1] if g[1] >= 0 else 999))
      hist.append(cpair(cop, obs))
    rows.append((('registry', c, o), '(reg_run [] %s)' % clist(hist)))
  chk.sample({'tonnx_case': tn[0], 'observed': nres[0].get('ok', {}).get('init')})
  hdr = HEADER + 'Open Scope Z_scope.\nDefinition chk (b : bool) : bool := b.\n'
  bad = common.coq_mismatches('c18', hdr, [r[1] for r in rows], 'chk', shard=30, timeout=900)
  for i in bad[:8]:
    kind, c, o = rows[i][0]
    chk.violation('correspondence', 'Model/Bridge.v (%s) and flax.nnx.bridge disagree; theorems C18_* no longer transfer' % kind, {'case': c, 'observed': o})
  chk.cov['traces_validated_against_impl'] = len(rows)
  pr = common.run_impl('impl_c18.py', {'probe': True})
  for key, what in (('F11-same-name-two-collections', 'a Linen module that uses one name in two collections (param w and variable stats/w) loses one of them inside ToNNX: the next call fails or computes with the wrong value'),
                    ('F24-tonnx-sown-tuples', 'ToNNX around a module that sows: after a call with mutable=[\'intermediates\'] the wrapper holds a tuple of Variables and the next call raises ValueError (Cannot infer collection name)'),
                    ('F23-tonnx-nested-mutable-drops-params', 'ToNNX with mutable collections on a module nested two levels deep drops the parameters of the inner module (fixed)')):
    if pr[key]['fails']:
      if key in known:
        chk.known(key, what)
      else:
        chk.violation('oracle', what, pr[key])
  for b in pr.get('sow_reduce_histories', [{'missing': True}])[:3]:
    chk.violation('oracle', 'ToNNX over a history of calls: the wrapper does not return / hold what Linen apply returns on the variables it held '
                  '(running statistics kept with sow(reduce_fn=...) and a mutable batch_stats counter)', b)
  for b in pr.get('tolinen_skip_rng', [{'missing': True}])[:3]:
    chk.violation('oracle', 'ToLinen(skip_rng=True) around an NNX module that owns RNG streams does not return what the NNX module returns with the same state and the stream key of the apply call', b)
  for b in pr.get('tolinen_partition_specs', [{'missing': True}])[:4]:
    chk.violation('oracle', 'ToLinen: the partition specs of the Linen variables differ from those of the wrapped NNX module (per-variable sharding_rules combined with the '
                  'nn.logical_axis_rules context)', b)
  chk.notes['stats'] = stat
  chk.cov['rule'] = ('ToNNX around random Linen module programs (C01 generator without sow; nested sub-modules, variables of 9 collections incl. unregistered names, perturb, make_rng, name clashes '
                     'in every tenth) x mutable in {True, written collections, subsets, False, DenyList} x 1-3 calls after lazy_init; ToLinen around NNX modules with 1-5 Variables of 4 types '
                     '(nested paths) and integer bodies x mutable sets x 1-3 applies after init. non-trivial = nested module with mutable collections / more than one Variable')
  chk.cov['trusted_base'] = ['Coq 8.16.1 kernel + vm_compute', 'harness/c18.py, impl_c18.py, linen_prog.py, impl_linen.py, c08.py', 'harness/jaxcompat.py']
