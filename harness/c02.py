"""C02 -- the variable tree mirrors the module tree; init, apply and shape-only init agree."""
import common
import linen_prog as LP
import c01
from common import cN, cZ, cnat, cbool, clist, copt, cpair

PROOF_FILES = ['Proofs/Linen.v', 'Proofs/LinenInit.v', 'Proofs/LinenChild.v', 'Proofs/LinenShape.v']
ASSUMPTIONS = c01.ASSUMPTIONS + [
    'PARTIAL: proved are the name-clash, missing/wrong-shape-parameter and auto-naming facts of the reference semantics; "apply(init(...)) needs no initialisation and keeps the '
    'paths", the standalone-child equality and the shape-only agreement are carried by the correspondence (the model predicts each of them) and by oracles',
]
HEADER = c01.HEADER


def has(prog, kinds):
  return any(s[0] in kinds for body, _ in prog['classes'].values() for s in body)


def paths(tree, prefix=()):
  out = []
  for k, v in tree.items():
    if isinstance(v, dict) and not ('tuple' in v and len(v) == 1):
      out += paths(v, prefix + (k,))
    else:
      out.append(prefix + (k,))
  return sorted(out)


def gen_shared(rng):
  """an instance graph: leaves and wrappers (wrappers of wrappers), passed as fields of one parent, some of them to several places"""
  insts = [{'kind': 'leaf', 'w': rng.randint(1, 3)} for _ in range(rng.randint(1, 3))]
  for _ in range(rng.randint(0, 3)):
    insts.append({'kind': 'wrap', 'inner': rng.randrange(len(insts)), 'w': rng.randint(0, 2)})
  if rng.random() < 0.5:
    # a node with two children: one instance can then be reached twice inside one field's own subtree, at depth >= 2
    for _ in range(rng.randint(1, 2)):
      i1 = rng.randrange(len(insts))
      i2 = i1 if rng.random() < 0.3 else rng.randrange(len(insts))
      if rng.random() < 0.5:
        insts.append({'kind': 'wrap', 'inner': i1, 'w': rng.randint(0, 2)})
        insts.append({'kind': 'wrap', 'inner': i2 if i2 != i1 or rng.random() < 0.5 else i1, 'w': rng.randint(0, 2)})
        i1, i2 = len(insts) - 2, len(insts) - 1
      insts.append({'kind': 'pair', 'inner': i1, 'inner2': i2, 'w': rng.randint(0, 2)})
  names = ['a', 'b', 'c', 'd'][:rng.randint(2, 4)]
  fields = {f: rng.randrange(len(insts)) for f in names}
  if insts[-1]['kind'] == 'pair' and rng.random() < 0.7:
    fields[rng.choice(names)] = len(insts) - 1
  if rng.random() < 0.6:
    # make sure something is shared: two fields reach the same leaf, directly or through wrappers
    f1, f2 = rng.sample(names, 2)
    tgt = fields[f1]
    while insts[tgt]['kind'] != 'leaf' and rng.random() < 0.7:
      tgt = insts[tgt]['inner']
    if rng.random() < 0.5:
      insts.append({'kind': 'wrap', 'inner': tgt, 'w': rng.randint(0, 2)})
      fields[f2] = len(insts) - 1
    else:
      fields[f2] = tgt
  calls = [rng.choice(names) for _ in range(rng.randint(2, 5))]

  def chain(i):
    out = [i]
    while insts[out[-1]]['kind'] != 'leaf':
      out.append(insts[out[-1]]['inner'])
    return out
  pairs = []
  for i, f1 in enumerate(names):
    for f2 in names[i + 1:]:
      c1, c2 = chain(fields[f1]), chain(fields[f2])
      for d1, o1 in enumerate(c1):
        for d2, o2 in enumerate(c2):
          if o1 == o2:
            pairs.append([f1, f2, [d1, d2]])
  return {'insts': insts, 'fields': fields, 'calls': calls, 'x': rng.randint(-2, 3), 'identity_pairs': pairs[:4]}


def shared_reference(c, rounds):
  """evaluates the instance graph by identity: one parameter and one call counter per instance"""
  counts = {}
  ys = []

  def call(i, x):
    d = c['insts'][i]
    counts[i] = counts.get(i, 0) + 1
    if d['kind'] == 'leaf':
      return x * d['w'] + counts[i]
    n = counts[i]
    if d['kind'] == 'pair':
      return call(d['inner2'], call(d['inner'], x)) + d['w'] + n
    return call(d['inner'], x) * 2 + d['w'] + n
  snaps = []
  for _ in range(rounds):
    x = c['x']
    for f in c['calls']:
      x = call(c['fields'][f], x)
    ys.append(x)
    snaps.append(dict(counts))
  return ys, snaps


def gen_copy(rng):
  """a template module (with module-valued fields of its own) stamped out several times with Module.copy()"""
  def desc(depth):
    r = rng.random()
    if depth <= 0 or r < 0.3:
      return {'kind': 'leaf', 'w': rng.randint(1, 3)}
    if r < 0.75:
      return {'kind': 'wrap', 'inner': desc(depth - 1), 'w': rng.randint(0, 2)}
    return {'kind': 'pair', 'inner': desc(depth - 1), 'inner2': desc(depth - 1), 'w': rng.randint(0, 2)}
  t = desc(rng.randint(1, 3))
  names = [rng.choice([None, None, 'layer_%d' % i, 'blk%d' % i]) for i in range(rng.randint(2, 4))]
  cls = {'leaf': 'Leaf', 'wrap': 'Wrap', 'pair': 'Pair'}[t['kind']]
  k, resolved = 0, []
  for nm in names:
    if nm is None:
      resolved.append('%s_%d' % (cls, k))
      k += 1
    else:
      resolved.append(nm)
  x = rng.randint(-2, 3)

  def ev(d, x, n):
    if d['kind'] == 'leaf':
      return x * d['w'] + n
    if d['kind'] == 'wrap':
      return ev(d['inner'], x, n) * 2 + d['w'] + n
    return ev(d['inner2'], ev(d['inner'], x, n), n) + d['w'] + n

  def paths(d, prefix):
    out = [['/'.join(prefix), d['w']]]
    if d['kind'] != 'leaf':
      out += paths(d['inner'], prefix + ['inner'])
    if d['kind'] == 'pair':
      out += paths(d['inner2'], prefix + ['inner2'])
    return out
  ys, inputs = [], []
  for n in (1, 2):
    v, ins = x, []
    for _ in names:
      ins.append(v)
      v = ev(t, v, n)
    ys.append(v)
    inputs.append(ins)
  want_params = sorted(p for nm in resolved for p in paths(t, [nm]))
  alone = [ev(t, xin, 2) for xin in inputs[1]]
  return {'template': t, 'names': names, 'resolved_names': resolved, 'x': x, 'inputs_apply': inputs[1],
          'want': {'y_init': ys[0], 'y_apply': ys[1], 'params': want_params, 'alone': alone}}


def run_copy(chk):
  rng = chk.rng
  n = 300 if chk.tier == 'thorough' else 36
  cases = [gen_copy(rng) for _ in range(n)]
  W = 6
  results = common.run_impl_parallel('impl_c02_shared.py', [{'cases': cases[i::W]} for i in range(W)], workers=W, timeout=1500)
  obs = [None] * len(cases)
  for k, r in enumerate(results):
    for j, o in enumerate(r['cases']):
      obs[k + W * j] = o
  for c, o in zip(cases, obs):
    chk.count({'copy_family': c}, c['template']['kind'] != 'leaf')
    if 'err' in o:
      chk.violation('oracle', 'a parent stamping out copies of a template module with Module.copy() could not be initialised / applied: %s %s' % (o['err'], o.get('msg')), {'case': c, 'tb': o.get('tb')})
      continue
    r, w = o['ok'], c['want']
    what = None
    if sorted(r['params']) != w['params']:
      what = 'the variables of the copies do not sit under each copy\'s own name (every copy is an independent submodule with its own nested submodules)'
    elif sorted(p for p, _ in r['counts']) != [p for p, _ in w['params']] or any(v != 1 for _, v in r['counts']):
      what = 'after init every module instance of every copy must have been called exactly once with its own counter'
    elif r['y_init'] != w['y_init']:
      what = 'init output differs from the reference (independent copies of the template applied in sequence)'
    elif r['y_apply'] != w['y_apply'] or any(v != 2 for _, v in r['counts_apply']):
      what = 'apply on the variables of init does not continue from them'
    elif r['shape_paths'] != [p for p, _ in w['params']]:
      what = 'eval_shape(init) gives another parameter tree than init'
    elif r['alone'] != w['alone']:
      what = 'a copy applied on its own subtree does not compute what it computes inside its parent'
    if what:
      chk.violation('oracle', 'Module.copy(): ' + what, {'case': c, 'observed': r})
  chk.notes['copy_family'] = {'cases': len(cases)}
  ss = common.run_impl('impl_c02_shared.py', {'share_scope': True}, timeout=600)['share_scope']
  chk.count({'share_scope': 1}, True)
  if ss['no_clash'] != {'y': 8.0, 'shapes': ['params/Base_0/extra/kernel', 'params/Base_0/proj/kernel']}:
    chk.violation('oracle', 'nn.share_scope without a name clash: the moved child and the base\'s own child do not sit side by side under the base\'s name (or the output is wrong)', {'observed': ss['no_clash']})
  for k in ('clash_base_first', 'clash_wrapper_first'):
    if 'raised' not in ss[k]:
      chk.violation('oracle', 'nn.share_scope moved a child into a scope that already has a child of that name and nothing raised (%s): two sub-modules silently share one set of variables' % k,
                    {'observed': ss[k]})


def run_shared(chk):
  rng = chk.rng
  n = 600 if chk.tier == 'thorough' else 60
  cases = [gen_shared(rng) for _ in range(n)]
  W = 6
  results = common.run_impl_parallel('impl_c02_shared.py', [{'cases': cases[i::W]} for i in range(W)], workers=W, timeout=1500)
  obs = [None] * len(cases)
  for k, r in enumerate(results):
    for j, o in enumerate(r['cases']):
      obs[k + W * j] = o
  nshared = 0
  for c, o in zip(cases, obs):
    shared = len(c['identity_pairs']) > 0
    nshared += shared
    chk.count({'shared_attr': c}, shared)
    if 'err' in o:
      chk.violation('oracle', 'a module with submodule instances passed as attributes (shared between parents) could not be initialised / applied / bound: %s %s' % (o['err'], o.get('msg')),
                    {'case': c, 'tb': o.get('tb')})
      continue
    r = o['ok']
    ys, snaps = shared_reference(c, 2)
    what = None
    if r['y_init'] != ys[0]:
      what = 'init output differs from the instance graph evaluated by identity (one set of variables per instance)'
    elif sorted(v for _, v in r['counts']) != sorted(snaps[0].values()):
      what = 'the call counters after init are not one per module instance (an instance shared by reference got several sets of variables, or two instances share one)'
    elif len(r['params']) != len(snaps[0]):
      what = 'the number of parameter sets differs from the number of distinct module instances that were called'
    elif r['y_apply'] != ys[1] or sorted(v for _, v in r['counts_apply']) != sorted(snaps[1].values()):
      what = 'apply on the variables of init does not continue from them (output or counters differ from the reference)'
    elif sorted(p for p, _ in r['counts']) != sorted(p for p, _ in r['counts_apply']) or sorted(p for p, _ in r['counts']) != sorted(p for p, _ in r['params']):
      what = 'init and apply disagree on the variable paths'
    elif not all(r['same']):
      what = 'bind() gives two different objects for one submodule instance reachable from two attributes'
    elif 'err' in r['unbind']:
      what = 'bind(variables).unbind() hands back a module that cannot be initialised or applied to the variables it returns: %s %s' % (r['unbind']['err'], r['unbind'].get('msg'))
    elif not r['unbind']['vars_same']:
      what = 'unbind() returns other variables than the module was bound to'
    elif (r['unbind']['y_init'], sorted(r['unbind']['counts']), sorted(r['unbind']['params'])) != (r['y_init'], sorted(r['counts']), sorted(r['params'])):
      what = 'init of the module handed back by bind().unbind() differs from init of the original (output, or the variable tree: sharing by reference was not kept)'
    elif (r['unbind']['y_apply'], sorted(r['unbind']['counts_apply'])) != (r['y_apply'], sorted(r['counts_apply'])):
      what = 'apply of the module handed back by bind().unbind() on the returned variables differs from apply of the original'
    else:
      def reach(i):
        d = c['insts'][i]
        return {i} | (reach(d['inner']) if d['kind'] != 'leaf' else set()) | (reach(d['inner2']) if d['kind'] == 'pair' else set())
      for f, sr in r['unbind_sub'].items():
        if c['fields'][f] not in {c['fields'][g] for g in c['calls']} or any(c['fields'][g] != c['fields'][f] and reach(c['fields'][g]) & reach(c['fields'][f]) for g in c['fields']):
          continue      # never called (no variables), or an instance it uses is shared with another field: its variables may live outside this field's own subtree
        if 'err' in sr:
          what = 'a submodule taken out of a bound tree with unbind() cannot be applied to / initialised like the subtree it returns (%s): %s %s' % (f, sr['err'], sr.get('msg'))
        elif sr['paths_bound'] != sr['paths_fresh']:
          what = 'a submodule taken out of a bound tree with unbind() initialises another variable tree than the subtree unbind() returned (%s)' % f
    if what:
      chk.violation('oracle', what, {'case': c, 'observed': r, 'reference_outputs': ys, 'reference_counts': snaps})
  chk.notes['shared_attribute_modules'] = {'cases': len(cases), 'with_sharing': nshared}


def run(chk):
  rng = chk.rng
  thorough = chk.tier == 'thorough'
  chk.proofs(PROOF_FILES)
  run_shared(chk)
  run_copy(chk)
  cases = []
  for i in range(4000 if thorough else 280):
    n = rng.choice([1, 2, 3])
    prog = LP.gen_program(rng, n, max_depth=rng.choice([1, 2, 3, 4] if thorough else [1, 2, 3]), malformed=0.15 if i % 6 == 0 else 0.0,
                           name_pool=['w', 'inner', 'h'] if i % 12 == 0 else None, input_shaped=0.35 if i % 4 == 1 else 0.0)
    streams = rng.choice([['params'], ['params', 'dropout'], ['params', 'dropout', 'noise']])
    cases.append({'prog': prog, 'x': [rng.randint(-3, 3) for _ in range(n)], 'child_x': [rng.randint(-3, 3) for _ in range(n)], 'streams': streams, 'pick': rng.randint(0, 20)})
  # one module instance with an input-shaped parameter (a Dense-like kernel) called twice with inputs of different widths, directly and one
  # level deeper: the second call finds a wrongly shaped parameter -- during init as well as during apply
  for depth in (1, 2):
    for n in (2, 3):
      leaf = ([['param', 1, 'w', 0, rng.randint(1, 3)]], ['mul', ['loc', 1], ['in']])
      if depth == 1:
        classes = {'0': ([['child', 1, 1, 'sub'], ['call', 1, 1, ['in']], ['call', 2, 1, ['sum', ['in']]]], ['add', ['loc', 1], ['loc', 2]]), '1': leaf}
      else:
        classes = {'0': ([['child', 1, 1, 'blk'], ['call', 1, 1, ['in']], ['call', 2, 1, ['sum', ['in']]]], ['add', ['loc', 1], ['loc', 2]]),
                   '1': ([['child', 1, 2, None], ['call', 1, 1, ['in']]], ['loc', 1]), '2': leaf}
      cases.append({'prog': {'classes': classes, 'top': 0, 'n': n}, 'x': [rng.randint(1, 3) for _ in range(n)], 'child_x': [1] * n, 'streams': ['params'], 'pick': 0})
  W = 14
  results = common.run_impl_parallel('impl_c02.py', [{'cases': cases[i::W]} for i in range(W)], workers=W, timeout=3000)
  obs = [None] * len(cases)
  for k, r in enumerate(results):
    for j, o in enumerate(r['cases']):
      obs[k + W * j] = o
  coq = []
  stats = {'init_err': 0, 'name_clash': 0, 'standalone': 0, 'missing_param': 0}
  for c, o in zip(cases, obs):
    if 'err' in o:
      chk.violation('oracle', 'the module program could not be run: %s' % o['err'], {'case': c, 'tb': o.get('tb')})
      continue
    r = o['ok']
    prog = c['prog']
    nested = any(s[0] == 'child' for body, _ in prog['classes'].values() for s in body)
    chk.count(c, nested and has(prog, {'param'}))
    top, x = cN(prog['top']), LP.cvec(c['x'])
    env_init = LP.cenv(prog, {'deny': 'intermediates'}, c['streams'])
    rows = ['(agree %s %s [] %s %s)' % (env_init, top, x, c01.cexp(r['init'], True))]
    if 'err' in r['init']:
      stats['init_err'] += 1
      if r['init']['err'] in ('ENameInUse', 'EDuplicateName'):
        stats['name_clash'] += 1
      coq.append((c, o, rows[0]))
      continue
    vars_init = r['init']['vars']
    cv = LP.cvtree(vars_init)
    writes = has(prog, {'varset', 'sow', 'perturb'})
    # ---- oracles
    ai = r['apply_immutable']
    if not writes:
      if 'err' in ai:
        chk.violation('oracle', 'apply on the variables returned by init raised %s (no further initialisation should be needed)' % ai['err'], {'case': c})
      elif ai['out'] != r['init']['out']:
        chk.violation('oracle', 're-applying the variables returned by init does not reproduce init\'s output', {'case': c, 'init_out': r['init']['out'], 'apply_out': ai['out']})
    if r['apply_immutable_param_inits'] or r['apply_like_init_param_inits']:
      chk.violation('oracle', 'apply called a parameter initialiser although the parameter was supplied', {'case': c})
    al = r['apply_like_init']
    input_shaped_after_write = has(prog, {'varset'}) and any(s_[0] == 'param' and s_[3] == 0 for body_, _ in prog['classes'].values() for s_ in body_)
    if 'err' in al and al['err'] in ('EParamShape', 'EParamNotFound', 'ECollectionNotFound') and not input_shaped_after_write:
      chk.violation('oracle', 'init succeeded, but apply on exactly the variables it returned (same inputs, same mutable collections) raised %s: a parameter init accepted is missing or '
                    'wrongly shaped for apply' % al['err'], {'case': c, 'init': r['init']})
    if 'err' not in al and al['vars'] is not None:
      if paths(al['vars']) != paths(vars_init):
        chk.violation('oracle', 'apply created, dropped or renamed a variable compared with what init returned', {'case': c, 'init_paths': paths(vars_init), 'apply_paths': paths(al['vars'])})
    for key, errs in (('missing_param', ('EParamNotFound', 'ECollectionNotFound')), ('wrong_shape_param', ('EParamShape',))):
      if key in r:
        stats['missing_param'] += 1
        res = r[key]['result']
        if 'err' not in res:
          chk.violation('oracle', 'a %s parameter did not raise (it was re-initialised or accepted)' % key.split('_')[0], {'case': c, 'path': r[key]['path'], 'result': res})
        elif res['err'] not in errs and not res['err'].startswith('EOther') and not writes:
          chk.violation('oracle', 'a %s parameter raised an unrelated error %s' % (key.split('_')[0], res['err']), {'case': c, 'path': r[key]['path']})
        env_f = LP.cenv(prog, False, c['streams'])
        rows.append('(agree %s %s %s %s %s)' % (env_f, top, LP.cvtree(r[key]['vars_in']), x, c01.cexp(res, False)))
    for key in ('eval_shape', 'jit_init', 'lazy_init'):
      s = r[key]
      if key == 'lazy_init' and writes:
        continue      # lazy_init refuses variables whose initial value depends on the input data (documented LazyInitError)
      if 'err' in s:
        chk.violation('oracle', 'shape-only initialisation (%s) raised %s although concrete init succeeds' % (key, s['err']), {'case': c})
      elif s['ok'] != r['concrete_shapes']:
        chk.violation('oracle', 'shape-only initialisation (%s) yields another tree structure / shapes / dtypes than concrete init' % key, {'case': c, 'shape_only': s['ok'], 'concrete': r['concrete_shapes']})
    if 'standalone' in r:
      stats['standalone'] += 1
      st, ins = r['standalone'], r['inside_parent']
      a, b = st['result'], ins
      if ('err' in a) != ('err' in b) or ('err' not in a and a['out'] != b['out']):
        chk.violation('oracle', 'a submodule applied on its own sub-tree does not compute what it computes inside a parent', {'case': c, 'standalone': a, 'inside_parent': b})
      if 'err' not in a and 'err' not in b and a['vars'] is not None and b['vars'] is not None:
        inner = {col: t.get(st['name']) for col, t in b['vars'].items() if isinstance(t, dict) and st['name'] in t}
        if {k: v for k, v in a['vars'].items() if v != {}} != {k: v for k, v in inner.items() if v != {}}:
          chk.violation('oracle', 'a submodule applied on its own sub-tree produces other variable updates than inside a parent', {'case': c, 'standalone': a['vars'], 'inside': inner})
      env_c = LP.cenv(prog, {'deny': 'intermediates'}, c['streams'])
      rows.append('(agree %s %s %s %s %s)' % (env_c, cN(st['cls']), LP.cvtree(st['vars_in']), LP.cvec(st['x']), c01.cexp(st['result'], True)))
    if 'clash_on_apply' in r:
      # the top class with one declaration repeated (or a child named like a variable), applied on init's variables: NameInUse although the variable exists already
      ca = r['clash_on_apply']
      body0, ret0 = prog['classes'][str(prog['top'])]
      prog2 = {'classes': {**prog['classes'], '998': (body0[:ca['after'] + 1] + [ca['extra']] + body0[ca['after'] + 1:], ret0)}, 'top': 998, 'n': prog['n']}
      stats['clash_on_apply'] = stats.get('clash_on_apply', 0) + 1
      rows.append('(agree %s %s %s %s %s)' % (LP.cenv(prog2, {'deny': 'intermediates'}, c['streams']), cN(998), cv, x, c01.cexp(ca['result'], True)))
    env_f = LP.cenv(prog, False, c['streams'])
    rows.append('(agree %s %s %s %s %s)' % (env_f, top, cv, x, c01.cexp(ai, False)))
    rows.append('(agree %s %s %s %s %s)' % (env_init, top, cv, x, c01.cexp(al, True)))
    coq.append((c, o, '(' + ' && '.join(rows) + ')'))
  chk.sample({'case': cases[0], 'observed': {k: v for k, v in obs[0].get('ok', {}).items() if k in ('init', 'apply_immutable', 'eval_shape')}})
  hdr = HEADER + c01.CHK + 'Definition chk (b : bool) : bool := b.\n'
  bad = common.coq_mismatches('c02', hdr, [x[2] for x in coq], 'chk', shard=30, timeout=900)
  for i in bad[:8]:
    c, o, _ = coq[i]
    chk.violation('correspondence', 'Model/Linen.v and flax.linen disagree (init, apply on init\'s variables, a missing / wrongly shaped parameter, or a submodule applied standalone); '
                  'theorems C02_* no longer transfer', {'case': c, 'observed': {k: v for k, v in o['ok'].items() if k in ('init', 'apply_immutable', 'apply_like_init', 'missing_param', 'wrong_shape_param', 'standalone')}})
  chk.cov['traces_validated_against_impl'] = len(coq)
  chk.notes['outcomes'] = stats
  chk.notes['uncovered_grammar_features'] = ['setup-style modules', 'bind/unbind', 'lists of submodules', 'nn.share_scope', 'kw_only_dataclasses', 'methods other than __call__']
  chk.cov['rule'] = ('random compact module programs (as C01; 15% malformed names in every sixth program) -> init; apply(mutable=False) and apply(mutable like init) on init\'s variables; one parameter '
                     'deleted / doubled in size; jax.eval_shape(init), jax.jit(init), lazy_init; the first child of the top module applied standalone on its sub-tree and inside a forwarding '
                     'parent. non-trivial = nested modules with parameters; distinct by canonical JSON hash')
  chk.cov['trusted_base'] = ['Coq 8.16.1 kernel + vm_compute', 'harness/c02.py, c01.py, linen_prog.py, impl_linen.py, impl_c02.py', 'harness/jaxcompat.py']
