"""C02 -- the variable tree mirrors the module tree; init, apply and shape-only init agree."""
import common
import linen_prog as LP
import c01
from common import cN, cZ, cnat, cbool, clist, copt, cpair

PROOF_FILES = ['Proofs/Linen.v', 'Proofs/LinenInit.v']
ASSUMPTIONS = c01.ASSUMPTIONS + [
    'PARTIAL: proved are the name-clash, missing/wrong-shape-parameter and auto-naming facts of the reference semantics; "apply(init(...)) needs no initialisation and keeps the '
    'paths", the standalone-child equality and the shape-only agreement are carried by the correspondence (the model predicts each of them) and by oracles',
]
HEADER = c01.HEADER


def has(prog, kinds):
  return any(s[0] in kinds for body, _ in prog['classes'].values() for s in body)


def paths(tree, prefix=()):
  out = []
  for k, v in tree.items():
    if isinstance(v, dict) and not ('tuple' in v and len(v) == 1):
      out += paths(v, prefix + (k,))
    else:
      out.append(prefix + (k,))
  return sorted(out)


def run(chk):
  rng = chk.rng
  thorough = chk.tier == 'thorough'
  chk.proofs(PROOF_FILES)
  cases = []
  for i in range(4000 if thorough else 280):
    n = rng.choice([1, 2, 3])
    prog = LP.gen_program(rng, n, max_depth=rng.choice([1, 2, 3, 4] if thorough else [1, 2, 3]), malformed=0.15 if i % 6 == 0 else 0.0,
                           name_pool=['w', 'inner', 'h'] if i % 12 == 0 else None, input_shaped=0.35 if i % 4 == 1 else 0.0)
    streams = rng.choice([['params'], ['params', 'dropout'], ['params', 'dropout', 'noise']])
    cases.append({'prog': prog, 'x': [rng.randint(-3, 3) for _ in range(n)], 'child_x': [rng.randint(-3, 3) for _ in range(n)], 'streams': streams, 'pick': rng.randint(0, 20)})
  W = 14
  results = common.run_impl_parallel('impl_c02.py', [{'cases': cases[i::W]} for i in range(W)], workers=W, timeout=3000)
  obs = [None] * len(cases)
  for k, r in enumerate(results):
    for j, o in enumerate(r['cases']):
      obs[k + W * j] = o
  coq = []
  stats = {'init_err': 0, 'name_clash': 0, 'standalone': 0, 'missing_param': 0}
  for c, o in zip(cases, obs):
    if 'err' in o:
      chk.violation('oracle', 'the module program could not be run: %s' % o['err'], {'case': c, 'tb': o.get('tb')})
      continue
    r = o['ok']
    prog = c['prog']
    nested = any(s[0] == 'child' for body, _ in prog['classes'].values() for s in body)
    chk.count(c, nested and has(prog, {'param'}))
    top, x = cN(prog['top']), LP.cvec(c['x'])
    env_init = LP.cenv(prog, {'deny': 'intermediates'}, c['streams'])
    rows = ['(agree %s %s [] %s %s)' % (env_init, top, x, c01.cexp(r['init'], True))]
    if 'err' in r['init']:
      stats['init_err'] += 1
      if r['init']['err'] in ('ENameInUse', 'EDuplicateName'):
        stats['name_clash'] += 1
      coq.append((c, o, rows[0]))
      continue
    vars_init = r['init']['vars']
    cv = LP.cvtree(vars_init)
    writes = has(prog, {'varset', 'sow', 'perturb'})
    # ---- oracles
    ai = r['apply_immutable']
    if not writes:
      if 'err' in ai:
        chk.violation('oracle', 'apply on the variables returned by init raised %s (no further initialisation should be needed)' % ai['err'], {'case': c})
      elif ai['out'] != r['init']['out']:
        chk.violation('oracle', 're-applying the variables returned by init does not reproduce init\'s output', {'case': c, 'init_out': r['init']['out'], 'apply_out': ai['out']})
    if r['apply_immutable_param_inits'] or r['apply_like_init_param_inits']:
      chk.violation('oracle', 'apply called a parameter initialiser although the parameter was supplied', {'case': c})
    al = r['apply_like_init']
    if 'err' not in al and al['vars'] is not None:
      if paths(al['vars']) != paths(vars_init):
        chk.violation('oracle', 'apply created, dropped or renamed a variable compared with what init returned', {'case': c, 'init_paths': paths(vars_init), 'apply_paths': paths(al['vars'])})
    for key, errs in (('missing_param', ('EParamNotFound', 'ECollectionNotFound')), ('wrong_shape_param', ('EParamShape',))):
      if key in r:
        stats['missing_param'] += 1
        res = r[key]['result']
        if 'err' not in res:
          chk.violation('oracle', 'a %s parameter did not raise (it was re-initialised or accepted)' % key.split('_')[0], {'case': c, 'path': r[key]['path'], 'result': res})
        elif res['err'] not in errs and not res['err'].startswith('EOther') and not writes:
          chk.violation('oracle', 'a %s parameter raised an unrelated error %s' % (key.split('_')[0], res['err']), {'case': c, 'path': r[key]['path']})
        env_f = LP.cenv(prog, False, c['streams'])
        rows.append('(agree %s %s %s %s %s)' % (env_f, top, LP.cvtree(r[key]['vars_in']), x, c01.cexp(res, False)))
    for key in ('eval_shape', 'jit_init', 'lazy_init'):
      s = r[key]
      if key == 'lazy_init' and writes:
        continue      # lazy_init refuses variables whose initial value depends on the input data (documented LazyInitError)
      if 'err' in s:
        chk.violation('oracle', 'shape-only initialisation (%s) raised %s although concrete init succeeds' % (key, s['err']), {'case': c})
      elif s['ok'] != r['concrete_shapes']:
        chk.violation('oracle', 'shape-only initialisation (%s) yields another tree structure / shapes / dtypes than concrete init' % key, {'case': c, 'shape_only': s['ok'], 'concrete': r['concrete_shapes']})
    if 'standalone' in r:
      stats['standalone'] += 1
      st, ins = r['standalone'], r['inside_parent']
      a, b = st['result'], ins
      if ('err' in a) != ('err' in b) or ('err' not in a and a['out'] != b['out']):
        chk.violation('oracle', 'a submodule applied on its own sub-tree does not compute what it computes inside a parent', {'case': c, 'standalone': a, 'inside_parent': b})
      if 'err' not in a and 'err' not in b and a['vars'] is not None and b['vars'] is not None:
        inner = {col: t.get(st['name']) for col, t in b['vars'].items() if isinstance(t, dict) and st['name'] in t}
        if {k: v for k, v in a['vars'].items() if v != {}} != {k: v for k, v in inner.items() if v != {}}:
          chk.violation('oracle', 'a submodule applied on its own sub-tree produces other variable updates than inside a parent', {'case': c, 'standalone': a['vars'], 'inside': inner})
      env_c = LP.cenv(prog, {'deny': 'intermediates'}, c['streams'])
      rows.append('(agree %s %s %s %s %s)' % (env_c, cN(st['cls']), LP.cvtree(st['vars_in']), LP.cvec(st['x']), c01.cexp(st['result'], True)))
    env_f = LP.cenv(prog, False, c['streams'])
    rows.append('(agree %s %s %s %s %s)' % (env_f, top, cv, x, c01.cexp(ai, False)))
    rows.append('(agree %s %s %s %s %s)' % (env_init, top, cv, x, c01.cexp(al, True)))
    coq.append((c, o, '(' + ' && '.join(rows) + ')'))
  chk.sample({'case': cases[0], 'observed': {k: v for k, v in obs[0].get('ok', {}).items() if k in ('init', 'apply_immutable', 'eval_shape')}})
  hdr = HEADER + c01.CHK + 'Definition chk (b : bool) : bool := b.\n'
  bad = common.coq_mismatches('c02', hdr, [x[2] for x in coq], 'chk', shard=30, timeout=900)
  for i in bad[:8]:
    c, o, _ = coq[i]
    chk.violation('correspondence', 'Model/Linen.v and flax.linen disagree (init, apply on init\'s variables, a missing / wrongly shaped parameter, or a submodule applied standalone); '
                  'theorems C02_* no longer transfer', {'case': c, 'observed': {k: v for k, v in o['ok'].items() if k in ('init', 'apply_immutable', 'apply_like_init', 'missing_param', 'wrong_shape_param', 'standalone')}})
  chk.cov['traces_validated_against_impl'] = len(coq)
  chk.notes['outcomes'] = stats
  chk.notes['uncovered_grammar_features'] = ['setup-style modules', 'bind/unbind', 'lists of submodules', 'nn.share_scope', 'kw_only_dataclasses', 'methods other than __call__']
  chk.cov['rule'] = ('random compact module programs (as C01; 15% malformed names in every sixth program) -> init; apply(mutable=False) and apply(mutable like init) on init\'s variables; one parameter '
                     'deleted / doubled in size; jax.eval_shape(init), jax.jit(init), lazy_init; the first child of the top module applied standalone on its sub-tree and inside a forwarding '
                     'parent. non-trivial = nested modules with parameters; distinct by canonical JSON hash')
  chk.cov['trusted_base'] = ['Coq 8.16.1 kernel + vm_compute', 'harness/c02.py, c01.py, linen_prog.py, impl_linen.py, impl_c02.py', 'harness/jaxcompat.py']
