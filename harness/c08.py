"""C08 -- NNX vmap/scan/grad match the loop, the stack and jax.grad of the functional form."""
import common
import graph_prog as GP
from common import cN, cZ, cnat, cbool, clist, copt, cpair

PROOF_FILES = ['Proofs/NnxLift.v', 'Proofs/Axes.v', 'Proofs/Alias.v']
ASSUMPTIONS = [
    'jax.vmap = map over the index with batchedness tracked by dependency, lax.scan = fold, jax.grad = the symbolic derivative of the polynomial (idealised; not verified)',
    'an axis-group Variable is represented by its slices along the declared axis: the moveaxis arithmetic of the code is tied to the model by the correspondence (non-square shapes), not by a theorem',
    'bodies are integer programs (add a scalar expression to a Variable, scale a Variable, set the carry; expressions over sums of Variables, the mapped input and the carry); losses are polynomials in scalar Variables',
    'graph handling (split / merge of the module around the transform) is C03 / C04',
]
HEADER = 'From Flaxm Require Import Lib.Harness Model.NnxFilters Model.NnxLift.\nOpen Scope Z_scope.\n'

NAMES = ['a', 'b', 'w', 'x', 'kernel', 'bias']
TYPES = ['Param', 'Param', 'BatchStat', 'Cache', 'Custom', 'Intermediate']
MRO = {'Param': ['Param', 'Variable'], 'BatchStat': ['BatchStat', 'Variable'], 'Cache': ['Cache', 'Variable'], 'Intermediate': ['Intermediate', 'Variable'],
       'Custom': ['Custom', 'Param', 'Variable']}


def matches(f, path, ty):
  if 'type' in f:
    return f['type'] in MRO[ty]
  if 'pc' in f:
    return f['pc'] in path
  if 'any' in f:
    return any(matches(g, path, ty) for g in f['any'])
  if 'seq' in f:
    return any(matches(g, path, ty) for g in f['seq'])
  if 'not' in f:
    return not matches(f['not'], path, ty)
  if 'ellipsis' in f:
    return True
  raise ValueError(f)


def gen_filter(rng):
  r = rng.random()
  if r < 0.55:
    return {'type': rng.choice(['Param', 'BatchStat', 'Cache', 'Custom', 'Variable', 'Intermediate'])}
  if r < 0.75:
    return {'pc': rng.choice(NAMES + ['sub'])}
  if r < 0.85:
    return {'any': [{'type': rng.choice(['Param', 'Cache'])}, {'pc': rng.choice(NAMES)}]}
  if r < 0.93:
    # a sequence filter, as a list or as a tuple (both denote `any of`)
    return {'seq': [{'type': rng.choice(['Param', 'Cache'])}, {'type': rng.choice(['BatchStat', 'Custom'])}][:rng.randint(1, 2)], 'kind': rng.choice(['list', 'tuple'])}
  return {'not': {'type': rng.choice(['Param', 'BatchStat'])}}


def gen_vars(rng):
  n = rng.randint(1, 5)
  paths = set()
  while len(paths) < n:
    p = (rng.choice(NAMES),) if rng.random() < 0.6 else ('sub', rng.choice(NAMES))
    paths.add(p)
  return [{'path': list(p), 'type': rng.choice(TYPES)} for p in sorted(paths)]


def gen_sa(rng, allow_carry, catchall_p=0.85):
  sa = []
  for _ in range(rng.randint(0, 3)):
    s = rng.choice([0, 0, 1, 2, -1, None, None, 'carry'] if allow_carry else [0, 0, 1, 2, -1, None, None])
    sa.append([gen_filter(rng), s])
  if rng.random() < catchall_p:
    sa.append([{'ellipsis': 1}, rng.choice([None, None, 0] + (['carry'] if allow_carry else []))])
  return sa


def spec_of(sa, v):
  for f, s in sa:
    if matches(f, v['path'], v['type']):
      return s
  return 'nomatch'


def fill_values(rng, vars_, sa, n):
  import itertools
  for v in vars_:
    s = spec_of(sa, v)
    if isinstance(s, int):
      rank = rng.randint(s + 1, 3) if s >= 0 else rng.randint(1, 3)
      shape = [rng.randint(1, 3) for _ in range(rank)]
      shape[s] = n
    else:
      shape = [rng.randint(1, 3) for _ in range(rng.randint(0, 2))]
    size = 1
    for d in shape:
      size *= d
    flat = [rng.randint(-3, 4) for _ in range(size)]

    def nest(fl, sh):
      if not sh:
        return fl[0]
      step = len(fl) // sh[0]
      return [nest(fl[i * step:(i + 1) * step], sh[1:]) for i in range(sh[0])]
    v['val'] = nest(flat, shape)
    v['spec'] = s


def gen_bexp(rng, nv, depth=0, allow_c=True):
  r = rng.random()
  if r < 0.25 or depth > 2:
    return ['const', rng.randint(-2, 3)]
  if r < 0.4:
    return ['x']
  if r < 0.5 and allow_c:
    return ['c']
  if r < 0.75:
    return ['sum', rng.randrange(nv)]
  return [rng.choice(['add', 'add', 'mul']), gen_bexp(rng, nv, depth + 1, allow_c), gen_bexp(rng, nv, depth + 1, allow_c)]


def gen_body(rng, vars_, kind):
  nv = len(vars_)
  stmts = []
  for _ in range(rng.randint(1, 5)):
    r = rng.random()
    j = rng.randrange(nv)
    spec = vars_[j]['spec']
    if kind == 'scan' and spec is None and rng.random() < 0.97:
      # writes to broadcast state inside scan are dropped by the code (F22): kept out of the regular stream
      cands = [i for i, v in enumerate(vars_) if v['spec'] is not None]
      if not cands:
        continue
      j = rng.choice(cands)
    if r < 0.6:
      stmts.append(['addto', j, gen_bexp(rng, nv, allow_c=kind == 'scan')])
    elif r < 0.8:
      stmts.append(['scale', j, rng.choice([-1, 2, 3])])
    elif kind == 'scan':
      stmts.append(['setc', gen_bexp(rng, nv)])
  return {'stmts': stmts, 'ret': gen_bexp(rng, nv, allow_c=kind == 'scan')}


def cleaf(v):
  return '(mkLeaf %s %s None 0%%N)' % (clist([(cN(k) if isinstance(k, int) else GP.ckey(k)) for k in v['path']]), clist([cN(GP.VARTY[t]) for t in MRO[v['type']]]))


def flat(x):
  if isinstance(x, list):
    return [z for y in x for z in flat(y)]
  return [x]


def cvval_from_val(v, n):
  import numpy as np
  a = np.array(v['val'])
  if isinstance(v['spec'], int):
    a = np.moveaxis(a, v['spec'], 0)
    return '(Slices %s)' % clist([clist([cZ(int(z)) for z in a[i].reshape(-1)]) for i in range(a.shape[0])])
  return '(Whole %s)' % clist([cZ(int(z)) for z in a.reshape(-1)])


def cvval_obs(o):
  if 'slices' in o:
    return '(Slices %s)' % clist([clist([cZ(z) for z in s]) for s in o['slices']])
  return '(Whole %s)' % clist([cZ(z) for z in o['whole']])


def cspec(s):
  return 'SNone' if s is None else 'SCarry' if s == 'carry' else '(SAxis %s)' % cnat(s if s >= 0 else 9)     # the model does not use the position (slices representation)


def csa(sa):
  return clist([cpair(GP.cfilt(f), cspec(s)) for f, s in sa])


def cbexp(e):
  k = e[0]
  if k == 'const':
    return '(BConst %s)' % cZ(e[1])
  if k == 'x':
    return 'BX'
  if k == 'c':
    return 'BC'
  if k == 'sum':
    return '(BSum %s)' % cnat(e[1])
  return '(%s %s %s)' % ('BAdd' if k == 'add' else 'BMul', cbexp(e[1]), cbexp(e[2]))


def cbody(b):
  st = []
  for s in b['stmts']:
    if s[0] == 'addto':
      st.append('(BAddTo %s %s)' % (cnat(s[1]), cbexp(s[2])))
    elif s[0] == 'scale':
      st.append('(BScale %s %s)' % (cnat(s[1]), cZ(s[2])))
    else:
      st.append('(BSetC %s)' % cbexp(s[1]))
  return '(mkBody %s %s)' % (clist(st), cbexp(b['ret']))


def cvars(vars_, n):
  return clist(['(mkVar %s %s)' % (cleaf(v), cvval_from_val(v, n)) for v in vars_])


def gen_gexp(rng, nv, depth=0):
  r = rng.random()
  if r < 0.2 or depth > 3:
    return ['const', rng.randint(-2, 3)]
  if r < 0.5:
    return ['var', rng.randrange(nv)]
  if r < 0.6:
    return ['x']
  return [rng.choice(['add', 'mul', 'mul']), gen_gexp(rng, nv, depth + 1), gen_gexp(rng, nv, depth + 1)]


def cgexp(e):
  k = e[0]
  if k == 'const':
    return '(GConst %s)' % cZ(e[1])
  if k == 'var':
    return '(GVar %s)' % cnat(e[1])
  if k == 'x':
    return 'GX'
  return '(%s %s %s)' % ('GAdd' if k == 'add' else 'GMul', cgexp(e[1]), cgexp(e[2]))


def batched_none_write(c, carry_varies=False):
  """does the body write a value computed from the mapped input or an axis-group Variable into a None-group Variable?"""
  tv = [isinstance(v['spec'], int) for v in c['vars']]
  tc = carry_varies

  def t(e):
    k = e[0]
    if k == 'x':
      return True
    if k == 'c':
      return tc
    if k == 'sum':
      return tv[e[1]]
    if k == 'const':
      return False
    return t(e[1]) or t(e[2])
  for s in c['body']['stmts']:
    if s[0] == 'addto':
      tv[s[1]] = tv[s[1]] or t(s[2])
    elif s[0] == 'setc':
      tc = t(s[1])
  return any(b and v['spec'] is None for b, v in zip(tv, c['vars']))


ERRCODE = [('No axis found', 1), ('output was batched', 2)]


def run(chk):
  rng = chk.rng
  thorough = chk.tier == 'thorough'
  chk.proofs(PROOF_FILES)
  known = {k['key'] for k in common.load_known() if k['property'] == 'C08' and k.get('status') == 'known'}
  vm, sc, gr = [], [], []
  for _ in range(900 if thorough else 90):
    vars_ = gen_vars(rng)
    sa = gen_sa(rng, allow_carry=rng.random() < 0.05)
    n = rng.randint(1, 4)
    fill_values(rng, vars_, sa, n)
    vm.append({'vars': vars_, 'sa': sa, 'xs': [rng.randint(-3, 3) for _ in range(n)], 'body': gen_body(rng, vars_, 'vmap')})
  for _ in range(900 if thorough else 90):
    vars_ = gen_vars(rng)
    sa = gen_sa(rng, allow_carry=True)
    n = rng.randint(1, 4)
    fill_values(rng, vars_, sa, n)
    sc.append({'vars': vars_, 'sa': sa, 'xs': [rng.randint(-3, 3) for _ in range(n)], 'c0': rng.randint(-2, 2), 'reverse': rng.random() < 0.4,
               'body': gen_body(rng, vars_, 'scan')})
  for _ in range(600 if thorough else 70):
    vars_ = gen_vars(rng)
    for v in vars_:
      v['val'] = rng.randint(-3, 4)
      v['spec'] = None
    two = rng.random() < 0.35
    for v in vars_:
      v['val2'] = rng.randint(-3, 4)
    nv = len(vars_) * (2 if two else 1)
    ds = rng.random() < 0.6
    gr.append({'vars': vars_, 'loss': gen_gexp(rng, nv), 'x': rng.randint(-3, 3), 'wrt': gen_filter(rng) if ds else {'type': 'Param'}, 'diffstate': ds,
               'has_aux': rng.random() < 0.3, 'value_and_grad': rng.random() < 0.5, 'two': two,
               'bumps': sorted(set(rng.randrange(nv) for _ in range(rng.randint(0, 2))))})
  W = 12
  results = common.run_impl_parallel('impl_c08.py', [{'vmap': vm[i::W], 'scan': sc[i::W], 'grad': gr[i::W]} for i in range(W)], workers=W, timeout=3000)

  def gather(key, n):
    out = [None] * n
    for k, r in enumerate(results):
      for j, o in enumerate(r[key]):
        out[k + W * j] = o
    return out
  vres, sres, gres = gather('vmap', len(vm)), gather('scan', len(sc)), gather('grad', len(gr))
  stat = {'vmap_err': 0, 'scan_err': 0, 'scan_broadcast_write': 0, 'grad': len(gr)}
  rows = []
  # ---- vmap
  for c, o in zip(vm, vres):
    specs = [v['spec'] for v in c['vars']]
    chk.count({'vmap': c}, any(isinstance(s, int) for s in specs) and len(c['xs']) > 1)
    if o['specs'] != specs:
      chk.violation('oracle', 'StateAxes.map_prefix does not give each Variable the axis of the first matching filter', {'case': c, 'observed_specs': o['specs'], 'expected': specs})
      continue
    impl, eager = o['impl'], o['eager']
    if 'ok' in eager and batched_none_write(c):
      # a per-index value written into shared (None) state: must be rejected, whatever the values happen to be
      if 'err' not in impl or 'output was batched' not in impl['msg']:
        chk.violation('oracle', 'nnx.vmap accepted a body that writes a per-index value into broadcast (None) state', {'case': c, 'impl': impl})
        continue
    elif ('err' in impl) != ('err' in eager) or ('ok' in impl and (impl['ok']['ys'], impl['ok']['vals']) != (eager['ok']['ys'], eager['ok']['vals'])):
      chk.violation('oracle', 'nnx.vmap differs from calling the function per index on the per-index slices (outputs, stacked updates of axis groups, or shared None groups)',
                    {'case': c, 'impl': impl, 'eager': eager})
      continue
    if 'ok' in impl and not impl['ok']['same_objects']:
      chk.violation('oracle', 'nnx.vmap replaced the caller\'s Variables instead of updating them', {'case': c})
    model = 'vmap_model %s %s %s %s' % (csa(c['sa']), cbody(c['body']), cvars(c['vars'], len(c['xs'])), clist([cZ(x) for x in c['xs']]))
    if 'err' in impl:
      stat['vmap_err'] += 1
      code = next((k for m, k in ERRCODE if m in impl['msg']), None)
      rows.append((('vmap', c, o), '(match %s with Err code => %s | Ok _ => false end)' % (model, 'N.eqb code %s' % cN(code) if code else 'true')))
    else:
      rows.append((('vmap', c, o), '(match %s with Ok (vals, ys) => list_beq vval_beq vals %s && list_beq weq ys %s | Err _ => false end)' % (
          model, clist([cvval_obs(x) for x in impl['ok']['vals']]), clist([cZ(y) for y in impl['ok']['ys']]))))
  # ---- scan
  f22_seen = False
  for c, o in zip(sc, sres):
    specs = [v['spec'] for v in c['vars']]
    bw = any(s[0] in ('addto', 'scale') and specs[s[1]] is None for s in c['body']['stmts'])
    chk.count({'scan': c}, ('carry' in specs or any(isinstance(s, int) for s in specs)) and len(c['xs']) > 1)
    impl, eager = o['impl'], o['eager']
    same = ('err' in impl) == ('err' in eager) and ('err' in impl or {k: impl['ok'][k] for k in ('carry', 'ys', 'vals', 'probes')} == {k: eager['ok'][k] for k in ('carry', 'ys', 'vals', 'probes')})
    if not same:
      if bw and 'ok' in impl and 'ok' in eager:
        stat['scan_broadcast_write'] += 1
        f22_seen = True       # attributed to F22; the model (which drops these writes) is still compared below
      else:
        chk.violation('oracle', 'nnx.scan differs from the Python loop (carry threaded, axis state sliced per step, broadcast state shared): final carry, ys or final Variables',
                      {'case': c, 'impl': impl, 'eager': eager})
        continue
    model = 'scan_model %s %s %s %s %s %s' % (csa(c['sa']), cbody(c['body']), cbool(c['reverse']), cvars(c['vars'], len(c['xs'])), cZ(c['c0']), clist([cZ(x) for x in c['xs']]))
    if 'err' in impl:
      stat['scan_err'] += 1
      rows.append((('scan', c, o), '(match %s with Err _ => true | Ok _ => false end)' % model))
    else:
      rows.append((('scan', c, o), '(match %s with Ok (vals, cf, ys) => list_beq vval_beq vals %s && weq cf %s && list_beq weq ys %s | Err _ => false end)' % (
          model, clist([cvval_obs(x) for x in impl['ok']['vals']]), cZ(impl['ok']['carry']), clist([cZ(y) for y in impl['ok']['ys']]))))
  # ---- grad
  for c, o in zip(gr, gres):
    chk.count({'grad': c}, len(c['vars']) > 1)
    impl, ref = o['impl'], o['eager']
    if 'err' in impl or 'err' in ref or impl['ok'] != ref['ok']:
      chk.violation('oracle', 'nnx.grad / value_and_grad differ from jax.grad of the loss written as a function of the selected Variables (gradient paths and values, value, aux, '
                    'forward-pass side effects applied once, identity of the Variables)', {'case': c, 'impl': impl, 'reference': ref})
      continue
    r = impl['ok']
    def gkey(k):
      return cN(k) if isinstance(k, int) else GP.ckey(k)
    exp_g = clist([cpair(clist([gkey(k) for k in p]), cZ(int(g))) for p, g in r['grads']])
    if c.get('two'):
      leaves = [cleaf(dict(v, path=[k] + v['path'])) for k in range(2) for v in c['vars']]
      vals0 = [v['val'] for v in c['vars']] + [v['val2'] for v in c['vars']]
    else:
      leaves = [cleaf(v) for v in c['vars']]
      vals0 = [v['val'] for v in c['vars']]
    row = ('(let r := grad_model %s %s %s %s %s %s in list_beq (pair_beq (list_beq N.eqb) Z.eqb) (g_grads r) %s && list_beq Z.eqb (g_counters r) %s%s)' % (
        GP.cfilt(c['wrt']), clist(leaves), clist([cZ(z) for z in vals0]), cZ(c['x']), cgexp(c['loss']), clist([cnat(i) for i in c['bumps']]),
        exp_g, clist([cZ(int(v)) for v in r['vals']]), (' && Z.eqb (g_value r) %s' % cZ(int(r['value']))) if r['value'] is not None else ''))
    rows.append((('grad', c, o), row))
  chk.sample({'vmap_case': vm[0], 'observed': vres[0]})
  hdr = HEADER + '''(* the implementation computes in int64, the model in Z; the bodies are ring expressions, so the two agree modulo 2^64 *)
Definition weq (a b : Z) : bool := Z.eqb ((a - b) mod 18446744073709551616) 0.
Definition vval_beq (a b : vval) : bool :=
  match a, b with Whole x, Whole y => list_beq weq x y | Slices x, Slices y => list_beq (list_beq weq) x y | _, _ => false end.
Definition chk (b : bool) : bool := b.
'''
  bad = common.coq_mismatches('c08', hdr, [r[1] for r in rows], 'chk', shard=60, timeout=900)
  for i in bad[:8]:
    kind, c, o = rows[i][0]
    chk.violation('correspondence', 'Model/NnxLift.v (%s) and flax.nnx disagree; theorems C08_* no longer transfer' % kind, {'case': c, 'observed': o})
  chk.cov['traces_validated_against_impl'] = len(rows)
  pr = common.run_impl('impl_c08.py', {'probe': True})
  what = ('a write to broadcast (None) state inside the body of nnx.scan is silently dropped: every step sees the original value and the caller\'s Variable is unchanged, '
          'while the Python loop keeps the write')
  if pr['F22-scan-broadcast-write-dropped']['fails'] or f22_seen:
    if 'F22-scan-broadcast-write-dropped' in known:
      chk.known('F22-scan-broadcast-write-dropped', what)
    else:
      chk.violation('oracle', what, pr['F22-scan-broadcast-write-dropped'])
  if 'err' not in pr['alias_inconsistent'] or 'nconsistent aliasing' not in pr['alias_inconsistent'].get('msg', ''):
    chk.violation('oracle', 'one Variable reached under two different axis specifications was not rejected with "Inconsistent aliasing"', pr['alias_inconsistent'])
  if 'err' in pr['alias_consistent'] or pr['alias_consistent']['w'] != [1.0, 2.0, 3.0]:
    chk.violation('oracle', 'one Variable reached twice under equal axis specifications is not treated as one object', pr['alias_consistent'])
  if 'err' not in pr['out_axes_none'] or 'err' not in pr['two_carries']:
    chk.violation('oracle', 'broadcast output state / two Carry arguments were accepted by nnx.scan', {'out_axes_none': pr['out_axes_none'], 'two_carries': pr['two_carries']})
  # two further implementation-side families: shared Variables under two DiffState filters; split_rngs + vmap histories
  FN = ['Param', 'a', 'b', 'w', 'not_w', 'all', 'none', 'ab', 'list_w_a']
  alias = [{'f0': f0, 'f1': f1, 'vg': (i + j) % 2 == 1, 'x': rng.randint(1, 3), 'a': rng.randint(-3, 3), 'b': rng.randint(-3, 3), 'w': rng.randint(1, 4)}
           for i, f0 in enumerate(FN) for j, f1 in enumerate(FN)]
  rcases = [{'form': rng.choice(['decorator', 'context', 'explicit']), 'only': rng.choice([None, 'noise']), 'splits': rng.randint(2, 4), 'extra': rng.randint(0, 2),
             'seed': rng.randint(0, 50), 'ncalls': rng.randint(2, 3), 'between': rng.random() < 0.4} for _ in range(160 if thorough else 32)]
  W2 = 12
  xr = common.run_impl_parallel('impl_c08_extra.py', [{'alias': alias[i::W2], 'rng': rcases[i::W2]} for i in range(W2)], workers=W2, timeout=3000)
  stat['alias_diffstate'] = {'cases': 0, 'must_reject': 0, 'accepted': 0}
  for k, r in enumerate(xr):
    for c, o in zip(alias[k::W2], r['alias']):
      chk.count(c, True)
      st = stat['alias_diffstate']
      st['cases'] += 1
      disagree = o['sel']['w0'] != o['sel']['w1']
      st['must_reject'] += disagree
      impl, ref = o['impl'], o['ref']
      if 'err' in impl:
        if 'nconsistent aliasing' not in impl.get('msg', '') or c['f0'] == c['f1']:
          chk.violation('oracle', 'nnx.%s over two arguments sharing a Param, DiffState filters %s / %s, raised %s' % ('value_and_grad' if c['vg'] else 'grad', c['f0'], c['f1'], impl['err']),
                        {'case': c, 'observed': o})
        continue
      st['accepted'] += 1
      if disagree:
        chk.violation('oracle', 'two differentiated arguments share a Param that the DiffState filter of one selects and of the other does not (%s / %s): accepted instead of rejected as '
                      'inconsistent aliasing' % (c['f0'], c['f1']), {'case': c, 'observed': o})
      elif 'err' in ref or impl['ok'] != ref['ok']:
        chk.violation('oracle', 'nnx.grad over two arguments sharing a Param differs from jax.grad of the loss as a function of the selected Variables', {'case': c, 'observed': o})
    for c, o in zip(rcases[k::W2], r['rng']):
      chk.count(c, True)
      stat['rng_vmap'] = stat.get('rng_vmap', 0) + 1
      if 'err' in o['impl'] or 'err' in o['ref'] or o['impl']['ok'] != o['ref']['ok']:
        chk.violation('oracle', 'a history of %d calls of an nnx.vmap-ed function under nnx.split_rngs (%s form, only=%s) differs from the per-index loop with keys split(stream(), n)[i], or '
                      'leaves the Rngs in another state than (key, count + 1 per call)' % (c['ncalls'], c['form'], c['only']), {'case': c, 'observed': o})
  ba = common.run_impl('impl_c08_extra.py', {'bare_alias': True})['bare_alias']
  for name, r in ba.items():
    chk.count({'bare_variable_alias': name}, True)
    if name == '_consistent_tied':
      if 'err' in r or r['ok'] != [2.0, 4.0, 6.0]:
        chk.violation('oracle', 'a Variable reached at two paths of one module under equal path-based specifications is not accepted as one object', {'observed': r})
    elif name == '_consistent':
      if 'err' in r or r['ok'] != [0.0, 2.0, 4.0]:
        chk.violation('oracle', 'a bare Variable passed twice under the same axis is not accepted as one object', {'observed': r})
    elif 'err' not in r or 'nconsistent aliasing' not in r.get('msg', ''):
      chk.violation('oracle', 'one Variable reached under two different axis specifications (%s) was not rejected as inconsistent aliasing' % name, {'observed': r})
  # the aliasing cases against Model/Alias.v: the occurrences (Variable, specification it is reached under) the harness built into each case
  arows = []
  occ = lambda pairs: common.clist(['(%s, %s)' % (common.cnat(v), common.cnat(p)) for v, p in pairs])
  for k, r in enumerate(xr):
    for c, o in zip(alias[k::W2], r['alias']):
      sel = o['sel']
      # the prefix a Variable is recorded under is the DiffState of its argument (argnum normalised away, the filter compared by equality)
      pairs = [(0, FN.index(c['f0'])), (1, FN.index(c['f0'])), (1, FN.index(c['f1'])), (2, FN.index(c['f1']))]
      arows.append((c, o, '(Bool.eqb (alias_ok %s) %s)' % (occ(pairs), common.cbool('err' not in o['impl']))))
  AX0, AX1, NONE, DIFF, NODIFF = 0, 1, 9, 5, 6
  bare = {'vmap(in_axes=(0, None))(v, v)': [(0, AX0), (0, NONE)], 'vmap(in_axes=(0, None))(Holder(v), v)': [(0, AX0), (0, NONE)],
          'vmap(in_axes=(StateAxes({Param: None}), 0))(Holder(v), v)': [(0, NONE), (0, AX0)], 'vmap(lambda v: v, in_axes=0, out_axes=1)(v)': [(0, AX0), (0, AX1)],
          'scan(in_axes=(0, None))(v, v)': [(0, AX0), (0, NONE)], 'grad(argnums=0)(p, p)': [(0, DIFF), (0, NODIFF)], 'vmap(in_axes=(0, None))(m, m)': [(0, AX0), (0, NONE)],
          '_consistent': [(0, AX0), (0, AX0)], '_consistent_tied': [(0, AX0), (0, AX0)],
          'vmap(StateAxes{enc: 0, dec: None})(tied)': [(0, AX0), (0, NONE)], 'vmap(StateAxes{dec: None, enc: 0})(tied)': [(0, AX0), (0, NONE)],
          'scan(StateAxes{enc: Carry, dec: 0})(tied)': [(0, 7), (0, AX0)]}
  for name, r in ba.items():
    if name in bare:
      arows.append(({'bare': name}, r, '(Bool.eqb (alias_ok %s) %s)' % (occ(bare[name]), common.cbool('err' not in r))))
  abad = common.coq_mismatches('c08_alias', 'From Flaxm Require Import Lib.Harness Model.Alias.\nDefinition chk (b : bool) : bool := b.\n', [x[2] for x in arows], 'chk', shard=200)
  for i in abad[:6]:
    chk.violation('correspondence', 'Model/Alias.v and nnx disagree on whether arguments that alias one Variable are accepted (C08_aliasing_* no longer transfer)',
                  {'case': arows[i][0], 'observed': arows[i][1]})
  chk.cov['traces_validated_against_impl'] = chk.cov.get('traces_validated_against_impl', 0) + len(arows)
  chk.notes['stats'] = stat
  chk.cov['rule'] = ('modules with 1-5 Variables (5 types incl. a subclass, top-level and nested paths) x StateAxes of 0-4 (filter, axis 0 / 1 / None / Carry) entries with and without a catch-all x '
                     'non-square shapes of rank 0-3 x integer bodies (add expression to a Variable, scale, set carry; sums, mapped input, carry) x lengths 1-4 x reverse; losses = random polynomials, '
                     'wrt filters (also as lists / tuples), DiffState, has_aux, value_and_grad, forward-pass counters; two differentiated arguments sharing a Param under all 81 pairs of 9 DiffState filters; histories of 2-3 calls of a vmap-ed noisy module under split_rngs (decorator / context manager / restore_rngs, only=). non-trivial = an axis / carry group with length > 1, or more than one Variable for grad')
  chk.cov['trusted_base'] = ['Coq 8.16.1 kernel + vm_compute', 'harness/c08.py, impl_c08.py, impl_c08_extra.py', 'harness/jaxcompat.py', 'jax.vmap, lax.scan, jax.grad']
