"""Turns module programs (linen_prog.py) into real flax.linen Modules and runs them."""
import jaxcompat  # noqa: F401
import warnings
warnings.filterwarnings('ignore')
import jax
import jax.numpy as jnp
import numpy as np
import flax
import flax.linen as nn
from flax import errors
from flax.core import scope as core_scope

SEL = {'cond': 0, 'switch': 0, 'while': 1}     # branch taken by every cond / switch statement and trip count of every while statement of the current run
TRACE_TRACED = [False]     # also report keys that are traced values (through jax.debug.callback); used by C05 only
LIFT = [True]     # False: ignore the transform annotations and run the equivalent plain code
TRACE = []          # ('key', path, stream_requested, key_data) / ('param', path, name, key_data)
PROGS = {}
CLASSES = {}


def kd(key):
  return [int(x) for x in np.asarray(jax.random.key_data(key)).reshape(-1)]


def ev(e, locals_, x):
  k = e[0]
  if k == 'in':
    return x
  if k == 'loc':
    return locals_[e[1]]
  if k == 'const':
    return jnp.asarray(np.array(e[1], dtype=np.int64))
  if k == 'add':
    return ev(e[1], locals_, x) + ev(e[2], locals_, x)
  if k == 'mul':
    return ev(e[1], locals_, x) * ev(e[2], locals_, x)
  if k == 'sum':
    return jnp.sum(ev(e[1], locals_, x)).reshape((1,))
  raise ValueError(e)


class ProgBase(nn.Module):
  prog_id: int = 0
  cls_id: int = 0
  post: object = None       # an optional function applied to the returned value (a closure: two modules may differ only in what it closes over)
  sel: tuple = (0, 0, 1)      # (branch of every cond, branch of every switch, trip count of every while) for this run: a static attribute

  @nn.compact
  def __call__(self, x):
    prog = PROGS[self.prog_id]
    body, ret = prog['classes'][str(self.cls_id)]
    locals_, insts = {}, {}
    for s in body:
      k = s[0]
      if k == 'param':
        _, xv, nm, n, c = s
        path = self.path

        def init(key, shape, c=c, nm=nm, path=path):
          if not isinstance(key, jax.core.Tracer):     # Scope.param re-evaluates the initialiser abstractly for its shape check
            TRACE.append(('param', list(path), nm, kd(key)))
          elif TRACE_TRACED[0]:       # inside a lifted jit / remat: the key is traced, report it when the computation runs (abstract evaluation runs no callback)
            jax.debug.callback(lambda d, path=path, nm=nm: TRACE.append(('param', list(path), nm, [int(v) for v in np.asarray(d).reshape(-1)])), jax.random.key_data(key))
          return jnp.full(shape, c, dtype=jnp.int64)
        locals_[xv] = self.param(nm, init, (n,) if n else jnp.shape(x))     # n = 0: shaped like the input (a Dense kernel)
      elif k == 'var':
        _, xv, col, nm, n, c = s
        v = self.variable(col, nm, lambda n=n, c=c: jnp.full((n,), c, dtype=jnp.int64))
        locals_[xv] = v.value
      elif k == 'varset':
        self.put_variable(s[1], s[2], ev(s[3], locals_, x))
      elif k == 'sow':
        self.sow(s[1], s[2], ev(s[3], locals_, x))
      elif k == 'perturb':
        locals_[s[1]] = self.perturb(s[2], ev(s[3], locals_, x))
      elif k == 'rng':
        key = self.make_rng(s[1])
        if not isinstance(key, jax.core.Tracer):
          TRACE.append(('key', list(self.path), s[1], kd(key)))
        elif TRACE_TRACED[0]:
          jax.debug.callback(lambda d, path=tuple(self.path), st=s[1]: TRACE.append(('key', list(path), st, [int(v) for v in np.asarray(d).reshape(-1)])), jax.random.key_data(key))
      elif k == 'let':
        locals_[s[1]] = ev(s[2], locals_, x)
      elif k == 'child':
        cls = get_class(s[2])
        if len(s) == 5 and LIFT[0]:
          cls = lifted_class(s[2], s[4], self.is_initializing())
        insts[s[1]] = cls(self.prog_id, s[2], self.post, self.sel, name=s[3])
      elif k == 'ctl':
        _, xv, kind, branches, arg = s
        z = ev(arg, locals_, x)
        outer = dict(locals_)

        def mk(br, outer=outer):
          stmts, ret_b = br

          def fn(mdl, zz):
            for t in stmts:
              mdl.put_variable(t[1], t[2], ev(t[3], outer, zz))
            return ev(ret_b, outer, zz)
          return fn
        fns = [mk(b) for b in branches]
        if LIFT[0]:
          if kind == 'cond':
            locals_[xv] = nn.cond(jnp.asarray(self.sel[0] == 0), fns[0], fns[1], self, z)
          elif kind == 'switch':
            locals_[xv] = nn.switch(jnp.asarray(self.sel[1]), fns, self, z)
          else:
            kk = jnp.asarray(self.sel[2], dtype=jnp.int64)
            i, zz = nn.while_loop(lambda mdl, c: c[0] < kk, lambda mdl, c: (c[0] + 1, fns[0](mdl, c[1])), self, (jnp.zeros((), jnp.int64), z),
                                  carry_variables=sorted({t[1] for t in branches[0][0]}) or False, broadcast_variables=True)
            locals_[xv] = zz
        else:
          if kind == 'cond':
            locals_[xv] = fns[self.sel[0]](self, z)
          elif kind == 'switch':
            locals_[xv] = fns[self.sel[1]](self, z)
          else:
            for _ in range(self.sel[2]):
              z = fns[0](self, z)
            locals_[xv] = z
      elif k == 'call':
        locals_[s[1]] = insts[s[2]](ev(s[3], locals_, x))
      else:
        raise ValueError(s)
    y = ev(ret, locals_, x)
    return y if self.post is None else self.post(y)


LIFTED = {}


def lifted_class(cid, t, initializing=False):
  # nn.map_variables is used the documented way: init=self.is_initializing() (its init pass runs the module once more)
  key = (cid, t, initializing and t == 'mapvars')
  if key not in LIFTED:
    base = get_class(cid)
    LIFTED[key] = {'jit': lambda: nn.jit(base), 'remat': lambda: nn.remat(base),
                   'mapvars': lambda: nn.map_variables(base, 'params', mutable=True, init=key[2])}[t]()
  return LIFTED[key]


def get_class(cid):
  if cid not in CLASSES:
    CLASSES[cid] = type('K%d' % cid, (ProgBase,), {'__annotations__': {}})
  return CLASSES[cid]


def top_module(prog, pid, sel=None):
  PROGS[pid] = prog
  if sel is None:
    return get_class(prog['top'])(pid, prog['top'])
  return get_class(prog['top'])(pid, prog['top'], make_post(sel['post']) if sel.get('post') is not None else None, (sel['cond'], sel['switch'], sel['while']))


def make_post(k):
  def post(y):
    return y * k
  return post


def dec_filter(f):
  if isinstance(f, (bool, str, list)):
    return f
  return nn.DenyList(dec_filter(f['deny']))


def canon_vars(v):
  """nested dict (FrozenDict or dict) with array / tuple leaves -> JSON-able"""
  if isinstance(v, (dict, flax.core.FrozenDict)):
    return {k: canon_vars(x) for k, x in v.items()}
  if isinstance(v, tuple):
    return {'tuple': [[int(a) for a in np.asarray(e).reshape(-1)] for e in v]}
  return [int(a) for a in np.asarray(v).reshape(-1)]


def build_vars(c):
  if isinstance(c, dict) and 'tuple' in c and len(c) == 1:
    return tuple(jnp.asarray(np.array(e, dtype=np.int64)) for e in c['tuple'])
  if isinstance(c, dict):
    return {k: build_vars(x) for k, x in c.items()}
  return jnp.asarray(np.array(c, dtype=np.int64))


ERR = [
    (errors.NameInUseError, 'ENameInUse'), (errors.ModifyScopeVariableError, 'EModifyScope'), (errors.ScopeParamNotFoundError, 'EParamNotFound'),
    (errors.ScopeCollectionNotFound, 'ECollectionNotFound'), (errors.ScopeVariableNotFoundError, 'EVariableNotFound'),
    (errors.ScopeParamShapeError, 'EParamShape'), (errors.InvalidRngError, 'EInvalidRng'),
]


def classify(e):
  for cls, name in ERR:
    if isinstance(e, cls):
      return name
  if isinstance(e, ValueError) and 'Duplicate use of scope name' in str(e):
    return 'EDuplicateName'
  if isinstance(e, ValueError) and 'Perturbation collection' in str(e):
    return 'EPerturbMissing'
  return 'EOther:' + type(e).__name__ + ':' + str(e)[:80]


def rng_dict(streams, seed=0):
  return {s: jax.random.fold_in(jax.random.key(seed), i + 1) for i, s in enumerate(streams)}


def dtypes_of(*trees):
  """dtype names of every array in the outputs / variable trees (the programs compute in int64 throughout)"""
  names = set()
  for t in trees:
    for leaf in jax.tree_util.tree_leaves(t):
      names.add(str(np.asarray(leaf).dtype))
  return sorted(names)


def run_apply(module, variables, x, streams, mutable, seed=0, **kw):
  """returns dict(out=..., vars=..., trace=...) or dict(err=...)"""
  del TRACE[:]
  try:
    r = module.apply(variables, x, rngs=rng_dict(streams, seed), mutable=mutable, **kw)
    jax.effects_barrier()
    if mutable is False:
      out, upd = r, None
    else:
      out, upd = r
    return {'out': [int(a) for a in np.asarray(out).reshape(-1)], 'vars': None if upd is None else canon_vars(upd), 'trace': list(TRACE), 'dtypes': dtypes_of(out, upd)}
  except Exception as e:  # pylint: disable=broad-except
    return {'err': classify(e), 'trace': list(TRACE)}


def run_init(module, x, streams, seed=0, with_output=True, **kw):
  del TRACE[:]
  try:
    if with_output:
      out, v = module.init_with_output(rng_dict(streams, seed), x, **kw)
      jax.effects_barrier()
      return {'out': [int(a) for a in np.asarray(out).reshape(-1)], 'vars': canon_vars(v), 'trace': list(TRACE), 'raw': v, 'dtypes': dtypes_of(out, v)}
    v = module.init(rng_dict(streams, seed), x, **kw)
    return {'vars': canon_vars(v), 'trace': list(TRACE), 'raw': v}
  except Exception as e:  # pylint: disable=broad-except
    return {'err': classify(e), 'trace': list(TRACE)}
