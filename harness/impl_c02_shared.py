"""Implementation side of C02, shared attribute submodules: module instances passed as dataclass fields, possibly to several
parents and through wrappers, against a reference that evaluates the instance graph by object identity."""
import jaxcompat  # noqa: F401
import warnings
warnings.filterwarnings('ignore')
from typing import Any
import common
import jax
import jax.numpy as jnp
import numpy as np
import flax
import flax.linen as nn


class Leaf(nn.Module):
  w: int = 1

  @nn.compact
  def __call__(self, x):
    k = self.param('w', lambda key: jnp.asarray(self.w, dtype=jnp.int64))
    n = self.variable('count', 'n', lambda: jnp.asarray(0, dtype=jnp.int64))
    n.value = n.value + 1
    return x * k + n.value


class Wrap(nn.Module):
  inner: Any = None
  w: int = 1

  @nn.compact
  def __call__(self, x):
    k = self.param('w', lambda key: jnp.asarray(self.w, dtype=jnp.int64))
    n = self.variable('count', 'n', lambda: jnp.asarray(0, dtype=jnp.int64))
    n.value = n.value + 1
    return self.inner(x) * 2 + k + n.value


class Pair(nn.Module):
  inner: Any = None
  inner2: Any = None
  w: int = 1

  @nn.compact
  def __call__(self, x):
    k = self.param('w', lambda key: jnp.asarray(self.w, dtype=jnp.int64))
    n = self.variable('count', 'n', lambda: jnp.asarray(0, dtype=jnp.int64))
    n.value = n.value + 1
    return self.inner2(self.inner(x)) + k + n.value


class Top(nn.Module):
  a: Any = None
  b: Any = None
  c: Any = None
  d: Any = None
  calls: tuple = ()

  @nn.compact
  def __call__(self, x):
    for f in self.calls:
      x = getattr(self, f)(x)
    return x


def build(c):
  objs = []
  for d in c['insts']:
    objs.append(Leaf(w=d['w']) if d['kind'] == 'leaf' else (Wrap(inner=objs[d['inner']], w=d['w']) if d['kind'] == 'wrap' else
                                                            Pair(inner=objs[d['inner']], inner2=objs[d['inner2']], w=d['w'])))
  return Top(calls=tuple(c['calls']), **{f: objs[i] for f, i in c['fields'].items()}), objs


def leaves(tree, name, prefix=()):
  out = []
  for k, v in tree.items():
    if isinstance(v, dict):
      out += leaves(v, name, prefix + (k,))
    elif k == name:
      out.append(['/'.join(prefix), int(v)])
  return out


def run_case(c):
  top, _ = build(c)
  x = jnp.asarray(c['x'], dtype=jnp.int64)
  y, variables = top.init_with_output(jax.random.key(0), x)
  variables = flax.core.unfreeze(variables)
  out = {'y_init': int(y), 'counts': leaves(variables.get('count', {}), 'n'), 'params': leaves(variables.get('params', {}), 'w')}
  y2, upd = top.apply(variables, x, mutable=['count'])
  out['y_apply'] = int(y2)
  out['counts_apply'] = leaves(flax.core.unfreeze(upd)['count'], 'n')
  b = top.bind(variables)
  same = []
  for f1, f2, depth in c['identity_pairs']:
    o1, o2 = getattr(b, f1), getattr(b, f2)
    for _ in range(depth[0]):
      o1 = o1.inner
    for _ in range(depth[1]):
      o2 = o2.inner
    same.append(o1 is o2)
  out['same'] = same
  # bind followed by unbind hands back an equivalent module and the variables it was bound to
  try:
    ub, ubvars = b.unbind()
    ubvars = flax.core.unfreeze(ubvars)
    yu, vu = ub.init_with_output(jax.random.key(0), x)
    vu = flax.core.unfreeze(vu)
    ya, upd2 = ub.apply(ubvars, x, mutable=['count'])
    out['unbind'] = {'y_init': int(yu), 'counts': leaves(vu.get('count', {}), 'n'), 'params': leaves(vu.get('params', {}), 'w'),
                     'vars_same': jax.tree_util.tree_structure(ubvars) == jax.tree_util.tree_structure(variables) and
                                  all(int(p) == int(q) for p, q in zip(jax.tree_util.tree_leaves(ubvars), jax.tree_util.tree_leaves(variables))),
                     'y_apply': int(ya), 'counts_apply': leaves(flax.core.unfreeze(upd2)['count'], 'n')}
  except Exception as e:  # pylint: disable=broad-except
    out['unbind'] = {'err': type(e).__name__, 'msg': str(e)[:200]}
  # a submodule taken out of the bound tree with unbind works on its own subtree
  sub = {}
  for f in sorted(c['fields']):
    try:
      m, mv = getattr(b, f).unbind()
      mv = flax.core.unfreeze(mv)
      ys_, up_ = m.apply(mv, x, mutable=['count'])
      _, fresh = m.init_with_output(jax.random.key(0), x)
      fresh = flax.core.unfreeze(fresh)
      sub[f] = {'y': int(ys_), 'paths_bound': sorted(p for p, _ in leaves(mv.get('params', {}), 'w')), 'paths_fresh': sorted(p for p, _ in leaves(fresh.get('params', {}), 'w'))}
    except Exception as e:  # pylint: disable=broad-except
      sub[f] = {'err': type(e).__name__, 'msg': str(e)[:200]}
  out['unbind_sub'] = sub
  return out


class Stack(nn.Module):
  """stamps out copies of a template module given as an attribute with the public Module.copy()"""
  template: Any = None
  names: tuple = ()

  @nn.compact
  def __call__(self, x):
    for nm in self.names:
      m = self.template.copy(name=nm) if nm is not None else self.template.copy()
      x = m(x)
    return x


def build_desc(d):
  if d['kind'] == 'leaf':
    return Leaf(w=d['w'])
  if d['kind'] == 'wrap':
    return Wrap(inner=build_desc(d['inner']), w=d['w'])
  return Pair(inner=build_desc(d['inner']), inner2=build_desc(d['inner2']), w=d['w'])


def run_copy_case(c):
  tmpl = build_desc(c['template'])
  top = Stack(template=tmpl, names=tuple(c['names']))
  x = jnp.asarray(c['x'], dtype=jnp.int64)
  y, variables = top.init_with_output(jax.random.key(0), x)
  variables = flax.core.unfreeze(variables)
  out = {'y_init': int(y), 'counts': leaves(variables.get('count', {}), 'n'), 'params': leaves(variables.get('params', {}), 'w')}
  y2, upd = top.apply(variables, x, mutable=['count'])
  out['y_apply'] = int(y2)
  out['counts_apply'] = leaves(flax.core.unfreeze(upd)['count'], 'n')
  sh = jax.eval_shape(top.init, jax.random.key(0), x)
  out['shape_paths'] = sorted(p for p, _ in leaves(jax.tree_util.tree_map(lambda a: 0, flax.core.unfreeze(sh)).get('params', {}), 'w'))
  # every copy applied on its own subtree, with a fresh unbound template, on the value it receives inside the parent
  alone = []
  for nm, xin in zip(c['resolved_names'], c['inputs_apply']):
    try:
      sub = {col: variables[col][nm] for col in ('params', 'count')}
      ys_, _ = build_desc(c['template']).apply(sub, jnp.asarray(xin, dtype=jnp.int64), mutable=['count'])
      alone.append(int(ys_))
    except Exception as e:  # pylint: disable=broad-except
      alone.append({'err': type(e).__name__, 'msg': str(e)[:160]})
  out['alone'] = alone
  return out


def share_scope_probe():
  """nn.share_scope(wrapper, base): the wrapper's children move into base's scope. Without a name clash the two sets of variables sit side
  by side under base's name; with a clash (a wrapper child named like a base child) an error is raised in either order"""
  ones, zeros = nn.initializers.ones, nn.initializers.zeros

  class Base(nn.Module):
    def setup(self):
      self.proj = nn.Dense(4, use_bias=False, kernel_init=ones)

    def __call__(self, x):
      return self.proj(x)

  class Wrapper(nn.Module):
    base: nn.Module
    child_name: str = 'proj'

    def setup(self):
      setattr(self, self.child_name, nn.Dense(4, use_bias=False, kernel_init=zeros))
      nn.share_scope(self, self.base)

    def __call__(self, x):
      return self.base(x) + getattr(self, self.child_name)(x)

  class Model(nn.Module):
    child_name: str = 'proj'

    @nn.compact
    def __call__(self, x):
      base = Base()
      h = base(x)
      return h + Wrapper(base, self.child_name)(x)

  class LateBase(nn.Module):
    @nn.compact
    def __call__(self, x):
      return nn.Dense(4, use_bias=False, kernel_init=ones, name='proj')(x)

  class ModelMirror(nn.Module):
    @nn.compact
    def __call__(self, x):
      return Wrapper(LateBase())(x)
  x = jnp.ones((2, 4))
  out = {}

  def go(model):
    try:
      y, v = model.init_with_output(jax.random.key(0), x)
      return {'y': float(y[0, 0]), 'shapes': sorted('/'.join(str(getattr(k, 'key', k)) for k in p) for p, _ in jax.tree_util.tree_flatten_with_path(flax.core.unfreeze(v))[0])}
    except Exception as e:  # pylint: disable=broad-except
      return {'raised': type(e).__name__}
  out['no_clash'] = go(Model(child_name='extra'))
  out['clash_base_first'] = go(Model())
  out['clash_wrapper_first'] = go(ModelMirror())
  return out


def main(payload):
  if payload.get('share_scope'):
    return {'share_scope': share_scope_probe()}
  res = []
  for c in payload['cases']:
    try:
      res.append({'ok': run_copy_case(c) if 'template' in c else run_case(c)})
    except Exception as e:  # pylint: disable=broad-except
      import traceback
      res.append({'err': type(e).__name__, 'msg': str(e)[:200], 'tb': traceback.format_exc()[-600:]})
  return {'cases': res}


if __name__ == '__main__':
  common.worker_main(main)
