"""Implementation side of C08, two further families: (1) nnx.grad / value_and_grad over two arguments that share a Variable, each with its own
DiffState filter; (2) histories of calls of an nnx.vmap-ed function under nnx.split_rngs (decorator, context manager, explicit restore_rngs)
against the per-index loop with the reference key derivation."""
import jaxcompat  # noqa: F401
import warnings
warnings.filterwarnings('ignore')
import common
import jax
import jax.numpy as jnp
import numpy as np
from flax import nnx

FILTERS = {
    'Param': lambda: nnx.Param, 'a': lambda: nnx.PathContains('a'), 'b': lambda: nnx.PathContains('b'), 'w': lambda: nnx.PathContains('w'),
    'not_w': lambda: nnx.Not(nnx.PathContains('w')), 'all': lambda: ..., 'none': lambda: nnx.Nothing, 'ab': lambda: nnx.Any(nnx.PathContains('a'), nnx.PathContains('b')),
    'list_w_a': lambda: [nnx.PathContains('w'), nnx.PathContains('a')],
}


def safe(fn):
  try:
    return {'ok': fn()}
  except Exception as e:  # pylint: disable=broad-except
    return {'err': type(e).__name__, 'msg': str(e)[:160]}


class A(nnx.Module):
  def __init__(self, shared, v):
    self.w = shared
    self.a = nnx.Param(jnp.asarray(v, dtype=jnp.float64))


class B(nnx.Module):
  def __init__(self, shared, v):
    self.w = shared
    self.b = nnx.Param(jnp.asarray(v, dtype=jnp.float64))


def alias_grad(c):
  x = jnp.asarray(float(c['x']))

  def loss(ma, mb, x):
    return (ma.a * ma.w) * x + mb.b * mb.w * mb.w + ma.a * mb.b

  def mk():
    shared = nnx.Param(jnp.asarray(float(c['w']), dtype=jnp.float64))
    return A(shared, float(c['a'])), B(shared, float(c['b'])), shared
  f0, f1 = FILTERS[c['f0']](), FILTERS[c['f1']]()
  p0, p1 = nnx.filterlib.to_predicate(f0), nnx.filterlib.to_predicate(f1)
  ma, mb, shared = mk()
  sel = {'w0': bool(p0(('w',), shared)), 'w1': bool(p1(('w',), shared)), 'a': bool(p0(('a',), ma.a)), 'b': bool(p1(('b',), mb.b))}

  def impl():
    ma, mb, shared = mk()
    tf = nnx.value_and_grad if c['vg'] else nnx.grad
    res = tf(loss, argnums=(nnx.DiffState(0, f0), nnx.DiffState(1, f1)))(ma, mb, x)
    g = res[1] if c['vg'] else res
    out = {}
    for k, gk in enumerate(g):
      for p, sv in nnx.to_flat_state(gk):
        out['%d/%s' % (k, '/'.join(map(str, p)))] = float(np.asarray(sv.value))
    return {'grads': out, 'value': float(res[0]) if c['vg'] else None}

  def ref():
    names = [n for n, s in (('a', sel['a']), ('w', sel['w0']), ('b', sel['b'])) if s]
    base = {'a': float(c['a']), 'w': float(c['w']), 'b': float(c['b'])}

    def pure(vals):
      v = {**{k: jnp.asarray(z) for k, z in base.items()}, **vals}
      return (v['a'] * v['w']) * x + v['b'] * v['w'] * v['w'] + v['a'] * v['b']
    l, g = jax.value_and_grad(pure)({n: jnp.asarray(base[n]) for n in names})
    pos = {'a': '0/a', 'w': '0/w', 'b': '1/b'}      # a shared Variable is reported with the first argument that reaches it
    return {'grads': {pos[n]: float(g[n]) for n in names}, 'value': float(l) if c['vg'] else None}
  return {'sel': sel, 'impl': safe(impl), 'ref': safe(ref)}


class Noisy(nnx.Module):
  def __init__(self, rngs):
    self.rngs = rngs
    self.acc = nnx.BatchStat(jnp.asarray(0, dtype=jnp.uint32))

  def __call__(self, x):
    d = jax.random.bits(self.rngs.noise(), (), dtype=jnp.uint32)
    for _ in range(self.extra):
      d = d ^ jax.random.bits(self.rngs.noise(), (), dtype=jnp.uint32)
    return x + d


def rng_vmap(c):
  n, only, form, extra = c['splits'], c['only'], c['form'], c['extra']
  sel = lambda name: only is None or only == name

  def mk():
    m = Noisy(nnx.Rngs(noise=c['seed'], other=c['seed'] + 1))
    m.extra = extra
    return m
  sa = nnx.StateAxes({'noise': 0, 'other': 0 if sel('other') else None, ...: None}) if sel('noise') else None

  def vmapped(m, x):
    return nnx.vmap(lambda m, x: m(x), in_axes=(sa, 0))(m, x)
  kw = {'splits': n}
  if only is not None:
    kw['only'] = only

  def one_call(m, x):
    if form == 'decorator':
      return nnx.split_rngs(**kw)(vmapped)(m, x)
    if form == 'context':
      with nnx.split_rngs(m, **kw):
        return vmapped(m, x)
    backups = nnx.split_rngs(m, **kw)
    y = vmapped(m, x)
    nnx.restore_rngs(backups)
    return y
  xs = jnp.arange(n, dtype=jnp.uint32)

  def state(m):
    return {s: [np.asarray(jax.random.key_data(getattr(m.rngs, s).key.value)).tolist(), np.asarray(getattr(m.rngs, s).count.value).tolist()] for s in ('noise', 'other')}

  def impl():
    m = mk()
    ys = []
    for _ in range(c['ncalls']):
      ys.append(np.asarray(one_call(m, xs)).tolist())
      if c['between']:
        ys.append(int(jax.random.bits(m.rngs.noise(), (), dtype=jnp.uint32)))       # a plain draw between the calls
    return {'ys': ys, 'state': state(m)}

  def ref():
    m = mk()
    key = {s: getattr(m.rngs, s).key.value for s in ('noise', 'other')}
    count = {'noise': 0, 'other': 0}
    ys = []
    for _ in range(c['ncalls']):
      base = jax.random.fold_in(key['noise'], count['noise'])
      count['noise'] += 1
      if sel('other'):
        count['other'] += 1
      keys = jax.random.split(base, n)
      row = []
      for i in range(n):
        d = jnp.asarray(0, dtype=jnp.uint32)
        for j in range(extra + 1):
          d = d ^ jax.random.bits(jax.random.fold_in(keys[i], j), (), dtype=jnp.uint32)
        row.append(int(xs[i] + d))
      ys.append(row)
      if c['between']:
        ys.append(int(jax.random.bits(jax.random.fold_in(key['noise'], count['noise']), (), dtype=jnp.uint32)))
        count['noise'] += 1
    return {'ys': ys, 'state': {s: [np.asarray(jax.random.key_data(key[s])).tolist(), count[s]] for s in ('noise', 'other')}}
  if not sel('noise'):
    return {'skip': True}
  return {'impl': safe(impl), 'ref': safe(ref)}


class Holder(nnx.Module):
  def __init__(self, v):
    self.v = v


def bare_alias():
  """one Variable reached under two different axis specifications, at least once as a bare Variable argument / output: every case must be rejected"""
  fresh = lambda: nnx.Param(jnp.arange(3.0))
  def c1():
    v = fresh()
    return nnx.vmap(lambda a, b: a.value + b.value, in_axes=(0, None))(v, v)
  def c2():
    v = fresh()
    return nnx.vmap(lambda m, b: m.v.value + b.value, in_axes=(0, None))(Holder(v), v)
  def c3():
    v = fresh()
    return nnx.vmap(lambda m, b: m.v.value + b.value, in_axes=(nnx.StateAxes({nnx.Param: None}), 0), axis_size=3)(Holder(v), v)
  def c4():
    return nnx.vmap(lambda a: a, in_axes=0, out_axes=1)(nnx.Param(jnp.ones((3, 2)))).value
  def c5():
    v = fresh()
    return nnx.scan(lambda a, b: a.value + b.value, in_axes=(0, None), out_axes=0)(v, v)
  def c6():
    p = nnx.Param(jnp.array(2.0))
    return nnx.grad(lambda a, b: a.value * b.value, argnums=0)(p, p).value
  def c7():
    m = Holder(fresh())
    return nnx.vmap(lambda a, b: a.v.value + b.v.value, in_axes=(0, None))(m, m)
  class Half(nnx.Module):
    def __init__(self, w):
      self.w = w

  class Tied(nnx.Module):
    def __init__(self):
      w = nnx.Param(jnp.arange(1.0, 4.0))
      self.enc = Half(w)
      self.dec = Half(w)
  def t1():
    return nnx.vmap(lambda m, x: m.enc.w.value * 10 + m.dec.w.value.sum() + x,
                    in_axes=(nnx.StateAxes({nnx.PathContains('enc'): 0, nnx.PathContains('dec'): None}), 0))(Tied(), jnp.zeros((3,)))
  def t2():
    return nnx.vmap(lambda m: m.enc.w.value * 10 + m.dec.w.value.sum(),
                    in_axes=(nnx.StateAxes({nnx.PathContains('dec'): None, nnx.PathContains('enc'): 0}),), axis_size=3)(Tied())
  def t3():
    return nnx.scan(lambda m, c: c + m.dec.w.value.sum(), in_axes=(nnx.StateAxes({nnx.PathContains('enc'): nnx.Carry, nnx.PathContains('dec'): 0}), nnx.Carry),
                    out_axes=nnx.Carry)(Tied(), jnp.zeros(()))
  out = {}
  # one module, the same Variable at two paths, consistent path-based specifications: one object
  out['_consistent_tied'] = safe(lambda: np.asarray(nnx.vmap(lambda m: m.enc.w.value + m.dec.w.value,
                                                            in_axes=(nnx.StateAxes({nnx.PathContains('enc'): 0, nnx.PathContains('dec'): 0}),))(Tied())).tolist())
  for name, fn in (('vmap(StateAxes{enc: 0, dec: None})(tied)', t1), ('vmap(StateAxes{dec: None, enc: 0})(tied)', t2), ('scan(StateAxes{enc: Carry, dec: 0})(tied)', t3)):
    out[name] = safe(lambda: np.asarray(fn()).tolist())
  for name, fn in (('vmap(in_axes=(0, None))(v, v)', c1), ('vmap(in_axes=(0, None))(Holder(v), v)', c2), ('vmap(in_axes=(StateAxes({Param: None}), 0))(Holder(v), v)', c3),
                   ('vmap(lambda v: v, in_axes=0, out_axes=1)(v)', c4), ('scan(in_axes=(0, None))(v, v)', c5), ('grad(argnums=0)(p, p)', c6), ('vmap(in_axes=(0, None))(m, m)', c7)):
    r = safe(lambda: np.asarray(fn()).tolist())
    out[name] = r
  # consistent aliasing of a bare Variable stays accepted
  v = fresh()
  out['_consistent'] = safe(lambda: np.asarray(nnx.vmap(lambda a, b: a.value + b.value, in_axes=(0, 0))(v, v)).tolist())
  return out


def main(payload):
  if payload.get('bare_alias'):
    return {'bare_alias': bare_alias()}
  return {'alias': [alias_grad(c) for c in payload.get('alias', [])], 'rng': [rng_vmap(c) for c in payload.get('rng', [])]}


if __name__ == '__main__':
  common.worker_main(main)
