"""Implementation side of C04: functions on object graphs run eagerly and under nnx transforms."""
import impl_graph as IG  # imports jaxcompat first
import common
import copy
import jax
import jax.numpy as jnp
import numpy as np
from flax import nnx


def resolve(args, p):
  x = args[p[0]]
  for k in p[1:]:
    if isinstance(x, nnx.Object):
      x = getattr(x, k)
    elif isinstance(x, IG.NT):
      x = getattr(x, k)
    elif isinstance(x, (list, tuple)):
      x = x[k]
    elif isinstance(x, dict):
      x = x[k]
    else:
      raise LookupError('path %r' % (p,))
  return x


def ev(args, e):
  k = e[0]
  if k == 'const':
    return jnp.asarray(e[1], dtype=jnp.int64)
  if k == 'read':
    v = resolve(args, e[1])
    if not isinstance(v, nnx.Variable):
      raise LookupError('not a Variable')
    return v.value
  a, b = ev(args, e[1]), ev(args, e[2])
  return a + b if k == 'add' else a * b


def run_body(args, body):
  for m in body:
    k = m[0]
    if k == 'setvar':
      v = resolve(args, m[1])
      if not isinstance(v, nnx.Variable):
        raise LookupError('not a Variable')
      v.value = ev(args, m[2])
    elif k == 'setmeta':
      v = resolve(args, m[1])
      if not isinstance(v, nnx.Variable):
        raise LookupError('not a Variable')
      md, target = v.get_metadata(), IG.METAS[m[2]]
      for key in [key for key in md if key not in target and not key.startswith('on_')]:
        delattr(v, key)
      for key, val in target.items():
        setattr(v, key, val)
    elif k == 'setattr':
      node = resolve(args, m[1])
      if not isinstance(node, nnx.Object):
        raise LookupError('not a node')
      s = m[3]
      if s[0] == 'static':
        val = s[1]
      elif s[0] == 'alias':
        val = resolve(args, s[1])
        if not isinstance(val, (nnx.Object, nnx.Variable)):
          raise LookupError('alias of a non-object')
      elif s[0] == 'newvar':
        val = IG.VAR_TYPES[s[1]](ev(args, s[3]), **IG.METAS[s[2]])
      else:
        val = IG.NODE_TYPES[s[1]]()
      setattr(node, m[2], val)
    else:
      node = resolve(args, m[1])
      if not isinstance(node, nnx.Object):
        raise LookupError('not a node')
      delattr(node, m[2])


def make_fn(f):
  def fn(*args, **kw):
    args = args + tuple(kw[k] for k in sorted(kw))      # keyword arguments are the last arguments, in name order
    run_body(args, f['body'])
    r = ev(args, f['ret'])
    if f.get('obj') is not None:
      o = resolve(args, f['obj'])
      if not isinstance(o, (nnx.Object, nnx.Variable)):
        raise LookupError('returned path is not an object')
      return r, o
    return r
  return fn


def observe(objs0, args, out_obj):
  """canonical form of (args, out) + for each reference object, which original object (index into objs0) it is"""
  root = (tuple(args), out_obj if out_obj is not None else 0)
  c = IG.canon(root)
  seen = IG.obj_ids(root)
  # numbering order of canon == insertion order of obj_ids? canon numbers in DFS order; recompute that order here
  order = []
  ids = set()

  def go(x):
    if isinstance(x, (nnx.Variable, nnx.Object)):
      if id(x) in ids:
        return
      ids.add(id(x))
      order.append(x)
      if isinstance(x, nnx.Object):
        for k, v in sorted(vars(x).items()):
          if k != '_object__state':
            go(v)
    elif isinstance(x, IG.NT):
      for k, v in sorted(x._asdict().items()):
        go(v)
    elif isinstance(x, (list, tuple)):
      for v in x:
        go(v)
    elif isinstance(x, dict):
      for k, v in sorted(x.items()):
        go(v)
  go(root)
  pos0 = {id(o): i for i, o in enumerate(objs0)}
  return {'canon': c, 'orig': [pos0.get(id(o)) for o in order]}


def call(kind, c, fn_desc, args, k):
  """one call of the transformed function; returns (value, object or None)"""
  f = make_fn(fn_desc)
  has_obj = fn_desc.get('obj') is not None
  rot = c.get('rot', 0)
  rotate = lambda a: tuple(a[rot:]) + tuple(a[:rot])
  c['_ret_args'] = None
  if kind == 'eager':
    out = None
    a = tuple(args)
    for _ in range(k):
      out = f(*a)
      a = rotate(a)
    c['_ret_args'] = list(a)
    return out if has_obj else (out, None)
  wrap = c.get('wrap')
  if wrap and kind in ('jit', 'remat', 'cond', 'switch'):
    # the same objects handed over inside one container operand (dict / list / nested); the function unpacks it
    n = len(args)
    if wrap == 'dict':
      pack = lambda a: ({'a%d' % i: x for i, x in enumerate(a)},)
      unpack = lambda cont: [cont['a%d' % i] for i in range(n)]
    elif wrap == 'list':
      pack = lambda a: (list(a),)
      unpack = lambda cont: list(cont)
    else:
      pack = lambda a: ({'first': a[0], 'rest': [tuple(a[1:]), jnp.asarray(1, dtype=jnp.int64)]},)
      unpack = lambda cont: [cont['first']] + list(cont['rest'][0])
    g0 = f
    f = lambda cont: g0(*unpack(cont))
    if kind in ('cond', 'switch'):
      o0 = make_fn(c['other'])
      other_w = lambda cont: o0(*unpack(cont))
    args = pack(args)
  if kind in ('jit', 'remat'):
    if kind == 'jit' and c.get('shard'):
      # in_shardings given as StateSharding with several filters (all None on this single device): the call is a plain jit
      sh = nnx.StateSharding({nnx.BatchStat: None, nnx.Param: None, nnx.Cache: None, ...: None}) if c['shard'] == 3 else nnx.StateSharding({nnx.Param: None, ...: None})
      mk = lambda: nnx.jit(f, in_shardings=tuple(sh for _ in args))
    else:
      mk = lambda: (nnx.jit(f) if kind == 'jit' else nnx.remat(f))
    key_ = (kind, id(fn_desc), wrap, c.get('shard'))
    if key_ not in c['_cache']:
      c['_cache'][key_] = mk()
    tf = c['_cache'][key_]
    nkw = c.get('nkw', 0) if kind == 'jit' and not wrap else 0
    out = tf(*args[:len(args) - nkw], **{'kw%d' % i: a for i, a in enumerate(args[len(args) - nkw:])})
    return out if has_obj else (out, None)
  if kind == 'cpartial':
    # cached_partial binds (a clone of) the arguments once; later calls re-use the cached graphdef
    tf = c['_cache'].get((kind, id(fn_desc)))
    if tf is None:
      tf = c['_cache'][(kind, id(fn_desc))] = nnx.cached_partial(nnx.jit(f), *args)
    return tf(), None
  if kind == 'cond':
    other = other_w if wrap else make_fn(c['other'])
    out = nnx.cond(jnp.asarray(c['pred']), f, other, *args) if c['pred'] else nnx.cond(jnp.asarray(False), other, f, *args)
    return out, None
  if kind == 'switch':
    other = other_w if wrap else make_fn(c['other'])
    branches = [other, other, other]
    branches[c['index']] = f
    out = nnx.switch(jnp.asarray(c['index']), branches, *args)
    return out, None
  if kind == 'fori':
    def body(i, val):
      a, _ = val
      r = f(*a)
      return rotate(a), r
    a, r = nnx.fori_loop(0, k, body, (tuple(args), jnp.asarray(0, dtype=jnp.int64)))
    c['_ret_args'] = list(a)
    return r, None
  if kind == 'while':
    def cond_fun(val):
      return val[1] < k

    def body(val):
      a, i, _ = val
      r = f(*a)
      return rotate(a), i + 1, r
    a, i, r = nnx.while_loop(cond_fun, body, (tuple(args), jnp.asarray(0, dtype=jnp.int64), jnp.asarray(0, dtype=jnp.int64)))
    c['_ret_args'] = list(a)
    return r, None
  raise ValueError(kind)


def run_case(c):
  """c: desc, args (object indices), calls: list of {fn, kind, k}; the same transformed function object is re-used
  when a later call names the same fn index"""
  objs, _ = IG.build(c['desc'])
  args = [objs[i] for i in c['args']]
  twin_objs, _ = IG.build(c['desc'])
  twin_args = [twin_objs[i] for i in c['args']]
  c['_cache'] = {}
  out = []
  fns = c['fns']
  for call_ in c['calls']:
    fd = fns[call_['fn']]
    kind, k = call_['kind'], call_.get('k', 1)
    res = {}
    try:
      cc = {**c, **call_, '_cache': c['_cache']}
      val, obj = call(kind, cc, fd, args, k)
      # loops: the carry handed back is what the caller goes on with
      res['impl'] = {'value': int(np.asarray(val)) % 2**64, **observe(objs, cc['_ret_args'] or args, obj)}
    except Exception as e:  # pylint: disable=broad-except
      res['impl'] = {'err': type(e).__name__, 'msg': str(e)[:160]}
    try:
      cc = {**c, **call_}
      val, obj = call('eager', cc, fd, twin_args, k)
      res['eager'] = {'value': int(np.asarray(val)) % 2**64, **observe(twin_objs, cc['_ret_args'] if kind in ('fori', 'while') else twin_args, obj)}
    except Exception as e:  # pylint: disable=broad-except
      res['eager'] = {'err': type(e).__name__, 'msg': str(e)[:160]}
    out.append(res)
    if 'err' in res['impl'] or 'err' in res['eager']:
      break
  return out


def probe_f16():
  class M(nnx.Module):
    def __init__(self):
      self.w = nnx.Param(jnp.asarray(1.0))

  def step(m):
    m.w.value = m.w.value + 1.0
    return m.w.value + (m.extra.value if hasattr(m, 'extra') else 0.0)
  m, twin = M(), M()
  f = nnx.cached_partial(nnx.jit(step), m)
  f(); f(); step(twin); step(twin)
  m.extra = nnx.Param(jnp.asarray(100.0)); twin.extra = nnx.Param(jnp.asarray(100.0))
  a, b = float(f()), float(step(twin))
  m.w = nnx.Param(jnp.asarray(50.0)); twin.w = nnx.Param(jnp.asarray(50.0))
  f(); step(twin)
  return {'fails': a != b or float(m.w.value) != float(twin.w.value), 'after_new_attr': [a, b], 'after_rebind': [float(m.w.value), float(twin.w.value)]}


def probe_f20():
  class A(nnx.Module):
    def __init__(self):
      self.w = nnx.Param(jnp.asarray(1.0))
      self.arr = np.array(3.0)

  def step(a):
    a.w.value = a.w.value + a.arr
    return a.w.value
  a, twin = A(), A()
  want = float(nnx.jit(step)(twin))
  try:
    got = float(nnx.cached_partial(nnx.jit(step), a)())
    return {'fails': got != want, 'got': got, 'want': want}
  except Exception as e:  # pylint: disable=broad-except
    return {'fails': True, 'err': type(e).__name__, 'msg': str(e)[:120], 'want': want}


def probe_alias():
  class M(nnx.Module):
    def __init__(self):
      self.w = nnx.Param(jnp.asarray(1.0))
      self.sub = nnx.Linear(1, 1, rngs=nnx.Rngs(0))

  def step(a, b):
    a.w.value = a.w.value + 1.0
    return b.w.value if hasattr(b, 'w') else b.bias.value[0]
  out = {}
  for name, pick in (('same-twice', lambda m: (m, m)), ('child-after-parent', lambda m: (m, m.sub))):
    m = M()
    try:
      f = nnx.cached_partial(nnx.jit(step), *pick(m))
      r1, r2 = float(f()), float(f())
      out[name] = {'ok': [r1, r2, float(m.w.value)]}
    except Exception as e:  # pylint: disable=broad-except
      out[name] = {'err': type(e).__name__, 'msg': str(e)[:120]}
  return out


def metadata_edits(cases):
  """functions that edit the METADATA of a Variable they were given (remove an entry, re-bind one, add one) next to its value, run
  eagerly and under a transform, twice in a row on the same objects: the caller's Variables end up the same"""
  import numpy as np
  out = []
  for c in cases:
    def mk():
      class Model(nnx.Module):
        def __init__(self):
          self.w = nnx.Param(jnp.arange(3, dtype=jnp.int64) + 1, warmup=True, tag='a', extra=1)
          self.steps = nnx.Variable(jnp.zeros((), jnp.int64))
      return Model()

    def step(m, x):
      md = m.w.get_metadata()
      lr = 1
      if 'rm_flag' in c['edits'] and 'warmup' in md:
        lr = 3
        del m.w.warmup
      if 'rm_extra' in c['edits'] and 'extra' in md:
        del m.w.extra
      if 'rebind' in c['edits']:
        m.w.tag = 'b'
      if 'add' in c['edits']:
        m.w.seen = True
      m.w.value = m.w.value + lr * x
      m.steps.value = m.steps.value + 1
      return (m.w.value * x).sum()
    kind = c['kind']
    fn = {'jit': lambda: nnx.jit(step), 'remat': lambda: nnx.remat(step), 'cond': lambda: (lambda m, x: nnx.cond(x.sum() > 0, step, step, m, x)),
          'switch': lambda: (lambda m, x: nnx.switch(0, [step, step], m, x))}[kind]()
    snap = lambda m: {'w': np.asarray(m.w.value).tolist(), 'steps': int(m.steps.value), 'meta': sorted((k, repr(v)) for k, v in m.w.get_metadata().items())}
    try:
      eager, lifted = mk(), mk()
      w0 = lifted.w
      rows = []
      for call in range(2):
        x = jnp.full((3,), call + 1, dtype=jnp.int64)
        ye, yl = step(eager, x), fn(lifted, x)
        rows.append({'y_same': int(ye) == int(yl), 'state_same': snap(eager) == snap(lifted), 'same_object': lifted.w is w0, 'eager': snap(eager), 'lifted': snap(lifted)})
      out.append({'ok': rows})
    except Exception as e:  # pylint: disable=broad-except
      out.append({'err': type(e).__name__, 'msg': str(e)[:200]})
  return out


def loop_structure_probe():
  """loop bodies that change which object sits where (re-bind an attribute to a fresh Variable, swap two Variables): nnx may refuse them, but when it
  accepts them the caller's objects must end up as after the unrolled Python loop -- values AND which object each attribute holds"""
  class M(nnx.Module):
    def __init__(self):
      self.w = nnx.Param(jnp.asarray(1, dtype=jnp.int64))
      self.b = nnx.Param(jnp.asarray(10, dtype=jnp.int64))

  def rebind(m):
    m.w = nnx.Param(m.w.value + 7)

  def swap(m):
    m.w, m.b = m.b, m.w
  out = []
  for name, edit in (('rebind', rebind), ('swap', swap)):
    for form in ('fori', 'while'):
      for k in (1, 2, 3):
        def view(m, w0, b0):
          ident = lambda v: 'w0' if v is w0 else 'b0' if v is b0 else 'fresh'
          return {'w': int(m.w.value), 'b': int(m.b.value), 'w_is': ident(m.w), 'b_is': ident(m.b), 'w0': int(w0.value), 'b0': int(b0.value)}
        e = M()
        ew, eb = e.w, e.b
        for _ in range(k):
          edit(e)
        want = view(e, ew, eb)
        m = M()
        w0, b0 = m.w, m.b
        try:
          if form == 'fori':
            def body(i, m):
              edit(m)
              return m
            nnx.fori_loop(0, k, body, m)
          else:
            def wbody(c):
              i, m = c
              edit(m)
              return i + 1, m
            nnx.while_loop(lambda c: c[0] < k, wbody, (jnp.asarray(0), m))
          got = view(m, w0, b0)
        except Exception as ex:  # pylint: disable=broad-except
          got = {'refused': type(ex).__name__}
        out.append({'edit': name, 'form': form, 'k': k, 'got': got, 'eager': want})
  return out


def long_list_probe():
  """a module holding a list of 12 Variables (and a dict keyed '0'..'11'), every one updated by its own amount, under each transform: as eager"""
  import numpy as np

  class M(nnx.Module):
    def __init__(self):
      self.layers = [nnx.Param(jnp.asarray(i, dtype=jnp.int64)) for i in range(12)]
      self.table = {str(i): nnx.BatchStat(jnp.asarray(100 + i, dtype=jnp.int64)) for i in range(12)}

  def step(m, x):
    for i, v in enumerate(m.layers):
      v.value = v.value * 3 + (i + 1) * x
    for k, v in m.table.items():
      v.value = v.value + int(k) * x
    return sum(v.value * (i + 1) for i, v in enumerate(m.layers)) + sum(v.value for v in m.table.values())
  out = []
  forms = {'jit': lambda: nnx.jit(step), 'remat': lambda: nnx.remat(step), 'cond': lambda: (lambda m, x: nnx.cond(x > 0, step, step, m, x)),
           'switch': lambda: (lambda m, x: nnx.switch(0, [step, step], m, x)),
           'fori': lambda: (lambda m, x: (nnx.fori_loop(0, 2, lambda i, c: (step(c[0], c[1]), c)[1], (m, x)), step(m, x))[1]),
           'jit_sharded': lambda: nnx.jit(step, in_shardings=(nnx.StateSharding({nnx.Param: None, nnx.BatchStat: None}), None))}
  snap = lambda m: [int(v.value) for v in m.layers] + [int(m.table[str(i)].value) for i in range(12)]
  for name, mk in forms.items():
    try:
      e, l = M(), M()
      x = jnp.asarray(2, dtype=jnp.int64)
      if name == 'fori':
        step(e, x); step(e, x)
      ye, yl = step(e, x), mk()(l, x)
      out.append({'form': name, 'same': int(ye) == int(yl) and snap(e) == snap(l), 'eager': snap(e), 'lifted': snap(l)})
    except Exception as ex:  # pylint: disable=broad-except
      out.append({'form': name, 'err': type(ex).__name__, 'msg': str(ex)[:200]})
  return out


def main(payload):
  if payload.get('long_list'):
    return {'long_list': long_list_probe()}
  if payload.get('loop_structure'):
    return {'loop_structure': loop_structure_probe()}
  if 'metadata_edits' in payload:
    return {'metadata_edits': metadata_edits(payload['metadata_edits'])}
  if payload.get('probe'):
    return {'F16-cached-partial-stale': probe_f16(), 'F20-cached-partial-array-attr': probe_f20(), 'alias': probe_alias()}
  res = []
  for c in payload['cases']:
    try:
      res.append({'ok': run_case(c)})
    except Exception as e:  # pylint: disable=broad-except
      import traceback
      res.append({'err': type(e).__name__, 'tb': traceback.format_exc()[-800:]})
  return {'cases': res}


if __name__ == '__main__':
  common.worker_main(main)
