"""Implementation side of C11: runs save histories with crash injection at atomic file-system operations."""
import jaxcompat  # noqa: F401
import warnings
warnings.filterwarnings('ignore')
import os
import re
import shutil
import common
import numpy as np
from flax import io as fio
from flax import serialization
from flax.training import checkpoints as C
from flax import config as fconfig

SCRATCH = os.path.join(common.VERIF, '.scratch', 'c11')
TMPSUF = '.orbax-checkpoint-tmp'


class Crash(BaseException):
  pass


class Injector:
  """Counts atomic operations; raises Crash when the budget is used up (before executing the next one)."""

  def __init__(self):
    self.budget = None
    self.count = 0
    self.log = []

  def tick(self, what):
    if self.budget is not None and self.count >= self.budget:
      raise Crash(what)
    self.count += 1
    self.log.append(what)


INJ = Injector()
_orig = {}


def install():
  _orig.update(rename=fio.rename, remove=fio.remove, rmtree=fio.rmtree, GFile=fio.GFile, shutil_rmtree=shutil.rmtree, os_rename=os.rename, os_mkdir=os.mkdir,
               os_remove=os.remove)

  def native():
    # the native shim of flax/io.py (no tensorflow): its operations are made of os / shutil primitives, and those are the crash points
    return fio.io_mode == fio.BackendMode.DEFAULT

  def rename(src, dst, overwrite=False):
    import threading, time
    if threading.current_thread() is not threading.main_thread():
      time.sleep(0.05)       # an async save is still in flight when the next save_checkpoint call starts
    if not native():
      INJ.tick('rename')
    return _orig['rename'](src, dst, overwrite=overwrite)

  def remove(path):
    if not native():
      INJ.tick('remove')
    return _orig['remove'](path)

  def os_remove(path, *a, **k):
    if native() and str(path).startswith(SCRATCH):
      INJ.tick('remove')
    return _orig['os_remove'](path, *a, **k)

  def rmtree_2step(path, real):
    INJ.tick('rmtree_begin')
    # half-delete: remove one file inside so that the directory is no longer a complete checkpoint
    for root, _, files in os.walk(path):
      for f in sorted(files):
        os.unlink(os.path.join(root, f))
      break
    INJ.tick('rmtree_end')
    return real(path)

  def rmtree(path):
    if native():
      return _orig['rmtree'](path)        # goes through shutil.rmtree below
    return rmtree_2step(path, _orig['rmtree'])

  def sh_rmtree(path, *a, **k):
    base = os.path.basename(str(path))
    if str(path).startswith(SCRATCH) and re.search(r'\d', base) and TMPSUF not in base:
      return rmtree_2step(str(path), lambda p: _orig['shutil_rmtree'](p, *a, **k))
    return _orig['shutil_rmtree'](path, *a, **k)

  class GFile:
    def __init__(self, name, mode='r'):
      self.name, self.mode = name, mode
      if 'w' in mode:
        INJ.tick('create')
      self.f = _orig['GFile'](name, mode)

    def __enter__(self):
      self.f.__enter__()
      return self

    def __exit__(self, *exc):
      return self.f.__exit__(*exc)

    def write(self, data):
      try:
        INJ.tick('write')
      except Crash:
        self.f.write(data[:max(1, len(data) // 2)])   # torn write
        self.f.__exit__(None, None, None)
        raise
      return self.f.write(data)

    def __getattr__(self, k):
      return getattr(self.f, k)

  def os_mkdir(path, *a, **k):
    if TMPSUF in os.path.basename(str(path)) and str(path).startswith(SCRATCH):
      INJ.tick('mktmpdir')
    return _orig['os_mkdir'](path, *a, **k)

  def os_rename(src, dst, *a, **k):
    if TMPSUF in os.path.basename(str(src)) and str(src).startswith(SCRATCH):
      INJ.tick('filldir')
      INJ.tick('rename')
    elif native() and str(src).startswith(SCRATCH):
      INJ.tick('rename')
    return _orig['os_rename'](src, dst, *a, **k)
  fio.rename, fio.remove, fio.rmtree, fio.GFile = rename, remove, rmtree, GFile
  shutil.rmtree, os.rename, os.mkdir, os.remove = sh_rmtree, os_rename, os_mkdir, os_remove


def classify(name, prefix):
  if not name.startswith(prefix):
    return ['other', name]
  rest = name[len(prefix):]
  if rest == 'tmp':
    return ['tmp']
  if TMPSUF in rest:
    return ['orbtmp', rest[:rest.index(TMPSUF)]]
  return ['step', rest]


TREE_OK = []


def tree_ok(r):
  """the saved tree has the payload, an empty dict node and a nested empty node: all of them come back"""
  try:
    return set(r.keys()) == {'v', 'e', 'n'} and dict(r['e']) == {} and set(r['n'].keys()) == {'x'} and dict(r['n']['x']) == {}
  except BaseException:  # pylint: disable=broad-except
    return False


def snapshot(d, prefix):
  out = []
  if not os.path.isdir(d):
    return out
  for name in sorted(os.listdir(d)):
    p = os.path.join(d, name)
    cls = classify(name, prefix)
    if os.path.isdir(p):
      try:
        r = C.restore_checkpoint(p, None)
        out.append([cls, 'dir', int(np.asarray(r['v'])[0])])
        TREE_OK.append(tree_ok(r))
      except BaseException:  # pylint: disable=broad-except
        out.append([cls, 'dir', None])
    else:
      try:
        with open(p, 'rb') as f:
          r = serialization.msgpack_restore(f.read())
        out.append([cls, 'file', int(np.asarray(r['v'])[0])])
        TREE_OK.append(tree_ok(r))
      except BaseException:  # pylint: disable=broad-except
        out.append([cls, 'file', None])
  return out


def api_view(d, prefix):
  v = {}
  try:
    lp = C.latest_checkpoint(d, prefix)
    v['latest'] = os.path.basename(lp)[len(prefix):] if lp else None
  except BaseException as e:  # pylint: disable=broad-except
    v['latest'] = 'EXC:' + type(e).__name__
  try:
    v['steps'] = [repr(s) for s in C.available_steps(d, prefix, step_type=float)]
  except BaseException as e:  # pylint: disable=broad-except
    v['steps'] = 'EXC:' + type(e).__name__
  try:
    r = C.restore_checkpoint(d, None, prefix=prefix)
    v['restore_latest'] = None if r is None else int(np.asarray(r['v'])[0])
  except BaseException as e:  # pylint: disable=broad-except
    v['restore_latest'] = 'EXC:' + type(e).__name__
  return v


def run_history(h, hid):
  d = os.path.join(SCRATCH, 'h%s_%d' % (os.getpid(), hid))
  _orig.get('shutil_rmtree', shutil.rmtree)(d, ignore_errors=True)
  os.makedirs(d)
  prefix = h['prefix']
  out = []
  mode0 = fio.io_mode
  fio.set_mode(fio.BackendMode.DEFAULT if h.get('native_io') else mode0)
  try:
    return _run_history(h, d, prefix, out)
  finally:
    fio.set_mode(mode0)


class HeldAM(C.AsyncManager):
  """every task waits for its own gate: the caller can overwrite its buffers between the return of save_checkpoint and the
  start of the worker (the checkpoint must hold what was passed to save_checkpoint)"""

  def __init__(self):
    super().__init__()
    self.current = None

  def save_async(self, task):
    import threading
    gate = threading.Event()
    self.current = gate

    def held():
      gate.wait(10)
      return task()
    return super().save_async(held)

  def release(self):
    if self.current is not None:
      self.current.set()


def _run_history(h, d, prefix, out):
  am = HeldAM() if h.get('async') else None
  save = C.save_checkpoint_multiprocess if h.get('multiprocess') else C.save_checkpoint
  for sv in h['saves']:
    step = sv['step']
    step = float(step['f']) if isinstance(step, dict) else int(step)
    target = {'v': np.array([sv['payload']], dtype=np.int64), 'e': {}, 'n': {'x': {}}}
    del TREE_OK[:]
    INJ.budget, INJ.count, INJ.log = sv['crash'], 0, []
    fconfig.update('flax_use_orbax_checkpointing', bool(h['orbax']))
    res = {}
    try:
      try:
        save(d, target, step, prefix=prefix, keep=sv['keep'], overwrite=sv['overwrite'], keep_every_n_steps=sv['every'], async_manager=am)
        target['v'][0] = 987654321          # the caller re-uses its buffer as soon as the call returns
      finally:
        if am:
          am.release()
      last = sv is h['saves'][-1]
      if am and (last or not h.get('overlap')):
        am.wait_previous_save()
        if am.save_future is not None:
          am.save_future.result()
      res['outcome'] = 'saved'
    except Crash:
      res['outcome'] = 'crash'
    except BaseException as e:  # pylint: disable=broad-except
      res['outcome'] = 'exc:' + type(e).__name__
      res['msg'] = str(e)[:150]
    INJ.budget = None
    res['ops'] = list(INJ.log)
    res['nops'] = INJ.count
    res['step_str'] = str(step)
    settled = not (am and h.get('overlap')) or sv is h['saves'][-1]
    if am and h.get('overlap') and sv is h['saves'][-1]:
      try:
        am.wait_previous_save()
      except BaseException as e:  # pylint: disable=broad-except
        res['async_exc'] = type(e).__name__
    res['settled'] = settled
    res['snapshot'] = snapshot(d, prefix) if settled else []
    res['trees_ok'] = all(TREE_OK)
    res['api'] = api_view(d, prefix) if settled else {'latest': None, 'steps': [], 'restore_latest': None}
    out.append(res)
    if am and res['outcome'] == 'crash':
      am = HeldAM()
  _orig.get('shutil_rmtree', shutil.rmtree)(d, ignore_errors=True)
  return out


def main(payload):
  install()
  os.makedirs(SCRATCH, exist_ok=True)
  res = {'histories': []}
  for i, h in enumerate(payload['histories']):
    try:
      res['histories'].append({'ok': run_history(h, i)})
    except BaseException as e:  # pylint: disable=broad-except
      import traceback
      res['histories'].append({'err': type(e).__name__, 'tb': traceback.format_exc()[-800:]})
  if payload.get('probes'):
    res['probes'] = probes()
  return res


def probes():
  """known findings F3 (prefix ending in a sign) and F14 (Orbax overwrite of an existing step is delete-then-write)"""
  out = {}
  d = os.path.join(SCRATCH, 'probe%d' % os.getpid())
  rm = _orig.get('shutil_rmtree', shutil.rmtree)
  rm(d, ignore_errors=True)
  os.makedirs(d)
  fconfig.update('flax_use_orbax_checkpointing', False)
  try:
    C.save_checkpoint(d, {'v': np.array([1])}, 1, prefix='ckpt-')
    C.save_checkpoint(d, {'v': np.array([2])}, 2, prefix='ckpt-')
    out['F3-prefix-sign'] = {'fails': False}
  except BaseException as e:  # pylint: disable=broad-except
    out['F3-prefix-sign'] = {'fails': True, 'exc': type(e).__name__}
  rm(d, ignore_errors=True)
  os.makedirs(d)
  fconfig.update('flax_use_orbax_checkpointing', True)
  for s in (1, 2, 3):
    C.save_checkpoint(d, {'v': np.array([s])}, s, keep=5)
  INJ.budget, INJ.count, INJ.log = 1, 0, []
  try:
    C.save_checkpoint(d, {'v': np.array([30])}, 3, keep=5, overwrite=True)
  except Crash:
    pass
  INJ.budget = None
  v = api_view(d, 'checkpoint_')
  out['F14-orbax-overwrite-crash'] = {'fails': v['latest'] == '3' and isinstance(v['restore_latest'], str), 'view': v}
  rm(d, ignore_errors=True)
  out['restore_with_target'] = restore_with_target(d)
  rm(d, ignore_errors=True)
  os.makedirs(d, exist_ok=True)
  out['mixed_backends'] = mixed_backends(d)
  rm(d, ignore_errors=True)
  return out


def mixed_backends(root):
  """the back-end changes in the middle of a run (one directory and prefix then holds Orbax directories and msgpack files): every save still
  completes, retention keeps exactly the `keep` newest steps whatever kind the removed checkpoint is, and every retained step restores"""
  bad = []
  for name, kinds in (('orbax_then_legacy', [True, True, False, False]), ('legacy_then_orbax', [False, False, True, True]), ('alternating', [True, False, True, False])):
    d = os.path.join(root, name)
    os.makedirs(d)
    try:
      for step, orbax in enumerate(kinds, start=1):
        fconfig.update('flax_use_orbax_checkpointing', orbax)
        C.save_checkpoint(d, {'v': np.array([100 + step])}, step, keep=2)
        steps = sorted(int(s) for s in C.available_steps(d))
        want = [s for s in (step - 1, step) if s >= 1]
        lp = C.latest_checkpoint(d)
        got = {s: int(np.asarray(C.restore_checkpoint(d, None, step=s)['v'])[0]) for s in steps}
        if steps != want or lp is None or not lp.endswith('checkpoint_%d' % step) or got != {s: 100 + s for s in want}:
          bad.append({'history': name, 'after_step': step, 'steps': steps, 'expected_steps': want, 'latest': lp, 'restored': got})
          break
    except BaseException as e:  # pylint: disable=broad-except
      bad.append({'history': name, 'exc': type(e).__name__, 'msg': str(e)[:200]})
  return bad


def restore_with_target(root):
  """realistic train-state-like trees (lists / tuples of 1, 3, 10, 12 and 23 entries, nested dicts, a namedtuple) saved at three steps
  with keep=2 on both back-ends; the latest and an explicitly named retained step restored into a zero template and with target=None"""
  import collections
  Pt = collections.namedtuple('Pt', ['a', 'b'])
  bad = []

  def state(step, n, zero=False):
    f = (lambda i: 0) if zero else (lambda i: 100 * step + i)
    return {'step': np.asarray(0 if zero else step, np.int32),
            'layers': [{'w': np.full((2, 2), f(i), np.float32)} for i in range(n)],
            'opt': tuple(np.full((3,), f(i), np.int32) for i in range(n)),
            'pt': Pt(np.asarray(f(7)), {'k%d' % j: np.asarray(f(j)) for j in range(n)})}

  def flat(t):
    return [np.asarray(x).tolist() for x in jax.tree_util.tree_leaves(t)]
  import jax
  for backend in ('legacy', 'orbax'):
    fconfig.update('flax_use_orbax_checkpointing', backend == 'orbax')
    for n in (1, 3, 10, 12, 23):
      d = os.path.join(root, '%s_%d' % (backend, n))
      os.makedirs(d)
      saved = {}
      try:
        for step in (1, 2, 3):
          saved[step] = state(step, n)
          C.save_checkpoint(d, saved[step], step, keep=2)
        for label, kw, want in (('latest', {}, 3), ('step=2', {'step': 2}, 2)):
          got = C.restore_checkpoint(d, state(0, n, zero=True), **kw)
          if jax.tree_util.tree_structure(got) != jax.tree_util.tree_structure(saved[want]) or flat(got) != flat(saved[want]):
            bad.append({'backend': backend, 'entries': n, 'restore': label + ' into a template', 'saved_leaves': flat(saved[want])[:30], 'restored_leaves': flat(got)[:30]})
          raw = C.restore_checkpoint(d, None, **kw)
          ok = int(np.asarray(raw['step'])) == want and all(np.array_equal(np.asarray(raw['layers'][str(i)]['w']), saved[want]['layers'][i]['w']) for i in range(n)) \
              and all(np.array_equal(np.asarray(raw['opt'][str(i)]), saved[want]['opt'][i]) for i in range(n))
          if not ok:
            bad.append({'backend': backend, 'entries': n, 'restore': label + ' with target=None'})
      except BaseException as e:  # pylint: disable=broad-except
        bad.append({'backend': backend, 'entries': n, 'exc': type(e).__name__, 'msg': str(e)[:200]})
  return bad


if __name__ == '__main__':
  common.worker_main(main)
