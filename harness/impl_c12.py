"""Implementation side of C12: Linen and NNX feed-forward layers with explicitly set integer parameters; independent
numpy references (direct sums) live in c12_ref.py."""
import jaxcompat  # noqa: F401
import warnings
warnings.filterwarnings('ignore')
import common
import jax
import jax.numpy as jnp
import numpy as np
import flax.linen as nn
from flax import nnx
import c12_ref as R

F64 = jnp.float64


def arr(x):
  return jnp.asarray(np.array(x, dtype=np.float64))


def out(y):
  y = np.asarray(y, dtype=np.float64)
  return {'shape': list(y.shape), 'data': [float(v) for v in y.reshape(-1)]}


def safe(fn):
  try:
    return {'ok': fn()}
  except Exception as e:  # pylint: disable=broad-except
    return {'err': type(e).__name__, 'msg': str(e)[:160]}


def tup(x):
  if isinstance(x, list):
    return tuple(tup(v) for v in x)
  return x


def pad_arg(p):
  return p if isinstance(p, (str, int)) else [tuple(q) if isinstance(q, list) else q for q in p]


# ---------------------------------------------------------------- dense family
def dense(c):
  x, k = arr(c['x']), arr(c['kernel'])
  b = arr(c['bias']) if c['use_bias'] else None
  params = {'kernel': k, **({'bias': b} if b is not None else {})}
  res = {}
  res['linen'] = safe(lambda: out(nn.Dense(k.shape[-1], use_bias=c['use_bias'], param_dtype=F64).apply({'params': params}, x)))

  def nx():
    m = nnx.Linear(k.shape[0], k.shape[1], use_bias=c['use_bias'], param_dtype=F64, rngs=nnx.Rngs(0))
    m.kernel.value = k
    if b is not None:
      m.bias.value = b
    return out(m(x))
  res['nnx'] = safe(nx)
  res['ref'] = safe(lambda: out(R.dense(np.array(c['x'], float), np.array(c['kernel'], float), None if b is None else np.array(c['bias'], float))))
  return res


def dense_general(c):
  x, k = arr(c['x']), arr(c['kernel'])
  b = arr(c['bias']) if c['use_bias'] else None
  axis, feats = tup(c['axis']), tup(c['features'])
  params = {'kernel': k, **({'bias': b} if b is not None else {})}
  res = {}
  res['linen'] = safe(lambda: out(nn.DenseGeneral(feats, axis=axis, use_bias=c['use_bias'], param_dtype=F64).apply({'params': params}, x)))

  def nx():
    in_f = tuple(x.shape[a] for a in axis)
    m = nnx.LinearGeneral(in_f, feats, axis=axis, use_bias=c['use_bias'], param_dtype=F64, rngs=nnx.Rngs(0))
    m.kernel.value = k
    if b is not None:
      m.bias.value = b
    return out(m(x))
  res['nnx'] = safe(nx)
  res['ref'] = safe(lambda: out(R.dense_general(np.array(c['x'], float), np.array(c['kernel'], float), None if b is None else np.array(c['bias'], float), axis)))
  return res


def einsum(c):
  x, k = arr(c['x']), arr(c['kernel'])
  b = arr(c['bias']) if c['use_bias'] else None
  params = {'kernel': k, **({'bias': b} if b is not None else {})}
  res = {}
  if c.get('ctor_eq'):
    res['linen'] = safe(lambda: out(nn.Einsum(tuple(k.shape), None, use_bias=c['use_bias'], param_dtype=F64).apply({'params': params}, x, c['eq'])))
  else:
    res['linen'] = safe(lambda: out(nn.Einsum(tuple(k.shape), c['eq'], use_bias=c['use_bias'], param_dtype=F64).apply({'params': params}, x)))

  def nx():
    m = nnx.Einsum(c.get('ctor_eq') or c['eq'], tuple(k.shape), tuple(b.shape) if b is not None else None, param_dtype=F64, rngs=nnx.Rngs(0))
    m.kernel.value = k
    if b is not None:
      m.bias.value = b
    return out(m(x, c['eq'])) if c.get('ctor_eq') else out(m(x))
  res['nnx'] = safe(nx)
  res['ref'] = safe(lambda: out(R.einsum(c['eq'], np.array(c['x'], float), np.array(c['kernel'], float), None if b is None else np.array(c['bias'], float))))
  return res


# ---------------------------------------------------------------- convolutions
def conv(c):
  x, k = arr(c['x']), arr(c['kernel'])
  b = arr(c['bias']) if c['use_bias'] else None
  mask = arr(c['mask']) if c.get('mask') is not None else None
  nd = len(c['kernel_size'])
  kw = dict(kernel_size=tuple(c['kernel_size']), strides=tuple(c['strides']), padding=pad_arg(c['padding']), input_dilation=tuple(c['input_dilation']),
            kernel_dilation=tuple(c['kernel_dilation']), feature_group_count=c['groups'], use_bias=c['use_bias'], param_dtype=F64)
  params = {'kernel': k, **({'bias': b} if b is not None else {})}
  res = {}
  res['linen'] = safe(lambda: out(nn.Conv(k.shape[-1], mask=mask, **kw).apply({'params': params}, x)))

  def nx():
    m = nnx.Conv(x.shape[-1], k.shape[-1], mask=mask, rngs=nnx.Rngs(0), **kw)
    m.kernel.value = k
    if b is not None:
      m.bias.value = b
    return out(m(x))
  res['nnx'] = safe(nx)
  res['ref'] = safe(lambda: out(R.conv(np.array(c['x'], float), np.array(c['kernel'], float), None if b is None else np.array(c['bias'], float), c['strides'], c['padding'],
                                        c['input_dilation'], c['kernel_dilation'], c['groups'], None if mask is None else np.array(c['mask'], float), nd)))
  return res


def conv_local(c):
  x, k = arr(c['x']), arr(c['kernel'])
  b = arr(c['bias']) if c['use_bias'] else None
  nd = len(c['kernel_size'])
  kw = dict(kernel_size=tuple(c['kernel_size']), strides=tuple(c['strides']), padding=pad_arg(c['padding']), kernel_dilation=tuple(c['kernel_dilation']), use_bias=c['use_bias'], param_dtype=F64)
  params = {'kernel': k, **({'bias': b} if b is not None else {})}
  res = {}
  res['linen'] = safe(lambda: out(nn.ConvLocal(k.shape[-1], **kw).apply({'params': params}, x)))
  res['ref'] = safe(lambda: out(R.conv_local(np.array(c['x'], float), np.array(c['kernel'], float), None if b is None else np.array(c['bias'], float), c['kernel_size'], c['strides'],
                                              c['padding'], c['kernel_dilation'], nd)))
  return res


def conv_transpose(c):
  x, k = arr(c['x']), arr(c['kernel'])
  b = arr(c['bias']) if c['use_bias'] else None
  nd = len(c['kernel_size'])
  kw = dict(kernel_size=tuple(c['kernel_size']), strides=tuple(c['strides']), padding=pad_arg(c['padding']), use_bias=c['use_bias'], transpose_kernel=c['transpose_kernel'], param_dtype=F64,
            kernel_dilation=tuple(c.get('kernel_dilation') or [1] * len(c['kernel_size'])))
  params = {'kernel': k, **({'bias': b} if b is not None else {})}
  feats = k.shape[-2] if c['transpose_kernel'] else k.shape[-1]
  res = {}
  res['linen'] = safe(lambda: out(nn.ConvTranspose(feats, **kw).apply({'params': params}, x)))

  def nx():
    m = nnx.ConvTranspose(x.shape[-1], feats, rngs=nnx.Rngs(0), **kw)
    m.kernel.value = k
    if b is not None:
      m.bias.value = b
    return out(m(x))
  res['nnx'] = safe(nx)
  res['ref'] = safe(lambda: out(R.conv_transpose(np.array(c['x'], float), np.array(c['kernel'], float), None if b is None else np.array(c['bias'], float), c['strides'], c['padding'],
                                                  c['transpose_kernel'], nd, c.get('kernel_dilation'))))
  return res


# ---------------------------------------------------------------- embed, pooling
def embed(c):
  table = arr(c['table'])
  ids = jnp.asarray(np.array(c['ids'], dtype=np.int32))
  q = arr(c['query'])
  res = {}
  m = nn.Embed(table.shape[0], table.shape[1], param_dtype=F64)
  res['linen'] = safe(lambda: {'lookup': out(m.apply({'params': {'embedding': table}}, ids)), 'attend': out(m.apply({'params': {'embedding': table}}, q, method=m.attend))})

  def nx():
    e = nnx.Embed(table.shape[0], table.shape[1], param_dtype=F64, rngs=nnx.Rngs(0))
    e.embedding.value = table
    return {'lookup': out(e(ids)), 'attend': out(e.attend(q))}
  res['nnx'] = safe(nx)
  res['ref'] = safe(lambda: {'lookup': out(np.array(c['table'], float)[np.array(c['ids'])]), 'attend': out(np.array(c['query'], float) @ np.array(c['table'], float).T)})
  return res


def pool(c):
  x = arr(c['x'])
  kw = dict(window_shape=tuple(c['window']), strides=tuple(c['strides']), padding=pad_arg(c['padding']))
  res = {}
  if c['op'] == 'avg':
    res['linen'] = safe(lambda: out(nn.avg_pool(x, count_include_pad=c['count_include_pad'], **kw)))
    res['nnx'] = safe(lambda: out(nnx.avg_pool(x, count_include_pad=c['count_include_pad'], **kw)))
  else:
    f = getattr(nn, c['op'] + '_pool', None)
    g = getattr(nnx, c['op'] + '_pool', None)
    if f is not None:
      res['linen'] = safe(lambda: out(f(x, **kw)))
    if g is not None:
      res['nnx'] = safe(lambda: out(g(x, **kw)))
  res['ref'] = safe(lambda: out(R.pool(np.array(c['x'], float), c['op'], c['window'], c['strides'], c['padding'], c.get('count_include_pad', True))))
  return res


# ---------------------------------------------------------------- normalisation
def norm(c):
  x = arr(c['x'])
  mask = jnp.asarray(np.array(c['mask'], dtype=bool)) if c.get('mask') is not None else None
  scale = arr(c['scale']) if c['use_scale'] else None
  bias = arr(c['bias']) if c['use_bias'] else None
  params = {**({'scale': scale} if scale is not None else {}), **({'bias': bias} if bias is not None else {})}
  kind = c['kind']
  eps = c['epsilon']
  res = {}
  fv = {'use_fast_variance': c.get('use_fast_variance', True)}
  if kind == 'layer':
    mod = nn.LayerNorm(epsilon=eps, **fv, use_bias=c['use_bias'], use_scale=c['use_scale'], reduction_axes=tup(c['reduction_axes']), feature_axes=tup(c['feature_axes']), param_dtype=F64)
  elif kind == 'rms':
    mod = nn.RMSNorm(epsilon=eps, **fv, use_scale=c['use_scale'], reduction_axes=tup(c['reduction_axes']), feature_axes=tup(c['feature_axes']), param_dtype=F64)
  elif kind == 'group':
    mod = nn.GroupNorm(num_groups=c.get('num_groups'), group_size=c.get('group_size'), epsilon=eps, **fv, use_bias=c['use_bias'], use_scale=c['use_scale'], param_dtype=F64)
  elif kind == 'instance':
    mod = nn.InstanceNorm(epsilon=eps, **fv, use_bias=c['use_bias'], use_scale=c['use_scale'], param_dtype=F64)
  else:
    mod = None
  if kind in ('layer', 'rms', 'group', 'instance'):
    res['linen'] = safe(lambda: out(mod.apply({'params': params} if params else {}, x, mask=mask)))

    def nx():
      nf = x.shape[-1]
      if kind == 'layer':
        m = nnx.LayerNorm(nf, epsilon=eps, **fv, use_bias=c['use_bias'], use_scale=c['use_scale'], reduction_axes=tup(c['reduction_axes']), feature_axes=tup(c['feature_axes']), param_dtype=F64, rngs=nnx.Rngs(0))
      elif kind == 'rms':
        m = nnx.RMSNorm(nf, epsilon=eps, **fv, use_scale=c['use_scale'], reduction_axes=tup(c['reduction_axes']), feature_axes=tup(c['feature_axes']), param_dtype=F64, rngs=nnx.Rngs(0))
      elif kind == 'group':
        m = nnx.GroupNorm(nf, num_groups=c.get('num_groups'), group_size=c.get('group_size'), epsilon=eps, **fv, use_bias=c['use_bias'], use_scale=c['use_scale'], param_dtype=F64, rngs=nnx.Rngs(0))
      else:
        raise NotImplementedError('no nnx.InstanceNorm')
      if scale is not None:
        m.scale.value = scale
      if bias is not None and kind != 'rms':
        m.bias.value = bias
      return out(m(x, mask=mask))
    if kind != 'instance' and tup(c.get('feature_axes', -1)) in (-1, (-1,)):
      res['nnx'] = safe(nx)
    res['ref'] = safe(lambda: out(R.norm(np.array(c['x'], float), kind, c, None if mask is None else np.array(c['mask'], bool))))
    return res
  # batch norm: a training step (statistics updated) followed by an inference call on another input
  mean0, var0 = arr(c['mean']), arr(c['var'])
  x2 = arr(c['x2'])
  axis = c['axis']
  bn = nn.BatchNorm(momentum=c['momentum'], epsilon=eps, **fv, use_bias=c['use_bias'], use_scale=c['use_scale'], axis=axis, param_dtype=F64)

  def li():
    variables = {'params': params, 'batch_stats': {'mean': mean0, 'var': var0}} if params else {'batch_stats': {'mean': mean0, 'var': var0}}
    y, upd = bn.apply(variables, x, use_running_average=False, mask=mask, mutable=['batch_stats'])
    y2 = bn.apply({**variables, **upd}, x2, use_running_average=True)
    return {'train': out(y), 'mean': out(upd['batch_stats']['mean']), 'var': out(upd['batch_stats']['var']), 'infer': out(y2)}
  res['linen'] = safe(li)

  def nx():
    m = nnx.BatchNorm(x.shape[axis], momentum=c['momentum'], epsilon=eps, **fv, use_bias=c['use_bias'], use_scale=c['use_scale'], axis=axis, param_dtype=F64, rngs=nnx.Rngs(0))
    m.mean.value, m.var.value = mean0, var0
    if scale is not None:
      m.scale.value = scale
    if bias is not None:
      m.bias.value = bias
    y = m(x, use_running_average=False, mask=mask)
    mean1, var1 = m.mean.value, m.var.value
    y2 = m(x2, use_running_average=True)
    return {'train': out(y), 'mean': out(mean1), 'var': out(var1), 'infer': out(y2), 'stats_unchanged_by_inference': bool(jnp.all(m.mean.value == mean1) and jnp.all(m.var.value == var1))}
  res['nnx'] = safe(nx)
  res['ref'] = safe(lambda: {k: out(v) for k, v in R.batch_norm(np.array(c['x'], float), np.array(c['x2'], float), c, None if mask is None else np.array(c['mask'], bool)).items()})
  return res


# ---------------------------------------------------------------- dropout
def dropout(c):
  x = arr(c['x'])
  key = jax.random.key(c['seed'])
  bd = tuple(c['broadcast_dims'])
  res = {}
  res['linen'] = safe(lambda: out(nn.Dropout(rate=c['rate'], broadcast_dims=bd, deterministic=c['deterministic']).apply({}, x, rngs={'dropout': key})))
  res['linen_repeat'] = safe(lambda: out(nn.Dropout(rate=c['rate'], broadcast_dims=bd, deterministic=c['deterministic']).apply({}, x * 3 + 1, rngs={'dropout': key})))

  def nx():
    m = nnx.Dropout(rate=c['rate'], broadcast_dims=bd, deterministic=c['deterministic'], rngs=nnx.Rngs(dropout=c['seed']))
    return out(m(x))
  res['nnx'] = safe(nx)

  def nx_key():
    m = nnx.Dropout(rate=c['rate'], broadcast_dims=bd, deterministic=c['deterministic'])
    return out(m(x, rngs=nnx.Rngs(dropout=c['seed'])))
  res['nnx_call_rngs'] = safe(nx_key)
  # the key given explicitly, and the mask drawn independently of the layer for that key on the broadcast shape
  key2 = jax.random.key(c['seed'] + 1000)
  res['linen_rng'] = safe(lambda: out(nn.Dropout(rate=c['rate'], broadcast_dims=bd, deterministic=c['deterministic']).apply({}, x, rng=key2)))
  bshape = list(x.shape)
  for d in bd:
    bshape[d] = 1
  if 0.0 < c['rate'] < 1.0:
    res['bits_rng'] = [bool(v) for v in np.asarray(jax.random.bernoulli(key2, p=1.0 - c['rate'], shape=bshape)).reshape(-1)]
  return res


FNS = {'dense': dense, 'dense_general': dense_general, 'einsum': einsum, 'conv': conv, 'conv_local': conv_local, 'conv_transpose': conv_transpose,
       'embed': embed, 'pool': pool, 'norm': norm, 'dropout': dropout}


def main(payload):
  res = []
  for c in payload['cases']:
    try:
      res.append({'ok': FNS[c['layer']](c)})
    except Exception as e:  # pylint: disable=broad-except
      import traceback
      res.append({'err': type(e).__name__, 'tb': traceback.format_exc()[-800:]})
  return {'cases': res}


if __name__ == '__main__':
  common.worker_main(main)
