"""Rendering of C12 cases for Model/Layers.v: Dense, 1-D Conv, Embed, 1-D pooling, BatchNorm statistics."""
from fractions import Fraction
import numpy as np
from common import cN, cZ, cnat, cbool, clist, copt, cpair

CHK = '''Open Scope Z_scope.
Definition chk (b : bool) : bool := b.
Definition sig_beq (a b : list (list Z)) : bool := list_beq (list_beq Z.eqb) a b.
Definition closeq (x y : Q) : bool := Qle_bool (Qabs (x - y)) ((1 # 1000000000) * (1 + Qabs y)).
Definition dropout_ok det rate shape bd bits xs ys : bool :=
  let m := dropout det rate shape bd bits xs in Nat.eqb (length m) (length ys) && forallb (fun ab => closeq (fst ab) (snd ab)) (combine ys m).
'''


def crow(r):
  return clist([cZ(int(v)) for v in r])


def csig(s):
  return clist([crow(r) for r in s])


def cq(x):
  f = Fraction(float(x))
  return '(%d # %d)%%Q' % (f.numerator, f.denominator)


def is_int(a):
  return np.all(np.isfinite(a)) and np.all(a == np.round(a))


def pad_term(p):
  if isinstance(p, str):
    return {'VALID': 'PadValid', 'SAME': 'PadSame', 'CIRCULAR': 'PadCircular', 'REFLECT': 'PadReflect', 'CAUSAL': 'PadCausal'}[p]
  if isinstance(p, int):
    return '(PadExplicit %s %s)' % (cnat(p), cnat(p))
  q = p[0]
  return '(PadExplicit %s %s)' % ((cnat(q), cnat(q)) if isinstance(q, int) else (cnat(q[0]), cnat(q[1])))


def row(c, r):
  got = r.get('linen')
  if got is None or 'ok' not in got:
    return None
  g = got['ok']
  layer = c['layer']
  if layer == 'dense':
    x = np.array(c['x'], dtype=np.int64).reshape(-1, np.shape(c['x'])[-1])
    y = np.array(g['data']).reshape(-1, g['shape'][-1])
    if not is_int(y):
      return None
    return '(sig_beq (dense %s %s %s %s) %s)' % (csig(c['kernel']), copt(crow(c['bias']) if c['use_bias'] else None), cnat(y.shape[1]), csig(x.tolist()), csig(y.tolist()))
  if layer == 'dense_general':
    x = np.array(c['x'], dtype=np.int64)
    k = np.array(c['kernel'], dtype=np.int64)
    y = np.array(g['data'])
    if not is_int(y) or x.size * k.size > 20000:
      return None
    zl = lambda a: clist([cZ(int(v)) for v in np.asarray(a).reshape(-1)])
    feats = list(k.shape[len(c['axis']):])
    # the axes as written (any order), normalised; the model sorts them
    axes = clist([cnat(a % x.ndim) for a in c['axis']])
    return '(list_beq Z.eqb (dense_general %s %s %s %s %s %s) %s && list_beq Nat.eqb (dense_general_oshape %s %s %s) %s)' % (
        clist([cnat(d) for d in x.shape]), axes, clist([cnat(d) for d in feats]), zl(x), zl(k), copt(zl(c['bias']) if c['use_bias'] else None), zl(y.astype(np.int64)),
        clist([cnat(d) for d in x.shape]), axes, clist([cnat(d) for d in feats]), clist([cnat(d) for d in g['shape']]))
  if layer == 'conv' and len(c['kernel_size']) == 1 and c['input_dilation'] == [1]:
    x = np.array(c['x'], dtype=np.int64)
    cin = x.shape[-1]
    x = x.reshape((-1,) + x.shape[-2:])
    k = np.array(c['kernel'], dtype=np.int64)
    if c.get('mask') is not None:
      k = k * np.array(c['mask'], dtype=np.int64)
    if 0 in g['shape']:
      return None
    y = np.array(g['data']).reshape((-1,) + tuple(g['shape'][-2:]))
    if not is_int(y) or y.shape[1] == 0:
      return None
    cfg = '(mkConv %s %s %s %s %s %s %s)' % (clist([csig(t) for t in k.tolist()]), copt(crow(c['bias']) if c['use_bias'] else None), cnat(c['strides'][0]), cnat(c['kernel_dilation'][0]),
                                             cnat(c['groups']), cnat(cin), cnat(k.shape[-1]))
    return '(' + ' && '.join('sig_beq (conv1d %s %s %s) %s' % (cfg, pad_term(c['padding']), csig(x[n].tolist()), csig(y[n].tolist())) for n in range(x.shape[0])) + ')'
  if layer == 'conv' and len(c['kernel_size']) == 2 and c['input_dilation'] == [1, 1] and c['padding'] != 'CAUSAL':
    x = np.array(c['x'], dtype=np.int64)
    cin = x.shape[-1]
    x = x.reshape((-1,) + x.shape[-3:])
    k = np.array(c['kernel'], dtype=np.int64)
    if c.get('mask') is not None:
      k = k * np.array(c['mask'], dtype=np.int64)
    if 0 in g['shape']:
      return None
    y = np.array(g['data']).reshape((-1,) + tuple(g['shape'][-3:]))
    if not is_int(y):
      return None
    cimg = lambda a: clist([csig(r) for r in a])
    cfg = '(mkConv2 %s %s %s %s %s %s %s %s %s)' % (clist([clist([csig(t2) for t2 in t1]) for t1 in k.tolist()]), copt(crow(c['bias']) if c['use_bias'] else None),
                                                   cnat(c['strides'][0]), cnat(c['strides'][1]), cnat(c['kernel_dilation'][0]), cnat(c['kernel_dilation'][1]),
                                                   cnat(c['groups']), cnat(cin), cnat(k.shape[-1]))
    p = c['padding']
    if isinstance(p, str) or isinstance(p, int):
      p1 = p2 = pad_term(p)
    else:
      p1, p2 = pad_term([p[0]]), pad_term([p[1]])
    return '(' + ' && '.join('list_beq sig_beq (conv2d %s %s %s %s %s) %s' % (cfg, p1, p2, cnat(x.shape[2]), cimg(x[n].tolist()), cimg(y[n].tolist())) for n in range(x.shape[0])) + ')'
  if layer == 'conv_transpose' and len(c['kernel_size']) == 1 and c['padding'] in ('SAME', 'VALID', 'CIRCULAR'):
    x = np.array(c['x'], dtype=np.int64)
    cin = x.shape[-1]
    x = x.reshape((-1,) + x.shape[-2:])
    k = np.array(c['kernel'], dtype=np.int64)
    if c['transpose_kernel']:
      k = np.flip(k, axis=0).swapaxes(-1, -2)          # what lax.conv_transpose(transpose_kernel=True) convolves with
    if 0 in g['shape']:
      return None
    y = np.array(g['data']).reshape((-1,) + tuple(g['shape'][-2:]))
    if not is_int(y) or y.shape[1] == 0:
      return None
    cfg = '(mkConv %s %s %s %s 1%%nat %s %s)' % (clist([csig(t) for t in k.tolist()]), copt(crow(c['bias']) if c['use_bias'] else None), cnat(c['strides'][0]),
                                                cnat((c.get('kernel_dilation') or [1])[0]), cnat(cin), cnat(k.shape[-1]))
    pad = {'SAME': 'TSame', 'VALID': 'TValid', 'CIRCULAR': 'TCircular'}[c['padding']]
    return '(' + ' && '.join('sig_beq (conv_transpose1d %s %s %s %s) %s' % (cfg, pad, cbool(c['transpose_kernel']), csig(x[n].tolist()), csig(y[n].tolist())) for n in range(x.shape[0])) + ')'
  if layer == 'embed':
    ids = np.array(c['ids']).reshape(-1)
    look = np.array(g['lookup']['data']).reshape(-1, g['lookup']['shape'][-1])
    att = np.array(g['attend']['data']).reshape(-1, g['attend']['shape'][-1])
    q = np.array(c['query'], dtype=np.int64)
    return '(sig_beq (embed_lookup %s %s) %s && %s)' % (csig(c['table']), clist([cnat(int(i)) for i in ids]), csig(look.tolist()),
                                                        ' && '.join('list_beq Z.eqb (embed_attend %s %s) %s' % (csig(c['table']), crow(q[j]), crow(att[j])) for j in range(q.shape[0])))
  if layer == 'pool' and len(c['window']) == 1:
    import c12_ref as R
    x = np.array(c['x'], dtype=np.int64)
    x = x.reshape((-1,) + x.shape[-2:])
    if 0 in g['shape']:
      return None
    y = np.array(g['data']).reshape((-1,) + tuple(g['shape'][-2:]))
    n = x.shape[1]
    lo, hi, _ = R._pads(c['padding'], [n], [c['window'][0]], c['strides'], [1], c['window'], 1)[0]
    parts = []
    for b in range(x.shape[0]):
      for ch in range(x.shape[2]):
        xs, ys = x[b, :, ch], y[b, :, ch]
        args = '%s %s %s %s %s' % (crow(xs), cnat(c['window'][0]), cnat(c['strides'][0]), cnat(lo), cnat(hi))
        if c['op'] in ('max', 'min'):
          exp = clist([copt(cZ(int(v)) if np.isfinite(v) else None) for v in ys])
          parts.append('list_beq (option_beq Z.eqb) (%s_pool1 %s) %s' % (c['op'], args, exp))
        else:
          exp = clist([copt(cq(v) if np.isfinite(v) else None) for v in ys])
          parts.append('(let a := avg_pool1 %s %s in let e := %s in Nat.eqb (length a) (length e) && forallb (fun (p : (Z * nat) * option Q) => match snd p with '
                       'Some v => closeq (v * inject_Z (Z.of_nat (snd (fst p)))) (inject_Z (fst (fst p))) | None => Nat.eqb (snd (fst p)) 0 end) (combine a e))' % (
                           args, cbool(c['count_include_pad']), exp))
    return '(' + ' && '.join(parts) + ')' if parts else None
  if layer == 'norm' and c['kind'] in ('layer', 'rms', 'group', 'instance'):
    # the normalised outputs themselves, without square roots: every unmasked element of every reduction group satisfies
    # (y - b)^2 (var + eps) = s^2 (x - mean)^2 with the right sign (Model/Layers.v group_norm_ok); the reduction groups are
    # computed here from the axes, the statistics and the check are the model's
    x = np.array(c['x'], dtype=np.int64)
    nd = x.ndim
    kind = c['kind']
    idx = np.arange(x.size).reshape(x.shape)
    if kind in ('layer', 'rms'):
      red = sorted(a % nd for a in c['reduction_axes'])
      feat = sorted(a % nd for a in c['feature_axes'])
      groups = np.moveaxis(idx, red, list(range(nd - len(red), nd))).reshape(-1, int(np.prod([x.shape[a] for a in red])))
    elif kind == 'instance':
      feat = [nd - 1]
      groups = np.moveaxis(idx, nd - 1, 1).reshape(x.shape[0] * x.shape[-1], -1)
    else:
      ch = x.shape[-1]
      ng = c['num_groups'] if c.get('num_groups') is not None else ch // c['group_size']
      gs = ch // ng
      feat = [nd - 1]
      ig = idx.reshape(x.shape[:-1] + (ng, gs))
      groups = np.moveaxis(ig, ig.ndim - 2, 1).reshape(x.shape[0] * ng, -1)
    shp = [1] * nd
    for a in feat:
      shp[a] = x.shape[a]
    sc = np.broadcast_to(np.array(c['scale'], dtype=np.int64).reshape(shp), x.shape).reshape(-1) if c['use_scale'] else np.ones(x.size, dtype=np.int64)
    bi = np.broadcast_to(np.array(c['bias'], dtype=np.int64).reshape(shp), x.shape).reshape(-1) if (c['use_bias'] and kind != 'rms') else np.zeros(x.size, dtype=np.int64)
    mk = np.broadcast_to(np.array(c['mask'], dtype=bool), x.shape).reshape(-1) if c.get('mask') is not None else np.ones(x.size, dtype=bool)
    y = np.array(g['data'], dtype=float).reshape(-1)
    if y.size != x.size or not np.all(np.isfinite(y[mk])):
      return None
    xf = x.reshape(-1)
    cqz = lambda v: '(%d # 1)%%Q' % int(v)
    if x.size <= 256:
      # the model computes the reduction groups itself from the shape and the axes (Model/NdIndex.v groups_by / reduce_key / group_key)
      tens = '%s %s %s %s %s' % (clist([cZ(int(v)) for v in xf]), clist([cbool(bool(m)) for m in mk]), clist([cqz(v) for v in sc]), clist([cqz(v) for v in bi]),
                                 clist([cq(y[i]) if mk[i] else '0%Q' for i in range(x.size)]))
      shape = clist([cnat(int(d)) for d in x.shape])
      if kind == 'group':
        return '(group_norm_layer_ok (1 # 100000000) %s %s %s %s)' % (cq(c['epsilon']), shape, cnat(ng), tens)
      red_axes = red if kind in ('layer', 'rms') else list(range(1, nd - 1))
      return '(layer_norm_ok (1 # 100000000) %s %s %s %s %s)' % (cq(c['epsilon']), cbool(kind != 'rms'), shape, clist([cnat(a) for a in red_axes]), tens)
    parts = []
    for grp in groups[:12]:
      parts.append('group_norm_ok (1 # 100000000) %s %s %s %s %s %s %s' % (
          cq(c['epsilon']), cbool(kind != 'rms'), clist([cZ(int(xf[i])) for i in grp]), clist([cbool(bool(mk[i])) for i in grp]),
          clist([cqz(sc[i]) for i in grp]), clist([cqz(bi[i]) for i in grp]), clist([cq(y[i]) if mk[i] else '0%Q' for i in grp])))
    return '(' + ' && '.join(parts) + ')' if parts else None
  if layer == 'einsum':
    x = np.array(c['x'], dtype=np.int64)
    k = np.array(c['kernel'], dtype=np.int64)
    y = np.array(g['data'])
    if not is_int(y):
      return None
    lhs, res = c['eq'].replace(' ', '').split('->')
    lhs, rhs = lhs.split(',')
    nell = x.ndim - (len(lhs) - 3) if '...' in lhs else 0
    ell = [100 + i for i in range(nell)]           # "..." expanded into explicit labels, as opt_einsum's parser does

    def labels(t):
      out = []
      t = t.replace('...', '*')
      for ch in t:
        out += ell if ch == '*' else [ord(ch) - ord('a')]
      return out
    L, Rr, O = labels(lhs), labels(rhs), labels(res)
    if len(L) != x.ndim or len(Rr) != k.ndim or len(O) != len(g['shape']):
      return 'false'
    sizes = {}
    for lab, d in list(zip(L, x.shape)) + list(zip(Rr, k.shape)):
      sizes[lab] = int(d)
    cl = lambda ls: clist([cnat(v) for v in ls])
    zl = lambda a: clist([cZ(int(v)) for v in np.asarray(a).reshape(-1)])
    return '(list_beq Z.eqb (einsum_layer %s %s %s %s %s %s %s) %s && list_beq Nat.eqb (shape_of %s %s) %s)' % (
        clist(['(%s, %s)' % (cnat(a), cnat(b)) for a, b in sorted(sizes.items())]), cl(L), cl(Rr), cl(O), zl(x), zl(k),
        copt(zl(c['bias']) if c['use_bias'] else None), zl(y.astype(np.int64)),
        clist(['(%s, %s)' % (cnat(a), cnat(b)) for a, b in sorted(sizes.items())]), cl(O), clist([cnat(int(d)) for d in g['shape']]))
  if layer == 'dropout':
    x = np.array(c['x'], dtype=np.int64)
    nd = x.ndim
    shape = clist([cnat(int(d)) for d in x.shape])
    bd = clist(['(%s, %s)' % (cbool(d < 0), cnat(abs(d))) for d in c['broadcast_dims']])
    xs = clist(['(%d # 1)%%Q' % int(v) for v in x.reshape(-1)])
    parts = []
    for api in ('linen', 'nnx', 'linen_rng'):
      got = r.get(api)
      if got is None or 'ok' not in got:
        continue
      y = np.array(got['ok']['data']).reshape(got['ok']['shape'])
      if list(y.shape) != list(x.shape):
        return 'false'
      if api == 'linen_rng' and 'bits_rng' in r:
        bits = r['bits_rng']              # drawn by the harness for the same key, independently of the layer
      else:
        m = (y != 0)                      # inputs are non-zero: the surviving positions are the mask
        for d in c['broadcast_dims']:
          m = np.take(m, [0], axis=d % nd)
        bits = [bool(v) for v in m.reshape(-1)]
      parts.append('dropout_ok %s %s %s %s %s %s %s' % (cbool(c['deterministic']), cq(c['rate']), shape, bd, clist([cbool(b) for b in bits]), xs,
                                                         clist([cq(v) for v in y.reshape(-1)])))
    return '(' + ' && '.join(parts) + ')' if parts else None
  if layer == 'norm' and c['kind'] == 'batch':
    x = np.array(c['x'], dtype=np.int64)
    ax = c['axis'] % x.ndim
    xm = np.moveaxis(x, ax, 0).reshape(x.shape[ax], -1)
    mask = np.broadcast_to(np.array(c['mask'], dtype=bool), x.shape) if c.get('mask') is not None else np.ones(x.shape, dtype=bool)
    mm = np.moveaxis(mask, ax, 0).reshape(x.shape[ax], -1)
    parts = []
    for f in range(xm.shape[0]):
      parts.append('(let st := stats %s %s in closeq %s (running %s %s (fst st)) && closeq %s (running %s %s (snd st)))' % (
          crow(xm[f]), clist([cbool(bool(v)) for v in mm[f]]), cq(g['mean']['data'][f]), cq(c['momentum']), cq(c['mean'][f]), cq(g['var']['data'][f]), cq(c['momentum']), cq(c['var'][f])))
    return '(' + ' && '.join(parts) + ')'
  return None
