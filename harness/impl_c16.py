"""Implementation side of C16."""
import jaxcompat  # noqa: F401
import common
import flax
from flax import traverse_util as TU
from flax.core import freeze
from flax.nnx import traversals as NT


def to_py(t, frozen=False):
  if isinstance(t, int):
    return t
  d = {k: to_py(v) for k, v in t['k']}
  return d


def enc_tree(x):
  if isinstance(x, (dict, flax.core.FrozenDict)) or hasattr(x, 'items'):
    return {'k': [[k, enc_tree(v)] for k, v in x.items()]}
  return int(x)


def enc_val(v):
  if v is TU.empty_node or v is NT.empty_node:
    return 'EMPTY'
  if isinstance(v, (dict, flax.core.FrozenDict)):
    return {'dict': enc_tree(v)}
  return int(v)


def mk_is_leaf(lp):
  if lp is None:
    return None
  kind = lp[0]
  if kind == 'depth':
    return lambda p, x: len(p) >= lp[1]
  if kind == 'lastkey':
    return lambda p, x: len(p) > 0 and p[-1] == lp[1]
  if kind == 'haskey':
    return lambda p, x: lp[1] in x
  if kind == 'all':
    return lambda p, x: True
  raise ValueError(lp)


def safe(fn):
  try:
    return {'ok': fn()}
  except Exception as e:  # pylint: disable=broad-except
    return {'err': type(e).__name__}


def dict_cases(payload):
  out = []
  for c in payload:
    t = to_py(c['tree'])
    snapshot = enc_tree(t)
    inp = freeze(t) if c['container'] == 'frozen' else t
    il = mk_is_leaf(c['is_leaf'])
    kw = dict(keep_empty_nodes=c['keep'], is_leaf=il, sep=c['sep'])
    o = {}
    for api, fl, un in (('traverse_util', TU.flatten_dict, TU.unflatten_dict), ('nnx', NT.flatten_mapping, NT.unflatten_mapping)):
      def go():
        flat = fl(inp, **kw)
        keys = list(flat.keys())
        rt = un(flat, sep=c['sep'])
        return {'flat': [[list(k) if isinstance(k, tuple) else k, enc_val(v)] for k, v in flat.items()],
                'roundtrip': enc_tree(rt), 'rt_is_dict': type(rt) is dict}
      o[api] = safe(go)
    if c['sep'] is None and c['is_leaf'] is None:
      o['seq'] = safe(lambda: [[list(k), enc_val(v)] for k, v in NT.flatten_to_sequence(inp)])
    # path_aware_map: record visits
    visits = []

    def f(path, x):
      visits.append([list(path), int(x)])
      return x * 1000 + len(path)
    o['pam'] = safe(lambda: enc_tree(TU.path_aware_map(f, inp)))
    o['pam_visits'] = visits
    o['input_unchanged'] = enc_tree(t) == snapshot
    out.append(o)
  return out


def state_cases(payload):
  from flax import nnx
  from flax.nnx import statelib, variablelib as V
  out = []

  def mk(flat):
    return nnx.State.from_flat_path({tuple(p): V.VariableState(nnx.Param, i) for p, i in flat})

  def fl(s):
    return [[list(p), int(v.value)] for p, v in nnx.to_flat_state(s)]
  for c in payload:
    o = {}
    ss = [mk(f) for f in c['states']]
    o['flat0'] = safe(lambda: fl(ss[0]))
    o['from_to'] = safe(lambda: nnx.from_flat_state(nnx.to_flat_state(ss[0])) == ss[0])
    o['flat_sorted'] = safe(lambda: list(nnx.to_flat_state(ss[0]).paths) == sorted(nnx.to_flat_state(ss[0]).paths))
    o['merge'] = safe(lambda: fl(nnx.merge_state(*ss)))
    o['State.merge'] = safe(lambda: fl(nnx.State.merge(*ss)))
    if len(ss) >= 2:
      o['diff'] = safe(lambda: fl(statelib.diff(ss[0], ss[1])))
      o['sub'] = safe(lambda: fl(ss[0] - ss[1]))
      o['or'] = safe(lambda: fl(ss[0] | ss[1]))
    if c.get('diff_pair'):
      da, db = mk(c['diff_pair'][0]), mk(c['diff_pair'][1])
      o['diff_pair'] = {'diff': safe(lambda: fl(statelib.diff(da, db))), 'sub': safe(lambda: fl(da - db))}
    # pure dict
    def pure():
      pd = nnx.to_pure_dict(ss[0])
      enc = enc_tree(pd)
      # restore into a state with the same structure but zeroed values
      z = nnx.State.from_flat_path({tuple(p): V.VariableState(nnx.Param, -1) for p, _ in c['states'][0]})
      nnx.replace_by_pure_dict(z, pd)
      # a pure dict that names only some of the leaves replaces exactly those and leaves every other leaf in place
      paths = sorted((tuple(p) for p, _ in c['states'][0]), key=lambda t: tuple(map(str, t)))
      chosen = paths[::2]
      part = {}
      for kp in chosen:
        cur = part
        for k in kp[:-1]:
          cur = cur.setdefault(k, {})
        cur[kp[-1]] = 7000 + len(kp)
      z2 = nnx.State.from_flat_path({tuple(p): V.VariableState(nnx.Param, -1) for p, _ in c['states'][0]})
      partial_ok = None
      if chosen and not any(kp[:len(q)] == q for kp in paths for q in paths if q != kp and len(q) < len(kp)):
        nnx.replace_by_pure_dict(z2, part)
        got = {tuple(p): (v.value if hasattr(v, 'value') else v) for p, v in nnx.to_flat_state(z2)}
        want = {kp: (7000 + len(kp) if kp in chosen else -1) for kp in paths}
        partial_ok = got == want
      return {'pure': enc, 'restored': fl(z), 'equal': fl(z) == fl(ss[0]), 'partial_ok': partial_ok}
    o['pure'] = safe(pure)
    # split by path-set filters then merge
    if c.get('groups'):
      def sm():
        from flax.nnx import filterlib
        fs = [filterlib.PathIn(*[tuple(p) for p in g]) for g in c['groups']]
        parts = ss[0].split(*fs, ...)
        parts = parts if isinstance(parts, tuple) else (parts,)
        back = nnx.merge_state(*parts)
        perm = nnx.merge_state(*reversed(parts))
        return {'parts': [fl(p) for p in parts], 'back_equal': fl(back) == fl(ss[0]), 'perm_equal': fl(perm) == fl(ss[0])}
      o['split_merge'] = safe(sm)
    out.append(o)
  return out


def flat_cases(payload):
  """flat dict first: unflatten_dict, then flatten_dict(keep_empty_nodes=True) of the result"""
  out = []
  for c in payload:
    o = {}
    for api, fl, un, empty in (('traverse_util', TU.flatten_dict, TU.unflatten_dict, TU.empty_node),
                               ('nnx', NT.flatten_mapping, NT.unflatten_mapping, NT.empty_node)):
      def go():
        flat = {tuple(p): (empty if v == 'EMPTY' else v) for p, v in c['flat']}
        snap = list(flat.items())
        if c['sep'] is not None:
          flat = {c['sep'].join(k): v for k, v in flat.items()}
        t = un(flat, sep=c['sep'])
        back = fl(t, keep_empty_nodes=True, sep=c['sep'])
        back2 = fl(t, keep_empty_nodes=False, sep=c['sep'])
        enc = lambda d: [[list(k) if isinstance(k, tuple) else k, enc_val(v)] for k, v in d.items()]
        return {'tree': enc_tree(t), 'back': enc(back), 'back_noempty': enc(back2), 'flat_keys': [k if isinstance(k, str) else list(k) for k in flat]}
      o[api] = safe(go)
    out.append(o)
  return out


def main(payload):
  res = {}
  if 'flats' in payload:
    res['flats'] = flat_cases(payload['flats'])
  if 'dicts' in payload:
    res['dicts'] = dict_cases(payload['dicts'])
  if 'states' in payload:
    res['states'] = state_cases(payload['states'])
  return res


if __name__ == '__main__':
  common.worker_main(main)
