"""C20 -- host-side data helpers: padding arithmetic, scan_in_dim, reshapes, prefetch_to_device, and
PrefetchIterator under systematically explored thread schedules."""
import common
from common import cN, cZ, cnat, cbool, clist, copt, cpair

PROOF_FILES = ['Proofs/Host.v']
ASSUMPTIONS = [
    'threading.Condition gives mutual exclusion; wait_for releases the lock while blocked and re-checks the predicate after notify; critical sections are atomic with '
    'respect to each other (Python-level granularity; bytecode-level preemption inside a critical section is excluded by the lock)',
    'the cooperative scheduler (harness/coop.py) substituted for `threading` in flax.training.prefetch_iterator preserves these semantics and yields at Thread.start, every lock '
    'acquire/release, every blocking wait and every next() of the source',
    'jax.local_device_count is simulated; device transfer in prefetch_to_device / replicate is the stacking adapter of harness/jaxcompat.py',
]
HEADER = 'From Flaxm Require Import Lib.Harness Model.Serial Model.Host.\n'


def cev(e):
  return '(Item %s)' % cN(e[1]) if e[0] == 'item' else ('Stop' if e[0] == 'stop' else 'Err')


def expected(items, fail, n):
  seq = [['item', x] for x in items] + [['err'] if fail else ['stop']] * n
  return seq[:n]


def run(chk):
  rng = chk.rng
  thorough = chk.tier == 'thorough'
  chk.proofs(PROOF_FILES)
  # ---- PrefetchIterator: all schedules for small sources, random schedules for longer ones
  piter = []
  for n in range(0, 3 if thorough else 2):
    for fail in (False, True):
      for size in (1, 2):
        piter.append({'items': list(range(1, n + 1)), 'fail': fail, 'size': size, 'mode': 'dfs', 'max_runs': 6000 if thorough else 700})
  for i in range(40 if thorough else 10):
    n = rng.randint(2, 6)
    piter.append({'items': [rng.randint(1, 50) for _ in range(n)], 'fail': rng.random() < 0.5, 'size': rng.randint(1, 3), 'mode': 'random',
                  'max_runs': 120 if thorough else 40, 'seed': rng.randint(0, 10 ** 9)})
  preal = [{'items': [rng.randint(1, 50) for _ in range(rng.randint(0, 8))], 'fail': rng.random() < 0.5, 'size': rng.randint(1, 3), 'seed': rng.randint(0, 10 ** 9)}
           for _ in range(60 if thorough else 20)]
  p2d = [{'items': list(range(1, n + 1)), 'fail': fail, 'size': size} for n in range(0, 7) for fail in (False, True) for size in (1, 2, 3, 5)]
  pad = [{'b': b, 'd': d, 'mdb': mdb, 'extra': (b + d) % 3 == 0} for b in range(1, 41 if thorough else 25) for d in (1, 2, 3, 4, 8) for mdb in (None, 1, 3, 7)]
  scan = []
  import itertools
  shapes = [[2], [3, 2], [2, 3, 2], [2, 1, 3], [2, 2, 2, 2]] if thorough else [[3], [3, 2], [2, 3, 2]]
  for sh in shapes:
    for k in range(1, len(sh) + 1):
      for axis in itertools.permutations(range(len(sh)), k):
        for keep in (False, True):
          scan.append({'shape': sh, 'axis': list(axis), 'keepdims': keep, 'unroll': 1 if len(scan) % 3 else 2})
          # the same axes written with negative indices (all, and a random subset)
          neg = [a - len(sh) for a in axis]
          scan.append({'shape': sh, 'axis': neg, 'keepdims': keep, 'unroll': 1})
          if len(axis) >= 2:
            scan.append({'shape': sh, 'axis': [a - len(sh) if rng.random() < 0.5 else a for a in axis], 'keepdims': keep, 'unroll': 1})
  LD = ['int8', 'uint8', 'int16', 'uint16', 'int32', 'int64', 'uint32']
  reshape = [{'d': d, 'n': n, 'classes': rng.choice([2, 5, 130, 200, 257, 300, 1000]), 'ldtype': LD[(i + j) % len(LD)], 'stride': rng.choice([1, 3, 7, 37]),
              'off': rng.randint(0, 300), 'as_jax': rng.random() < 0.7} for i, d in enumerate((1, 2, 4)) for j, n in enumerate((1, 3, 4, 9, 16))]
  W = 8
  payloads = [{'piter': piter[i::W], 'scan': scan[i::W]} for i in range(W)]
  payloads[0].update({'preal': preal, 'p2d': p2d})
  payloads[1].update({'pad': pad, 'reshape': reshape})
  results = common.run_impl_parallel('impl_c20.py', payloads, workers=W)
  def gather(key, n):
    out = [None] * n
    for k, r in enumerate(results):
      for j, o in enumerate(r[key]):
        out[k + W * j] = o
    return out
  pres, sres = gather('piter', len(piter)), gather('scan', len(scan))
  rres, dres = results[0]['preal'], results[0]['p2d']
  padres, reres = results[1]['pad'], results[1]['reshape']

  # ---- PrefetchIterator
  coq = []
  nsched = 0
  exhaustive_groups = 0
  for c, o in zip(piter, pres):
    if o['complete']:
      exhaustive_groups += 1
    for r in o['runs']:
      nsched += 1
      chk.count({'piter': c['items'], 'fail': c['fail'], 'size': c['size'], 'labels': r['labels']}, len(set(r['labels'])) >= 3)
      n = len(r['obs'])
      if r['deadlock'] or r['main_exc']:
        chk.violation('oracle', 'PrefetchIterator: the consumer blocked forever or crashed under a schedule (%s)' % r['main_exc'],
                      {'case': {k: c[k] for k in ('items', 'fail', 'size')}, 'schedule_labels': r['labels'], 'observed': r['obs']})
        continue
      if r['obs'] != expected(c['items'], c['fail'], n):
        chk.violation('oracle', 'PrefetchIterator did not deliver the source\'s items in order, each once, followed by StopIteration / the source\'s exception',
                      {'case': {k: c[k] for k in ('items', 'fail', 'size')}, 'schedule_labels': r['labels'], 'observed': r['obs'], 'expected': expected(c['items'], c['fail'], n)})
      coq.append(((c, r), cpair(cnat(c['size']), cbool(c['fail']), clist([cN(x) for x in c['items']]), clist(r['labels']), clist([cev(e) for e in r['obs']]))))
  chk.sample({'prefetch_iterator_case': {k: piter[1][k] for k in ('items', 'fail', 'size')}, 'one_schedule': pres[1]['runs'][0]})
  hdr = HEADER + '''
Definition chk (c : nat * bool * list N * list label * list ev) : bool :=
  let '(size, fail, items, sched, obs) := c in
  match preplay size fail sched (pinit items) with
  | Some s => list_beq ev_beq (p_obs s) obs
  | None => false
  end.
'''
  bad = common.coq_mismatches('c20_piter', hdr, [x[1] for x in coq], 'chk', shard=500)
  for i in bad[:8]:
    c, r = coq[i][0]
    chk.violation('correspondence', 'the recorded interleaving of the real PrefetchIterator is not a run of the transition system in Model/Host.v (or gives other observations); '
                  'C20_prefetch_iterator_safe no longer transfers', {'case': {k: c[k] for k in ('items', 'fail', 'size')}, 'schedule_labels': r['labels'], 'observed': r['obs']})
  chk.cov['traces_validated_against_impl'] = len(coq)
  for c, o in zip(preal, rres):
    chk.count({'preal': c}, True)
    if o != expected(c['items'], c['fail'], len(c['items']) + 2):
      chk.violation('oracle', 'PrefetchIterator with real threads delivered a wrong sequence', {'case': c, 'observed': o})
  # ---- prefetch_to_device
  pcoq = []
  for c, o in zip(p2d, dres):
    chk.count({'p2d': c}, len(c['items']) >= 2)
    want = [['item', x] for x in c['items']] + [['err'] if c['fail'] else ['stop']]
    if o.get('ok') != want:
      chk.violation('oracle', 'prefetch_to_device did not deliver the items in order followed by stop / the source\'s exception', {'case': c, 'observed': o})
    if 'ok' in o:
      pcoq.append(cpair(cnat(c['size']), clist([cN(x) for x in c['items']]), cbool(c['fail']), clist([cev(e) for e in o['ok']])))
  phdr = HEADER + '''
Definition chk (c : nat * list N * bool * list ev) : bool :=
  let '(size, items, fail, obs) := c in list_beq ev_beq (prefetch_to_device size items fail) obs.
'''
  bad = common.coq_mismatches('c20_p2d', phdr, pcoq, 'chk', shard=500)
  for i in bad[:5]:
    chk.violation('correspondence', 'Model prefetch_to_device and flax.jax_utils.prefetch_to_device disagree', {'case': p2d[i], 'observed': dres[i]})
  chk.cov['traces_validated_against_impl'] += len(pcoq)
  # ---- pad_shard_unpad: implementation oracle + shape correspondence with device_batch
  dcoq = []
  for c, o in zip(pad, padres):
    chk.count({'pad': c}, c['b'] % c['d'] != 0 or c['mdb'] is not None)
    if 'err' in o:
      chk.violation('oracle', 'pad_shard_unpad raised %s' % o['err'], {'case': c, 'msg': o.get('msg')})
      continue
    r = o['ok']
    if not (r['ok_values'] and r['params_untouched'] and r['inputs_unchanged']):
      chk.violation('oracle', 'pad_shard_unpad does not return what the per-example function returns on the unpadded batch', {'case': c, 'observed': r})
    dcoq.append(cpair(cnat(c['b']), cnat(c['d']), copt(None if c['mdb'] is None else cnat(c['mdb'])), cnat(r['inner_shape'][0]), cnat(r['inner_shape'][1])))
  dhdr = HEADER + '''
Definition chk (c : nat * nat * option nat * nat * nat) : bool :=
  let '(b, d, mdb, s0, s1) := c in
  let x := map Z.of_nat (seq 0 b) in
  Nat.eqb s0 d && Nat.eqb s1 (device_batch b d mdb) && Nat.eqb (length (pad_shard d mdb x)) d &&
  list_beq Z.eqb (pad_shard_unpad (fun v => (2 * v + 1)%Z) d mdb x) (map (fun v => (2 * v + 1)%Z) x).
'''
  bad = common.coq_mismatches('c20_pad', dhdr, dcoq, 'chk', shard=700)
  for i in bad[:5]:
    chk.violation('correspondence', 'Model device_batch/pad_shard and flax pad_shard_unpad disagree on the padded shape', {'case': pad[i], 'observed': padres[i]})
  chk.cov['traces_validated_against_impl'] += len(dcoq)
  scoq = []
  for c, o in zip(scan, sres):
    chk.count({'scan': c}, len(c['axis']) >= 2)
    raw = o.get('ok', {}).pop('_raw', None)
    if 'err' in o or not (o['ok']['carry_ok'] and o['ok']['ys_ok']):
      chk.violation('oracle', 'scan_in_dim differs from the nested Python loop over the chosen axes', {'case': c, 'observed': o})
    elif raw is not None:
      depth = len(c['axis'])
      def cx(t, d):
        return ('(NLeaf %s)' % cZ(t[0])) if d == 0 else '(NNode %s)' % clist([cx(k, d - 1) for k in t])
      def cy(t, d):
        return ('(NLeaf %s)' % cZ(t[1])) if d == 0 else '(NNode %s)' % clist([cy(k, d - 1) for k in t])
      def uniform(t, d):
        return t[2] if d == 0 else all(uniform(k, d - 1) for k in t)
      if not uniform(raw['nest'], depth):
        chk.violation('oracle', 'scan_in_dim: the body\'s output for one step was not written to one slice of the result', {'case': c})
      else:
        scoq.append(cpair(cx(raw['nest'], depth), cy(raw['nest'], depth), cZ(raw['cfin'])))
  shdr = 'From Coq Require Import ZArith.\nFrom Flaxm Require Import Lib.Harness Model.LinenLoop Model.ScanNd.\nOpen Scope Z_scope.\n' + """
Definition sbody (c x : Z) : Z * Z := let u := c * 3 + x in (u mod 1000003, u mod 7).
Fixpoint nest_beq (a b : nest Z) : bool :=
  match a, b with
  | NLeaf x, NLeaf y => Z.eqb x y
  | NNode k1, NNode k2 => (fix go l1 l2 := match l1, l2 with [] , [] => true | x :: r1, y :: r2 => nest_beq x y && go r1 r2 | _, _ => false end) k1 k2
  | _, _ => false
  end.
Definition chk (c : nest Z * nest Z * Z) : bool :=
  let '(xs, ys, cfin) := c in let r := scan_nd Z Z Z sbody 0 xs in Z.eqb (fst r) cfin && nest_beq (snd r) ys.
"""
  bad = common.coq_mismatches('c20_scan', shdr, scoq, 'chk', shard=300)
  for i in bad[:5]:
    chk.violation('correspondence', 'Model/ScanNd.v scan_nd and flax.jax_utils.scan_in_dim disagree on the final carry or the stacked outputs (C20_scan_nd_is_loop no longer transfers)', {'row': scoq[i][:400]})
  chk.cov['traces_validated_against_impl'] = chk.cov.get('traces_validated_against_impl', 0) + len(scoq)
  rcoq = []
  for c, o in zip(reshape, reres):
    chk.count({'reshape': c}, c['d'] > 1)
    raw = o.get('ok', {}).pop('_raw', None)
    if raw is not None:
      zl = lambda l: clist([cZ(int(v)) for v in l])
      zll = lambda ll: clist([zl(l) for l in ll])
      rcoq.append(cpair(cnat(c['d']), zl(raw['shard'][0]), zll(raw['shard'][1]), zll(raw['forest'][0]), zll(raw['forest'][1]),
                        zl(raw['onehot'][0]), cnat(raw['onehot'][1]), zll(raw['onehot'][2])))
    if 'err' in o or not all(o['ok'].values()):
      chk.violation('oracle', 'shard / stack_forest / onehot / replicate / unreplicate is not the stated reshape', {'case': c, 'observed': o})
  rhdr = 'From Flaxm Require Import Lib.Harness Model.Host.\n' + """
Definition zll_beq := list_beq (list_beq Z.eqb).
Definition chk (c : nat * list Z * list (list Z) * list (list Z) * list (list Z) * list Z * nat * list (list Z)) : bool :=
  let '(d, x, sh, forest, st, labels, k, oh) := c in
  zll_beq (shard d x) sh && zll_beq (stack_forest 2 forest) st && zll_beq (onehot labels k 5 (-2))%Z oh.
"""
  bad = common.coq_mismatches('c20_reshape', rhdr, rcoq, 'chk', shard=500)
  for i in bad[:5]:
    chk.violation('correspondence', 'Model/Host.v shard / stack_forest / onehot and flax.training.common_utils disagree (C20_shard, C20_stack_forest, C20_onehot_* no longer transfer)',
                  {'case': reshape[i], 'observed': reres[i]})
  chk.cov['traces_validated_against_impl'] = chk.cov.get('traces_validated_against_impl', 0) + len(rcoq)
  chk.notes['schedules_explored'] = nsched
  chk.notes['source_configurations_with_all_schedules_enumerated'] = exhaustive_groups
  chk.notes['pad_grid_points'] = len(pad)
  chk.notes['scan_cases'] = len(scan)
  chk.cov['rule'] = ('PrefetchIterator: every schedule (stateless DFS over the cooperative scheduler\'s choice points: Thread.start, lock acquire/release, blocking waits, next() of the '
                     'source) for sources of length <= %d x {exhausts, fails} x buffer sizes {1,2}, capped per configuration, plus random schedules for longer sources and real-thread '
                     'runs with random delays; each recorded interleaving is replayed in the Coq transition system. pad_shard_unpad: full grid b <= %d, d in {1,2,3,4,8}, '
                     'min_device_batch in {None,1,3,7}; scan_in_dim: every axis tuple of several shapes; prefetch_to_device: lengths 0..6 x sizes x failing. '
                     'non-trivial = schedule uses >= 3 distinct step kinds / padding actually needed / >= 2 axes' % (2 if thorough else 1, 40 if thorough else 24))
  chk.cov['trusted_base'] = ['Coq 8.16.1 kernel + vm_compute', 'harness/c20.py + impl_c20.py + coop.py (the cooperative threading substitute)', 'harness/jaxcompat.py']
