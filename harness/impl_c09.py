"""Implementation side of C09: key traces of Linen programs (decoded into addresses with an independent
re-computation: hashlib + jax.random.fold_in) and NNX Rngs histories (decoded into key terms)."""
import impl_linen as L
import common
import linen_prog as LP
import jax
import jax.numpy as jnp
import numpy as np
import flax
from flax import nnx


def key_data(k):
  return tuple(int(x) for x in np.asarray(jax.random.key_data(k)).reshape(-1))


def expected_linen_key(seed_key, path, count, sep):
  h = LP.suffix_hash(list(path) + [count], sep)
  return key_data(jax.random.fold_in(seed_key, jnp.uint32(h)))


def decode_trace(trace, streams, sep, seed=0):
  rngs = L.rng_dict(streams, seed)
  out = []
  for ev in trace:
    kind, path = ev[0], ev[1]
    kd = tuple(ev[3])
    cands = []
    req = 'params' if kind == 'param' else ev[2]
    for s in dict.fromkeys([req, 'params']):
      if s not in rngs:
        continue
      for c in range(1, 40):
        if expected_linen_key(rngs[s], path, c, sep) == kd:
          cands.append([s, c])
    out.append({'kind': kind, 'path': path, 'name': ev[2], 'decoded': cands, 'key': list(kd)})
  return out


def linen_case(c, pid):
  flax.config.update('flax_fix_rng_separator', bool(c['sep']))
  try:
    m = L.top_module(c['prog'], pid)
    x = jnp.asarray(np.array(c['x'], dtype=np.int64))
    ini = L.run_init(m, x, c['streams'])
    out = {'init': {'err': ini['err']} if 'err' in ini else {'vars': ini['vars']}, 'init_trace': decode_trace(ini['trace'], c['streams'], c['sep'])}
    if 'err' not in ini:
      ap = L.run_apply(m, ini['raw'], x, c['streams'], True)
      out['apply'] = {'err': ap['err']} if 'err' in ap else {}
      out['apply_trace'] = decode_trace(ap['trace'], c['streams'], c['sep'])
      ini2 = L.run_init(m, x, c['streams'])
      out['deterministic'] = ini2['trace'] == ini['trace']
      ini3 = L.run_init(m, x, c['streams'], seed=1)
      out['seed_changes_keys'] = (not ini['trace']) or all(a[3] != b[3] for a, b in zip(ini['trace'], ini3['trace']))
    return out
  finally:
    flax.config.update('flax_fix_rng_separator', False)


def term_table(seeds, ns, maxc=24, maxj=16):
  """key data -> term, for every key a history of at most maxc plain draws and maxj draws per lane inside a split can hand out"""
  tab = {}
  js = jnp.arange(maxj, dtype=jnp.uint32)
  inner = jax.vmap(lambda k: jax.vmap(lambda j: jax.random.key_data(jax.random.fold_in(k, j)))(js))
  for name, s in seeds.items():
    k = jax.random.key(s)
    for c in range(maxc):
      kc = jax.random.fold_in(k, c)
      tab[key_data(kc)] = ['fold', ['seed', s], c]
      for n in ns:
        data = np.asarray(inner(jax.random.split(kc, n)))        # (n, maxj, 2)
        for i in range(n):
          for j in range(maxj):
            tab[tuple(int(a) for a in data[i, j].reshape(-1))] = ['fold', ['split', ['fold', ['seed', s], c], n, i], j]
  return tab


def nnx_case(c):
  seeds = dict(c['seeds'])
  kw = {k: v for k, v in seeds.items() if k != 'default'}
  rngs = nnx.Rngs(seeds['default'], **kw) if 'default' in seeds else nnx.Rngs(**kw)
  ns = sorted({o[2] for o in c['ops'] if o[0] == 'split'})
  reseeds = {('r%d' % i): o[2] for i, o in enumerate(c['ops']) if o[0] == 'reseed'}
  tab = term_table({**seeds, **reseeds}, ns)
  backups = []
  split_now = []
  out = []
  for o in c['ops']:
    try:
      if o[0] == 'draw':
        resolved = o[1] if o[1] in rngs else 'default'
        if split_now and resolved in split_now[-1]:
          # a split stream is drawn from inside nnx.vmap, one lane per split key
          tags = split_now[-1]
          axes = nnx.StateAxes({nnx.Any(*[nnx.filterlib.WithTag(t) for t in tags]): 0, ...: None})
          k = nnx.vmap(lambda r: getattr(r, o[1])(), in_axes=(axes,), out_axes=0)(rngs)
        else:
          k = getattr(rngs, o[1])()
        ks = [k] if k.shape == () else list(k)
        out.append({'keys': [tab.get(key_data(x)) for x in ks], 'raw': [list(key_data(x)) for x in ks]})
      elif o[0] == 'split':
        only = nnx.Any(*[nnx.filterlib.WithTag(t) for t in o[1]]) if o[1] is not None else ...
        if len(o) > 3 and o[3]:
          backups.append(nnx.split_rngs(rngs, splits=1, only=only, squeeze=True))
          split_now.append([])          # squeezed streams stay scalar: drawn from directly
        else:
          backups.append(nnx.split_rngs(rngs, splits=o[2], only=only))
          split_now.append(list(o[1]) if o[1] is not None else [n for n in rngs])
        out.append({'ok': True})
      elif o[0] == 'restore':
        if backups:
          nnx.restore_rngs(backups.pop())
          split_now.pop()
        out.append({'ok': True})
      elif o[0] == 'reseed':
        nnx.reseed(rngs, **{o[1]: o[2]})
        out.append({'ok': True})
    except Exception as e:  # pylint: disable=broad-except
      out.append({'raised': type(e).__name__})
  return out


def reseed_multi(c):
  """a model whose blocks were built with SEPARATE nnx.Rngs objects holding streams of the same name: reseed restarts every one of them"""
  class Block(nnx.Module):
    def __init__(self, rngs):
      self.rngs = rngs
  class Model(nnx.Module):
    def __init__(self, blocks):
      self.blocks = blocks
  blocks = [Block(nnx.Rngs(params=10 * i, dropout=10 * i + 1)) for i in range(c['nblocks'])]
  model = Model(blocks)
  for i, n in enumerate(c['draws_before']):
    for _ in range(n):
      blocks[i % len(blocks)].rngs.dropout()
  nnx.reseed(model, dropout=c['seed'])
  out = []
  for b in blocks:
    ks = [key_data(b.rngs.dropout()) for _ in range(c['draws_after'])]
    want = [key_data(jax.random.fold_in(jax.random.key(c['seed']), j)) for j in range(c['draws_after'])]
    out.append({'restarted': ks == want})
  return out


def jit_args(c):
  """bound sibling modules (or child scopes) handed to a jitted / fold_rngs-wrapped module as ARGUMENTS: every key drawn in one apply --
  by each sibling inside the transform, by each sibling outside it, by the parent itself -- must be different, and the same on every apply"""
  import flax.linen as nn
  from flax.core import apply as core_apply, lift
  form, nsib, draws = c['form'], c['nsib'], c['draws']

  kd = jax.random.key_data
  fin = lambda ks: [[int(v) for v in np.asarray(k).reshape(-1)] for k in ks]
  if form == 'core':
    def leaf(scope, hk):
      return [kd(scope.make_rng('noise')) for _ in range(draws)]

    def body(scope):
      ks = [kd(scope.make_rng('noise'))]
      for i in range(nsib):
        ks += lift.jit(leaf)(scope.push('b%d' % i), 'k')
      for i in range(nsib):
        ks += lift.fold_rngs(leaf)(scope.push('f%d' % i), 'k')
      ks.append(kd(scope.make_rng('noise')))
      return ks
    run = lambda: core_apply(body, mutable=True)({}, rngs={'noise': jax.random.key(c['seed'])})[0]
  else:
    class Leaf(nn.Module):
      @nn.compact
      def __call__(self):
        return [kd(self.make_rng('noise')) for _ in range(draws)]

    class Plain(nn.Module):
      @nn.compact
      def __call__(self, other):
        return other()

    class MJ(nn.Module):
      @nn.jit
      def __call__(self, other):
        return other()
    A = {'method': MJ, 'class': nn.jit(Plain), 'fold': nn.fold_rngs(Plain)}[form]

    class P(nn.Module):
      @nn.compact
      def __call__(self):
        a = A(name='a')
        sibs = [Leaf(name='b%d' % i) for i in range(nsib)]
        ks = [kd(self.make_rng('noise'))] if c['own'] else []
        for b in sibs:
          ks += a(b)
        for b in sibs:
          ks += b()
        if c['own']:
          ks.append(kd(self.make_rng('noise')))
        return ks
    run = lambda: P().apply({}, rngs={'noise': jax.random.key(c['seed'])})
  runs = [fin(run()) for _ in range(c['applies'])]
  # roles of the draws, in the order the program makes them, and the keys an independent re-computation gives for them:
  # root / own draw number n: fold(root, H(n)); sibling b outside: fold(root, H(b, n)); sibling b inside the transform: fold(fold(root, H(b)), H(n))
  roles = []      # the per-scope call count starts at 1
  if form == 'core':
    roles.append(['root', 1])
    roles += [['in', 'b%d' % i, j + 1] for i in range(nsib) for j in range(draws)]
    roles += [['in', 'f%d' % i, j + 1] for i in range(nsib) for j in range(draws)]
    roles.append(['root', 2])
  else:
    if c['own']:
      roles.append(['root', 1])
    roles += [['in', 'b%d' % i, j + 1] for i in range(nsib) for j in range(draws)]
    roles += [['out', 'b%d' % i, draws + j + 1] for i in range(nsib) for j in range(draws)]
    if c['own']:
      roles.append(['root', 2])
  root = jax.random.key(c['seed'])
  fold = lambda k, suffix: jax.random.fold_in(k, jnp.uint32(LP.suffix_hash(suffix, False)))
  want = []
  for r in roles:
    if r[0] == 'root':
      k = fold(root, [r[1]])
    elif r[0] == 'out':
      k = fold(root, [r[1], r[2]])
    else:
      k = fold(fold(root, [r[1]]), [r[2]])
    want.append([int(v) for v in np.asarray(jax.random.key_data(k)).reshape(-1)])
  return {'runs': runs, 'roles': roles, 'recomputed': want}


def bridge_keys(c):
  """an NNX module that owns its Rngs, embedded in a Linen model through nnx.bridge.ToLinen: every apply reseeds the NNX streams from the
  Linen rngs of that call, so the keys follow the Linen seed and the call position"""
  import flax.linen as nn
  from flax import nnx
  from flax.nnx import bridge
  stream = c['stream']

  class Noisy(nnx.Module):
    def __init__(self, rngs=None):
      self.rngs = nnx.Rngs(**{stream: c['own_seed']}) if rngs is None or c['skip_rng'] else rngs

    def __call__(self):
      return jax.random.key_data(getattr(self.rngs, stream)())

  class Model(nn.Module):
    @nn.compact
    def __call__(self):
      noisy = bridge.ToLinen(Noisy, skip_rng=c['skip_rng'], name='noisy')
      return [noisy() for _ in range(c['calls'])]
  model = Model()
  variables = model.init({'params': jax.random.key(0), stream: jax.random.key(1)})

  def run(seed):
    return [[int(v) for v in np.asarray(k).reshape(-1)] for k in model.apply(variables, rngs={stream: jax.random.key(seed)})]
  return {'a': run(c['seed']), 'a_again': run(c['seed']), 'b': run(c['seed'] + 1)}


def branch_draws():
  """nn.cond / nn.switch whose branches draw different numbers of keys from one stream, followed by a draw after the transform, by the module
  itself and by a sub-module created before the transform: the keys of the branch that ran and the key drawn afterwards are pairwise different"""
  import itertools
  import flax.linen as nn
  kd = lambda k: jax.random.key_data(k)

  def branch(n, n_out, draw):
    def fn(mdl):
      keys = [draw(mdl) for _ in range(n)]
      return jnp.stack(keys + [jnp.zeros_like(keys[0])] * (n_out - n))
    return fn

  class Noise(nn.Module):
    @nn.compact
    def __call__(self):
      return kd(self.make_rng('noise'))

  class M(nn.Module):
    draws: tuple
    form: str
    sub: bool

    @nn.compact
    def __call__(self, sel):
      src = Noise(name='src') if self.sub else None
      draw = (lambda mdl: src()) if self.sub else (lambda mdl: kd(mdl.make_rng('noise')))
      n_out = max(self.draws)
      fns = [branch(n, n_out, draw) for n in self.draws]
      inb = nn.cond(sel, fns[0], fns[1], self) if self.form == 'cond' else nn.switch(sel, fns, self)
      return inb, (src() if self.sub else kd(self.make_rng('noise')))
  bad, rows = [], []
  for form, all_draws in (('cond', [(2, 1), (1, 2), (3, 1), (2, 2)]), ('switch', [(2, 1, 3), (1, 3, 1), (3, 2, 1)])):
    for draws in all_draws:
      for sub in (False, True):
        for idx in range(len(draws)):
          sel = jnp.asarray(idx == 0) if form == 'cond' else jnp.asarray(idx)
          try:
            (inb, after), _ = M(draws, form, sub).apply({}, sel, rngs={'noise': jax.random.key(7)}, mutable=True)
            keys = [tuple(int(v) for v in np.asarray(r).ravel()) for r in np.asarray(inb)[:draws[idx]]] + [tuple(int(v) for v in np.asarray(after).ravel())]
            if len(set(keys)) != len(keys):
              bad.append({'form': form, 'draws': list(draws), 'sub_module': sub, 'branch': idx, 'keys': [list(k) for k in keys]})
            # the call count each key was drawn at (decoded by recomputing fold_in(seed, sha1(path + count)))
            path = ['src'] if sub else []
            table = {expected_linen_key(jax.random.key(7), path, cnt, False): cnt for cnt in range(1, 40)}
            rows.append({'form': form, 'draws': list(draws), 'sub_module': sub, 'branch': idx, 'counts': [table.get(k, 0) for k in keys]})
          except Exception as e:  # pylint: disable=broad-except
            bad.append({'form': form, 'draws': list(draws), 'sub_module': sub, 'branch': idx, 'err': type(e).__name__, 'msg': str(e)[:160]})
  return {'bad': bad, 'rows': rows}


def main(payload):
  if payload.get('branch_draws'):
    return {'branch_draws': branch_draws()}
  if 'bridge_keys' in payload:
    out = []
    for c in payload['bridge_keys']:
      try:
        out.append({'ok': bridge_keys(c)})
      except Exception as e:  # pylint: disable=broad-except
        import traceback
        out.append({'err': type(e).__name__, 'tb': traceback.format_exc()[-600:]})
    return {'bridge_keys': out}
  if 'jit_args' in payload:
    out = []
    for c in payload['jit_args']:
      try:
        out.append({'ok': jit_args(c)})
      except Exception as e:  # pylint: disable=broad-except
        import traceback
        out.append({'err': type(e).__name__, 'tb': traceback.format_exc()[-600:]})
    return {'jit_args': out}
  res = {}
  if 'reseed_multi' in payload:
    res['reseed_multi'] = []
    for c in payload['reseed_multi']:
      try:
        res['reseed_multi'].append({'ok': reseed_multi(c)})
      except Exception as e:  # pylint: disable=broad-except
        import traceback
        res['reseed_multi'].append({'err': type(e).__name__, 'tb': traceback.format_exc()[-600:]})
  if 'linen' in payload:
    res['linen'] = []
    for i, c in enumerate(payload['linen']):
      try:
        res['linen'].append({'ok': linen_case(c, i)})
      except Exception as e:  # pylint: disable=broad-except
        import traceback
        res['linen'].append({'err': type(e).__name__, 'tb': traceback.format_exc()[-600:]})
  if 'nnx' in payload:
    res['nnx'] = []
    for c in payload['nnx']:
      try:
        res['nnx'].append({'ok': nnx_case(c)})
      except Exception as e:  # pylint: disable=broad-except
        import traceback
        res['nnx'].append({'err': type(e).__name__, 'tb': traceback.format_exc()[-600:]})
  return res


if __name__ == '__main__':
  common.worker_main(main)
