"""Implementation side of C13: RNN wrappers with an integer cell (exact), the real cells against their recurrences and
against a manual loop, attention weights / mask non-interference / stepwise decoding."""
import jaxcompat  # noqa: F401
import warnings
warnings.filterwarnings('ignore')
import common
import jax
import jax.numpy as jnp
import numpy as np
import flax.linen as nn
from flax import nnx


def safe(fn):
  try:
    return {'ok': fn()}
  except Exception as e:  # pylint: disable=broad-except
    import traceback
    return {'err': type(e).__name__, 'msg': str(e)[:200], 'tb': traceback.format_exc()[-400:]}


# ------------------------------------------------------------------ integer cell: carry' = a*carry + b*x ; y = carry' + c*x
class IntCell(nn.RNNCellBase):
  a: int = 2
  b: int = 1
  c: int = 100
  features: int = 1

  @nn.compact
  def __call__(self, carry, x):
    new = carry * self.a + x * self.b
    return new, new + x * self.c

  def initialize_carry(self, rng, input_shape):
    return jnp.zeros(input_shape[:-1] + (self.features,), jnp.int64)

  @property
  def num_feature_axes(self):
    return 1


class NIntCell(nnx.RNNCellBase):
  def __init__(self, a, b, c):
    self.a, self.b, self.c = a, b, c

  def __call__(self, carry, x):
    new = carry * self.a + x * self.b
    return new, new + x * self.c

  def initialize_carry(self, input_shape, rngs=None):
    return jnp.zeros(input_shape[:-1] + (1,), jnp.int64)

  @property
  def num_feature_axes(self):
    return 1


def int_rnn(c):
  """x: (*batch, T) integers (feature dim 1 added here); returns outputs (*batch, T) and final carry (*batch)"""
  x = jnp.asarray(np.array(c['x'], dtype=np.int64))[..., None]
  nb = x.ndim - 2
  lens = jnp.asarray(np.array(c['lens'], dtype=np.int32)) if c['lens'] is not None else None
  if c['time_major']:
    xin = jnp.moveaxis(x, nb, 0)
  else:
    xin = x
  c0 = jnp.asarray(np.array(c['c0'], dtype=np.int64))[..., None] if c.get('c0') is not None else None
  eff = dict(return_carry=True, time_major=c['time_major'], reverse=c['reverse'], keep_order=c['keep_order'])
  # each flag is either passed at call time (overriding whatever the constructor was given) or left to the constructor
  at_call = c.get('at_call', list(eff))
  ctor = {k: (c.get('ctor', {}).get(k, not v) if k in at_call else v) for k, v in eff.items()}
  kw = dict(seq_lengths=lens, **{k: v for k, v in eff.items() if k in at_call})
  res = {}

  def back(y):
    y = np.asarray(y)
    if c['time_major']:
      y = np.moveaxis(y, 0, nb)
    return y[..., 0].tolist()

  def li():
    rnn = nn.RNN(IntCell(c['a'], c['b'], c['c']), **(ctor if 'at_call' in c else {}))
    (carry, y), _ = rnn.init_with_output(jax.random.key(0), xin, initial_carry=c0, **kw)
    return {'carry': np.asarray(carry)[..., 0].tolist(), 'y': back(y)}
  res['linen'] = safe(li)

  def nx():
    rnn = nnx.RNN(NIntCell(c['a'], c['b'], c['c']), **(ctor if 'at_call' in c else {}))
    carry, y = rnn(xin, initial_carry=c0, **kw)
    return {'carry': np.asarray(carry)[..., 0].tolist(), 'y': back(y)}
  res['nnx'] = safe(nx)
  if c.get('bidirectional'):
    def bi():
      m = nn.Bidirectional(nn.RNN(IntCell(c['a'], c['b'], c['c'])), nn.RNN(IntCell(c['a'] + 1, c['b'], c['c'])), return_carry=True, time_major=c['time_major'])
      ((cf, cb), y), _ = m.init_with_output(jax.random.key(0), xin, seq_lengths=lens)
      y = np.asarray(y)
      if c['time_major']:
        y = np.moveaxis(y, 0, nb)
      return {'carry_f': np.asarray(cf)[..., 0].tolist(), 'carry_b': np.asarray(cb)[..., 0].tolist(), 'y_f': y[..., 0].tolist(), 'y_b': y[..., 1].tolist()}
    res['linen_bi'] = safe(bi)
  return res


# ------------------------------------------------------------------ real cells
def sigmoid(x):
  return 1.0 / (1.0 + np.exp(-x))


def cell_ref(kind, p, carry, x):
  """the documented recurrences, from the parameter dicts of the Linen cells"""
  d = lambda name, v: v @ np.asarray(p[name]['kernel']) + (np.asarray(p[name]['bias']) if 'bias' in p[name] else 0.0)
  if kind in ('lstm', 'olstm'):
    c, h = carry
    i = sigmoid(d('ii', x) + d('hi', h))
    f = sigmoid(d('if', x) + d('hf', h))
    g = np.tanh(d('ig', x) + d('hg', h))
    o = sigmoid(d('io', x) + d('ho', h))
    c2 = f * c + i * g
    h2 = o * np.tanh(c2)
    return (c2, h2), h2
  if kind == 'gru':
    h = carry
    r = sigmoid(d('ir', x) + d('hr', h))
    z = sigmoid(d('iz', x) + d('hz', h))
    n = np.tanh(d('in', x) + r * d('hn', h))
    h2 = (1.0 - z) * n + z * h
    return h2, h2
  if kind in ('simple', 'simple_res'):
    h = carry
    h2 = np.tanh(d('i', x) + d('h', h) + (h if kind == 'simple_res' else 0.0))
    return h2, h2
  if kind == 'mgu':
    h = carry
    f = sigmoid(d('if', x) + d('hf', h))
    n = np.tanh(d('in', x) + f * d('hn', h))
    h2 = (1.0 - f) * n + f * h
    return h2, h2
  raise ValueError(kind)


CELLS = {'lstm': nn.LSTMCell, 'olstm': nn.OptimizedLSTMCell, 'gru': nn.GRUCell, 'simple': nn.SimpleCell, 'mgu': nn.MGUCell,
         'simple_res': lambda **kw: nn.SimpleCell(residual=True, **kw)}


def real_rnn(c):
  """RNN(cell) against the manual loop of cell.apply and against the numpy recurrence; padding inert; NNX LSTM with copied parameters"""
  rng = np.random.RandomState(c['seed'])
  B, T, F, H = c['batch'], c['T'], c['features'], c['hidden']
  if c['kind'] == 'simple_res':
    F = H        # the residual connection adds the carry to the pre-activation
  x = jnp.asarray(rng.randn(*B, T, F))
  lens = jnp.asarray(np.array(c['lens'], dtype=np.int32)) if c['lens'] is not None else None
  kind = c['kind']
  cell = CELLS[kind](features=H, param_dtype=jnp.float64)
  rnn = nn.RNN(cell, return_carry=True, reverse=c['reverse'], keep_order=c['keep_order'])
  variables = rnn.init(jax.random.key(c['seed']), x)
  res = {}
  carry, y = rnn.apply(variables, x, seq_lengths=lens)
  # manual loop per batch element, honouring seq_lengths and reverse as documented
  cp = variables['params']['cell']
  yref = np.zeros(tuple(B) + (T, H))
  cref = []
  max_dev_loop = 0.0
  for b in np.ndindex(*B):
    n = int(np.asarray(lens)[b]) if lens is not None else T
    order = list(range(n))[::-1] if c['reverse'] else list(range(n))
    cr = (np.zeros(H), np.zeros(H)) if kind in ('lstm', 'olstm') else np.zeros(H)
    ca = cell.initialize_carry(jax.random.key(0), (F,))
    for step, t in enumerate(order):
      cr, yy = cell_ref(kind if kind != 'olstm' else 'lstm', cp if kind != 'olstm' else olstm_params(cp, F, H), cr, np.asarray(x[b][t]))
      ca, ya = cell.apply({'params': cp}, ca, x[b][t])
      pos = t if (c['keep_order'] or not c['reverse']) else step
      yref[b + (pos,)] = yy
      max_dev_loop = max(max_dev_loop, float(np.max(np.abs(np.asarray(ya) - np.asarray(y[b][pos])))))
    cref.append(cr)
  ylist = np.asarray(y)
  dev = 0.0
  for b in np.ndindex(*B):
    n = int(np.asarray(lens)[b]) if lens is not None else T
    dev = max(dev, float(np.max(np.abs(ylist[b][:n] - yref[b][:n]))))
  cflat = [np.asarray(z) for z in jax.tree_util.tree_leaves(carry)]
  cdev = 0.0
  for k, b in enumerate(np.ndindex(*B)):
    leaves = list(cref[k]) if isinstance(cref[k], tuple) else [cref[k]]
    for got, want in zip(cflat, leaves):
      cdev = max(cdev, float(np.max(np.abs(got[b] - want))))
  res['dev_outputs_vs_recurrence'] = dev
  res['dev_carry_vs_recurrence'] = cdev
  res['dev_outputs_vs_cell_loop'] = max_dev_loop
  # padding inert: perturb the padded inputs
  if lens is not None:
    xp = np.array(x)
    for b in np.ndindex(*B):
      n = int(np.asarray(lens)[b])
      xp[b][n:] = 1e6 * (1 + rng.rand(T - n, F))
    carry2, y2 = rnn.apply(variables, jnp.asarray(xp), seq_lengths=lens)
    same = all(bool(np.array_equal(np.asarray(a), np.asarray(b2))) for a, b2 in zip(jax.tree_util.tree_leaves(carry), jax.tree_util.tree_leaves(carry2)))
    for b in np.ndindex(*B):
      n = int(np.asarray(lens)[b])
      same = same and bool(np.array_equal(np.asarray(y)[b][:n], np.asarray(y2)[b][:n]))
    res['padding_inert'] = same
  # NNX LSTM with the same parameters
  if kind == 'lstm':
    def nx():
      ncell = nnx.LSTMCell(F, H, param_dtype=jnp.float64, rngs=nnx.Rngs(0))
      for name in ('ii', 'if', 'ig', 'io', 'hi', 'hf', 'hg', 'ho'):
        lin = getattr(ncell, 'if_' if name == 'if' else name)
        lin.kernel.value = cp[name]['kernel']
        if 'bias' in cp[name]:
          lin.bias.value = cp[name]['bias']
      nr = nnx.RNN(ncell, return_carry=True, reverse=c['reverse'], keep_order=c['keep_order'])
      carry_n, y_n = nr(x, seq_lengths=lens)
      d = 0.0
      for b in np.ndindex(*B):
        n = int(np.asarray(lens)[b]) if lens is not None else T
        d = max(d, float(np.max(np.abs(np.asarray(y_n)[b][:n] - ylist[b][:n]))))
      dc = max(float(np.max(np.abs(np.asarray(a) - np.asarray(b2)))) for a, b2 in zip(jax.tree_util.tree_leaves(carry_n), jax.tree_util.tree_leaves(carry)))
      return max(d, dc)
    res['dev_nnx_vs_linen'] = safe(nx)
  return res


def olstm_params(cp, F, H):
  """OptimizedLSTMCell stores the same parameters under the same names (ii, if, ig, io, hi, hf, hg, ho)"""
  return cp


# ------------------------------------------------------------------ attention
def softmax_ref(q, k, bias, mask):
  d = q.shape[-1]
  logits = np.einsum('...qhd,...khd->...hqk', q, k) / np.sqrt(d)
  if bias is not None:
    logits = logits + bias
  w = np.zeros_like(logits)
  it = np.ndindex(*logits.shape[:-1])
  for idx in it:
    row = logits[idx]
    allow = np.ones_like(row, dtype=bool) if mask is None else np.broadcast_to(mask, logits.shape)[idx]
    if not allow.any():
      w[idx] = np.nan
      continue
    m = row[allow].max()
    e = np.where(allow, np.exp(row - m), 0.0)
    w[idx] = e / e.sum()
  return w


def attention(c):
  rng = np.random.RandomState(c['seed'])
  B, Tq, Tk, Hh, D = c['batch'], c['Tq'], c['Tk'], c['heads'], c['dim']
  q = rng.randn(*B, Tq, Hh, D)
  k = rng.randn(*B, Tk, Hh, D)
  v = rng.randn(*B, Tk, Hh, D)
  bias = rng.randn(*B, Hh, Tq, Tk) if c['bias'] else None
  mask = np.array(c['mask'], dtype=bool) if c['mask'] is not None else None          # (*B, 1 or H, Tq, Tk) or broadcastable
  res = {}
  w = np.asarray(nn.dot_product_attention_weights(jnp.asarray(q), jnp.asarray(k), None if bias is None else jnp.asarray(bias), None if mask is None else jnp.asarray(mask), dtype=jnp.float64))
  wref = softmax_ref(q, k, bias, mask)
  ok = ~np.isnan(wref)
  res['dev_weights'] = float(np.max(np.abs(w[ok] - wref[ok]))) if ok.any() else 0.0
  full = np.broadcast_to(mask, w.shape) if mask is not None else np.ones(w.shape, dtype=bool)
  rows_ok = full.any(axis=-1, keepdims=True)
  res['masked_weight_max'] = float(np.max(np.where(~full & rows_ok, np.abs(w), 0.0)))
  from flax.nnx.nn.attention import dot_product_attention_weights as nnx_weights
  wn = np.asarray(nnx_weights(jnp.asarray(q), jnp.asarray(k), None if bias is None else jnp.asarray(bias), None if mask is None else jnp.asarray(mask), dtype=jnp.float64))
  res['dev_nnx_weights'] = float(np.max(np.abs(wn[ok] - w[ok]))) if ok.any() else 0.0
  # non-interference: perturb keys / values at positions no valid query may see
  out = np.asarray(nn.dot_product_attention(jnp.asarray(q), jnp.asarray(k), jnp.asarray(v), None if bias is None else jnp.asarray(bias), None if mask is None else jnp.asarray(mask), dtype=jnp.float64))
  if mask is not None:
    seen = full.any(axis=(-3, -2))          # (*B, Tk): key position visible to some (head, query)
    k2, v2 = k.copy(), v.copy()
    for idx in np.ndindex(*seen.shape):
      if not seen[idx]:
        k2[idx] = 50.0 * (1 + rng.rand(Hh, D))
        v2[idx] = 1e6 * (1 + rng.rand(Hh, D))
    out2 = np.asarray(nn.dot_product_attention(jnp.asarray(q), jnp.asarray(k2), jnp.asarray(v2), None if bias is None else jnp.asarray(bias), jnp.asarray(mask), dtype=jnp.float64))
    qok = np.moveaxis(rows_ok[..., 0], -2, -1)          # (*B, Tq, H)
    res['mask_inert'] = bool(np.array_equal(out[qok], out2[qok]))
  res['dev_output'] = float(np.max(np.abs(np.where(np.isnan(np.einsum('...hqk,...khd->...qhd', np.nan_to_num(wref), v)), 0, out - np.einsum('...hqk,...khd->...qhd', np.nan_to_num(wref), v))
                                          [np.moveaxis(rows_ok[..., 0], -2, -1)]))) if rows_ok.any() else 0.0
  return res


def decode(c):
  """stepwise decoding with a cache == whole-sequence attention under a causal mask (Linen and NNX, same parameters)"""
  rng = np.random.RandomState(c['seed'])
  Bn, T, Hh, F = c['batch'], c['T'], c['heads'], c['features']
  bs = tuple(c['bshape']) if c.get('bshape') is not None else (Bn,)      # any number of batch dimensions, none included
  x = jnp.asarray(rng.randn(*bs, T, F))
  res = {}
  mha = nn.MultiHeadDotProductAttention(num_heads=Hh, qkv_features=Hh * c['dim'], param_dtype=jnp.float64, dtype=jnp.float64)
  variables = mha.init(jax.random.key(c['seed']), x)
  causal = nn.make_causal_mask(jnp.ones(bs + (T,)))
  whole = np.asarray(mha.apply(variables, x, mask=causal))
  dec = nn.MultiHeadDotProductAttention(num_heads=Hh, qkv_features=Hh * c['dim'], param_dtype=jnp.float64, dtype=jnp.float64, decode=True)
  cache = dec.init(jax.random.key(0), x)['cache']
  outs = []
  for t in range(T):
    y, upd = dec.apply({'params': variables['params'], 'cache': cache}, x[..., t:t + 1, :], mutable=['cache'])
    cache = upd['cache']
    outs.append(np.asarray(y)[..., 0, :])
  step = np.stack(outs, axis=-2)
  res['dev_linen_decode'] = float(np.max(np.abs(step - whole)))
  res['cache_index'] = int(cache['cache_index'])
  # the same with a key-padding mask given by the caller at every decode step: decode == whole-sequence under causal & padding
  valid = rng.rand(*bs, T) < 0.6
  valid[..., 0] = True                        # position 0 stays valid: no query row is fully masked
  pad = jnp.asarray(valid)[..., None, None, :]
  whole_p = np.asarray(mha.apply(variables, x, mask=nn.combine_masks(causal, pad)))
  cache = dec.init(jax.random.key(0), x)['cache']
  outs = []
  for t in range(T):
    y, upd = dec.apply({'params': variables['params'], 'cache': cache}, x[..., t:t + 1, :], mask=pad, mutable=['cache'])
    cache = upd['cache']
    outs.append(np.asarray(y)[..., 0, :])
  res['dev_linen_decode_padding'] = float(np.max(np.abs(np.stack(outs, axis=-2) - whole_p)))
  # future positions cannot influence earlier outputs
  x2 = np.array(x)
  t0 = c['T'] // 2
  x2[..., t0 + 1:, :] = 1e3 * (1 + rng.rand(*bs, T - t0 - 1, F))
  whole2 = np.asarray(mha.apply(variables, jnp.asarray(x2), mask=causal))
  res['causal_inert'] = bool(np.array_equal(whole[..., :t0 + 1, :], whole2[..., :t0 + 1, :]))

  def nx():
    m = nnx.MultiHeadAttention(num_heads=Hh, in_features=F, qkv_features=Hh * c['dim'], param_dtype=jnp.float64, dtype=jnp.float64, decode=False, rngs=nnx.Rngs(0))
    p = variables['params']
    for name in ('query', 'key', 'value', 'out'):
      getattr(m, name).kernel.value = p[name]['kernel']
      getattr(m, name).bias.value = p[name]['bias']
    wn = np.asarray(m(x, mask=causal, decode=False))
    m.init_cache(x.shape, dtype=jnp.float64)
    outs_n = [np.asarray(m(x[..., t:t + 1, :], decode=True))[..., 0, :] for t in range(T)]
    return {'dev_nnx_whole_vs_linen': float(np.max(np.abs(wn - whole))), 'dev_nnx_decode': float(np.max(np.abs(np.stack(outs_n, axis=-2) - wn)))}
  res['nnx'] = safe(nx)
  return res


FNS = {'int_rnn': int_rnn, 'real_rnn': real_rnn, 'attention': attention, 'decode': decode}


def masks(c):
  """make_attention_mask / make_causal_mask / combine_masks of Linen and NNX on integer inputs, with the dtype asked for"""
  from flax.nnx.nn import attention as nattn
  dt = {'f32': jnp.float32, 'bf16': jnp.bfloat16, 'f16': jnp.float16, 'bool': jnp.bool_}[c['dtype']]
  q, k = jnp.asarray(np.array(c['q'], dtype=np.int32)), jnp.asarray(np.array(c['k'], dtype=np.int32))
  fn = {'mul': jnp.multiply, 'eq': jnp.equal, 'ge': jnp.greater_equal}[c['fn']]
  out = {}
  for api, mod in (('linen', nn), ('nnx', nattn)):
    m = mod.make_attention_mask(q, k, fn, dtype=dt)
    cm = mod.make_causal_mask(jnp.zeros((c['n'],), jnp.int32) + c['offset'], dtype=dt)
    parts = [None if i in c['none'] else jnp.asarray(np.array(p, dtype=bool))[None] for i, p in enumerate(c['parts'])]
    comb = mod.combine_masks(*parts, dtype=dt)
    out[api] = {'mask': (np.asarray(m).astype(np.float32) != 0)[0].tolist(), 'mask_shape': list(m.shape), 'mask_dtype': str(m.dtype),
                'causal': (np.asarray(cm).astype(np.float32) != 0)[0].tolist(), 'causal_shape': list(cm.shape),
                'combined': None if comb is None else (np.asarray(comb).astype(np.float32) != 0)[0].tolist()}
  return out


FNS['masks'] = masks


def pow2attn(c):
  """one (batch, head) slice with logits that are integer multiples of ln 2: q = ln 2 * sqrt(d) * integers, integer keys and values,
  bias = ln 2 * integers; the raw weights and outputs go to the model (Model/Attn.v)"""
  qi, ki, vi = np.array(c['q'], dtype=np.float64), np.array(c['k'], dtype=np.float64), np.array(c['v'], dtype=np.float64)
  D = qi.shape[1]
  q = (np.log(2.0) * np.sqrt(D) * qi)[:, None, :]
  k, v = ki[:, None, :], vi[:, None, :]
  bias = None if c['bias'] is None else (np.log(2.0) * np.array(c['bias'], dtype=np.float64))[None]
  mask = None if c['mask'] is None else np.array(c['mask'], dtype=bool)[None]
  jb = None if bias is None else jnp.asarray(bias)
  jm = None if mask is None else jnp.asarray(mask)
  out = {}
  from flax.nnx.nn.attention import dot_product_attention_weights as nnx_weights, dot_product_attention as nnx_attention
  for api, wf, af in (('linen', nn.dot_product_attention_weights, nn.dot_product_attention), ('nnx', nnx_weights, nnx_attention)):
    w = np.asarray(wf(jnp.asarray(q), jnp.asarray(k), jb, jm, dtype=jnp.float64))[0]
    o = np.asarray(af(jnp.asarray(q), jnp.asarray(k), jnp.asarray(v), jb, jm, dtype=jnp.float64))[:, 0, :]
    out[api] = {'w': w.tolist(), 'o': o.tolist()}
  return out


FNS['pow2attn'] = pow2attn


def main(payload):
  res = []
  for c in payload['cases']:
    res.append(safe(lambda c=c: FNS[c['test']](c)))
  return {'cases': res}


if __name__ == '__main__':
  common.worker_main(main)
