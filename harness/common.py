"""Shared plumbing of the checks: Coq build / evaluation, implementation workers,
evidence, replays, known findings.  See DESIGN.md section 2."""
import fcntl
import hashlib
import json
import os
import random
import re
import subprocess
import sys
import time

VERIF = os.path.dirname(os.path.dirname(os.path.abspath(__file__)))
REPO = os.environ.get('VERIF_REPO', '/repo')
COQ = os.path.join(VERIF, 'coq')
SCRATCH = os.path.join(VERIF, '.scratch')
PY = '/venv/bin/python'
COQLIB = 'Flaxm'

os.makedirs(SCRATCH, exist_ok=True)


# ----------------------------------------------------------------------------------------------
# Coq term rendering
# ----------------------------------------------------------------------------------------------
def cnat(n):
  assert 0 <= n < 5000, n
  return '%d%%nat' % n


def cN(n):
  assert n >= 0
  return '%d%%N' % n


def cZ(z):
  return '(%d)%%Z' % z


def cbool(b):
  return 'true' if b else 'false'


def clist(xs):
  return '[' + '; '.join(xs) + ']'


def copt(x):
  return 'None' if x is None else '(Some %s)' % x


def cpair(*xs):
  return '(' + ', '.join(xs) + ')'


def capp(f, *xs):
  if not xs:
    return f
  return '(' + f + ' ' + ' '.join(xs) + ')'


def cbytes(b):
  """A byte string as list N."""
  return clist([cN(x) for x in b])


# ----------------------------------------------------------------------------------------------
# Coq build and evaluation
# ----------------------------------------------------------------------------------------------
class CoqError(Exception):
  pass


def _run(cmd, timeout, cwd=None, env=None, input=None):
  p = subprocess.run(cmd, cwd=cwd, env=env, input=input, stdout=subprocess.PIPE,
                     stderr=subprocess.STDOUT, timeout=timeout, text=True)
  return p.returncode, p.stdout


def coq_build(timeout=1500):
  """make in /verif/coq (no-op when current).  Returns (ok, log)."""
  lock = open(os.path.join(SCRATCH, 'build.lock'), 'w')
  fcntl.flock(lock, fcntl.LOCK_EX)
  try:
    if not os.path.exists(os.path.join(COQ, 'Makefile')):
      rc, out = _run(['coq_makefile', '-f', '_CoqProject', '-o', 'Makefile'], 120, cwd=COQ)
      if rc != 0:
        return False, out
    rc, out = _run(['timeout', str(timeout), 'make', '-j16'], timeout + 30, cwd=COQ)
    return rc == 0, out
  finally:
    fcntl.flock(lock, fcntl.LOCK_UN)
    lock.close()


def coqc_file(path, timeout=600):
  rc, out = _run(['timeout', str(timeout), 'coqc', '-Q', COQ, COQLIB, path], timeout + 30, cwd=os.path.dirname(path))
  return rc, out


def coq_eval(name, text, timeout=600):
  """Write text to scratch/<name>.v, compile, return stdout; raises CoqError on failure."""
  path = os.path.join(SCRATCH, name + '.v')
  with open(path, 'w') as f:
    f.write(text)
  rc, out = coqc_file(path, timeout)
  for ext in ('.vo', '.vok', '.vos', '.glob'):
    try:
      os.remove(os.path.join(SCRATCH, name + ext))
    except OSError:
      pass
  try:
    os.remove(os.path.join(SCRATCH, '.' + name + '.aux'))
  except OSError:
    pass
  if rc != 0:
    raise CoqError('coqc failed on %s:\n%s' % (path, out[-4000:]))
  return out


def parse_nat_list(out):
  """Parse the `= [a; b] : list nat` results printed by Eval vm_compute (possibly several)."""
  res = []
  for m in re.finditer(r'=\s*(\[[^\]]*\]|nil)\s*:\s*list nat', out, re.S):
    body = m.group(1)
    res.append([int(x) for x in re.findall(r'\d+', body)])
  return res


def coq_mismatches(name, header, cases, checker, shard=400, timeout=600):
  """cases: list of Coq terms (each a full case incl. expected output).  `checker` is a Coq
  function case -> bool (true = model agrees).  Returns the list of indices that disagree.
  Shards are evaluated in parallel coqc processes."""
  import concurrent.futures as cf
  shards = [(i, cases[i:i + shard]) for i in range(0, len(cases), shard)]

  def one(arg):
    off, cs = arg
    text = header + '\nDefinition cases := ' + clist(['\n  ' + c for c in cs]) + '.\n'
    text += ('Definition bad := map fst (filter (fun ic => negb (%s (snd ic))) '
             '(combine (seq 0 (length cases)) cases)).\n' % checker)
    text += 'Eval vm_compute in bad.\nEval vm_compute in [length cases].\n'
    out = coq_eval('%s_%d' % (name, off), text, timeout)
    ls = parse_nat_list(out)
    if len(ls) != 2 or ls[1] != [len(cs)]:
      raise CoqError('unexpected coqc output for %s shard %d:\n%s' % (name, off, out[-2000:]))
    return [off + j for j in ls[0]]

  bad = []
  with cf.ThreadPoolExecutor(max_workers=8) as ex:
    for r in ex.map(one, shards):
      bad.extend(r)
  return sorted(bad)


def coq_show(name, header, term, timeout=300):
  """Evaluate one term and return Coq's printed value (raw text) -- for replays."""
  try:
    out = coq_eval(name, header + '\nEval vm_compute in (%s).\n' % term, timeout)
  except CoqError as e:
    return 'coq error: %s' % e
  return out.strip()[-3000:]


def props_check(pid, extra_files=()):
  """Re-compile Props/<pid>.v, return (ok, n_theorems, assumptions_text, log).  The file
  holds only theorem statements closed by `exact`, each followed by Print Assumptions."""
  path = os.path.join(COQ, 'Props', pid + '.v')
  src = open(path).read()
  n = len(re.findall(r'^\s*(Theorem|Lemma|Corollary|Example)\s', src, re.M))
  t0 = time.time()
  rc, out = _run(['timeout', '900', 'coqc', '-Q', COQ, COQLIB, path], 930, cwd=COQ)
  closed = len(re.findall(r'Closed under the global context', out))
  axioms = sorted(set(re.findall(r'^([A-Za-z_][\w.]*)\s*:', out, re.M)))
  return rc == 0, n, closed, axioms, out, time.time() - t0


def count_lemmas(files):
  n = 0
  for f in files:
    p = os.path.join(COQ, f)
    if os.path.exists(p):
      n += len(re.findall(r'^\s*(Theorem|Lemma|Corollary|Example|Fact|Remark)\s', open(p).read(), re.M))
  return n


FORBIDDEN = re.compile(r'\b(Admitted|admit|Axiom|Axioms|Parameter|Parameters|Conjecture|Abort All)\b|'
                       r'Unset\s+Guard|Unset\s+Positivity|Unset\s+Universe|bypass_check|type-in-type|Admit Obligations')


def static_gate():
  """Fail if any forbidden construct occurs in the development."""
  hits = []
  for root, _, fs in os.walk(COQ):
    for f in fs:
      if f.endswith('.v'):
        p = os.path.join(root, f)
        txt = open(p).read()
        txt2 = re.sub(r'\(\*.*?\*\)', '', txt, flags=re.S)
        for m in FORBIDDEN.finditer(txt2):
          hits.append('%s: %s' % (os.path.relpath(p, COQ), m.group(0)))
  return hits


# ----------------------------------------------------------------------------------------------
# implementation workers
# ----------------------------------------------------------------------------------------------
def impl_env():
  env = dict(os.environ)
  env['PYTHONPATH'] = REPO + ':' + os.path.join(VERIF, 'harness')
  env['JAX_PLATFORMS'] = 'cpu'
  env['PYTHONHASHSEED'] = '0'
  env['GOOGLE_FLAX_VERIF'] = '1'
  env['TF_CPP_MIN_LOG_LEVEL'] = '3'
  env.setdefault('XLA_FLAGS', '--xla_force_host_platform_device_count=1')
  env['JAX_ENABLE_X64'] = '1'
  return env


def run_impl(script, payload, timeout=1200, env_extra=None):
  """Run harness/<script> in a fresh interpreter on /repo's working tree; JSON in, JSON out."""
  env = impl_env()
  if env_extra:
    env.update(env_extra)
  p = subprocess.run([PY, os.path.join(VERIF, 'harness', script)], input=json.dumps(payload),
                     stdout=subprocess.PIPE, stderr=subprocess.PIPE, timeout=timeout, text=True, env=env)
  if p.returncode != 0:
    raise ImplCrash('worker %s exited %d:\n%s' % (script, p.returncode, p.stderr[-4000:]))
  lines = [l for l in p.stdout.splitlines() if l.startswith('@@JSON ')]
  if not lines:
    raise ImplCrash('worker %s printed no result:\n%s\n%s' % (script, p.stdout[-2000:], p.stderr[-2000:]))
  return json.loads(lines[-1][7:])


def run_impl_parallel(script, payloads, timeout=1200, workers=14, env_extra=None):
  import concurrent.futures as cf
  with cf.ThreadPoolExecutor(max_workers=workers) as ex:
    return list(ex.map(lambda p: run_impl(script, p, timeout, env_extra), payloads))


class ImplCrash(Exception):
  pass


def worker_main(fn, mem_gb=12):
  """Entry point of an impl worker: read JSON from stdin, call fn, print the tagged result."""
  try:
    import resource
    resource.setrlimit(resource.RLIMIT_AS, (mem_gb << 30, mem_gb << 30))   # a runaway case must not take the machine down
  except Exception:  # pylint: disable=broad-except
    pass
  payload = json.loads(sys.stdin.read())
  res = fn(payload)
  def _default(o):
    try:
      return o.item()
    except Exception:  # pylint: disable=broad-except
      return str(o)
  sys.stdout.write('\n@@JSON ' + json.dumps(res, default=_default) + '\n')
  sys.stdout.flush()


# ----------------------------------------------------------------------------------------------
# evidence / replay / known findings
# ----------------------------------------------------------------------------------------------
def canon_hash(x):
  return hashlib.sha1(json.dumps(x, sort_keys=True, default=str).encode()).hexdigest()


def load_known():
  p = os.path.join(VERIF, 'known_findings.json')
  if not os.path.exists(p):
    return []
  return json.load(open(p))['findings']


class Check:
  """One run of one property's check."""

  def __init__(self, pid, tier, seed):
    self.pid, self.tier, self.seed = pid, tier, seed
    self.t0 = time.time()
    self.rng = random.Random('%s/%d' % (pid, seed))
    self.violations = []       # dicts: kind, what, case
    self.known_lines = []
    self.cov = dict(evaluations=0, distinct_nontrivial=0, rule='', samples=[], obligations=0,
                    discharged=0, checker_cmd='', trusted_base=[], traces_validated_against_impl=0)
    self._nontrivial = set()
    self.assumptions = []
    self.notes = {}

  # --- counting
  def count(self, case_canon, nontrivial):
    self.cov['evaluations'] += 1
    if nontrivial:
      self._nontrivial.add(canon_hash(case_canon))

  def sample(self, x, limit=4):
    if len(self.cov['samples']) < limit:
      self.cov['samples'].append(x)

  # --- proofs
  def proofs(self, proof_files):
    """Build the development, re-check Props/<pid>.v, record obligations."""
    gate = static_gate()
    if gate:
      self.violation('proof', 'forbidden construct in the Coq development: %s' % gate[:5], None)
    ok, log = coq_build()
    if not ok:
      self.violation('proof', 'the Coq development no longer builds: ' + log[-1500:], None)
      return False
    ok, n, closed, axioms, out, dt = props_check(self.pid)
    nl = count_lemmas(proof_files)
    self.cov['obligations'] = n + nl
    self.cov['discharged'] = (n + nl) if ok else 0
    self.cov['checker_cmd'] = ('cd /verif/coq && make -j16 && coqc -Q . Flaxm Props/%s.v '
                               '(Print Assumptions under every theorem; thorough tier adds coqchk -o)' % self.pid)
    self.cov['props_theorems'] = n
    self.cov['props_closed_under_global_context'] = closed
    self.cov['axioms_reported'] = axioms
    self.cov['supporting_lemmas'] = nl
    if not ok:
      self.violation('proof', 'Props/%s.v no longer checks: %s' % (self.pid, out[-1500:]), None)
    if self.tier == 'thorough':
      self.coqchk()
    return ok

  def coqchk(self):
    t = time.time()
    rc, out = _run(['timeout', '1500', 'coqchk', '-silent', '-o', '-Q', COQ, COQLIB, '%s.Props.%s' % (COQLIB, self.pid)],
                   1530, cwd=COQ)
    self.cov['coqchk'] = {'rc': rc, 'wall_s': round(time.time() - t, 1), 'tail': out[-1500:]}
    if rc != 0:
      self.violation('proof', 'coqchk rejects Props.%s: %s' % (self.pid, out[-1500:]), None)

  # --- violations
  def violation(self, kind, what, case):
    """kind: 'oracle' (a concrete failing input on the implementation), 'correspondence'
    (model and implementation differ), 'proof' (an obligation no longer checks)."""
    self.violations.append({'kind': kind, 'what': what, 'case': case})

  def known(self, key, what):
    self.known_lines.append('KNOWN-FINDING: property=%s %s [%s]' % (self.pid, what, key))

  def finish(self, level='proof', assumptions=()):
    wall = time.time() - self.t0
    self.cov['distinct_nontrivial'] = len(self._nontrivial)
    for l in self.known_lines:
      print(l)
    ev = {
        'property_id': self.pid, 'tier': self.tier, 'seed': self.seed, 'level': level,
        'coverage': self.cov, 'assumptions': list(assumptions), 'wall_s': round(wall, 2),
        'violations': len(self.violations), 'notes': self.notes,
        'known_findings_reported': self.known_lines,
    }
    replaying = getattr(self, 'replay_of', None)
    if not replaying and REPO == '/repo':   # evidence/ describes /repo itself: neither a replay nor a run on a scratch copy (VERIF_REPO) is written there
      os.makedirs(os.path.join(VERIF, 'evidence'), exist_ok=True)
      with open(os.path.join(VERIF, 'evidence', self.pid + '.json'), 'w') as f:
        json.dump(ev, f, indent=1, default=str)
    if not self.violations:
      print('OK property=%s tier=%s evaluations=%d nontrivial=%d obligations=%d wall=%.1fs' % (
          self.pid, self.tier, self.cov['evaluations'], len(self._nontrivial), self.cov['obligations'], wall))
      return 0
    os.makedirs(os.path.join(VERIF, 'replays'), exist_ok=True)
    concrete = [v for v in self.violations if v['kind'] == 'oracle']
    path = os.path.join(VERIF, 'replays', '%s_%s_seed%d%s.json' % (self.pid, self.tier, self.seed, '.replayed' if replaying else ''))
    with open(path, 'w') as f:
      json.dump({'property': self.pid, 'seed': self.seed, 'tier': self.tier,
                 'concrete_failing_inputs': concrete[:20],
                 'broken_obligations_or_correspondences': [v for v in self.violations if v['kind'] != 'oracle'][:20]},
                f, indent=1, default=str)
    for v in self.violations[:6]:
      print('  detail[%s]: %s' % (v['kind'], str(v['what'])[:600]))
    if concrete:
      print('VIOLATION property=%s replay=%s' % (self.pid, path))
    else:
      print('VIOLATION property=%s replay=%s no-failing-input-found' % (self.pid, path))
    return 1
