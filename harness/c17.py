"""C17 -- optimizer wrappers = hand-written optax loop; metrics ignore batching."""
import itertools
from fractions import Fraction
import common
import c14_nnx
from common import cN, cZ, cnat, cbool, clist, copt, cpair

PROOF_FILES = ['Proofs/Optim.v']
ASSUMPTIONS = [
    'optax transformations are abstract (tx_update, apply_updates universally quantified); they return updates with the tree structure of the params',
    'float32 evaluation of the metric formulas is compared with the exact rational value within 2e-5 relative (a correspondence rule, not a theorem)',
    'wrapper vs hand-written loop use the same operations in the same order without jit: bit equality is expected and required',
]
MRO = {'Param': ['Param', 'Variable'], 'BatchStat': ['BatchStat', 'Variable'], 'Custom': ['Custom', 'Variable'], 'SubParam': ['SubParam', 'Param', 'Variable']}
KEYS = ['a', 'b', 'c', 'layer', 'w', 'bias']


def compositions(n):
  for mask in range(1 << (n - 1)):
    parts, cur = [], 1
    for i in range(n - 1):
      if mask >> i & 1:
        parts.append(cur)
        cur = 1
      else:
        cur += 1
    parts.append(cur)
    yield parts


def cq(fr):
  return '(%d # %d)%%Q' % (fr[0], fr[1])


def gen_vars(rng):
  n = rng.randint(1, 5)
  paths, out = set(), []
  while len(out) < n:
    p = tuple(rng.choice(KEYS) for _ in range(rng.randint(1, 2)))
    if any(q[:len(p)] == p or p[:len(q)] == q for q in paths) or p == ('alias',):
      continue
    paths.add(p)
    shape_n = rng.randint(1, 3)
    out.append({'path': list(p), 'type': rng.choice(['Param', 'Param', 'BatchStat', 'Custom', 'SubParam']), 'val': [rng.randint(-4, 4) for _ in range(shape_n)]})
  return out


def gen_wrt(rng):
  r = rng.random()
  if r < 0.4:
    return {'type': 'Param'}
  if r < 0.55:
    return {'type': rng.choice(['Custom', 'BatchStat', 'SubParam', 'Variable'])}
  if r < 0.7:
    return {'any': [{'type': 'Param'}, {'type': 'Custom'}]}
  if r < 0.8:
    return {'all': [{'type': 'Param'}, {'not': {'type': 'SubParam'}}]}
  if r < 0.9:
    return {'pc': rng.choice(KEYS)}
  return {'not': {'type': 'BatchStat'}}


def run(chk):
  rng = chk.rng
  thorough = chk.tier == 'thorough'
  chk.proofs(PROOF_FILES)
  txs = ['sgd', 'momentum', 'adam', 'adamw', 'chain', 'schedule', 'int_momentum']
  lts = []
  for i in range(200 if thorough else 28):
    def leaf():
      n = rng.randint(1, 4)
      return {'v': [rng.randint(-3, 3) for _ in range(n)], 'shape': [n]}
    params = {'dense': {'kernel': leaf(), 'bias': leaf()}}
    if rng.random() < 0.5:
      params['emb'] = leaf()
    if rng.random() < 0.3:
      params['deep'] = {'x': {'y': leaf()}}
    lts.append({'params': params, 'tx': rng.choice(txs), 'steps': rng.randint(1, 6 if thorough else 4), 'frozen': rng.random() < 0.3,
                'owg': rng.random() < 0.25})
    if rng.random() < 0.3:
      # mixed precision: low-precision parameters, float32 gradients
      dt = rng.choice(['bf16', 'f16'])
      def setdt(d):
        for v in d.values():
          if 'v' in v:
            v['dtype'] = dt
            v['v'] = [rng.randint(-40, 40) / 7 for _ in range(24)]
            v['shape'] = [24]
          else:
            setdt(v)
      setdt(params)
      lts[-1]['wide_grads'] = True
      lts[-1]['tx'] = rng.choice(['sgd', 'momentum', 'adam', 'adamw', 'chain', 'schedule'])
  nops = []
  for i in range(400 if thorough else 60):
    wrt = gen_wrt(rng)
    # a shared Variable is listed under its first path ('alias' sorts first): path filters then see another path than the model's
    share = rng.random() < 0.3 and 'pc' not in wrt
    nops.append({'vars': gen_vars(rng), 'wrt': wrt, 'tx': 'int_momentum' if i % 2 == 0 else rng.choice(txs),
                 'steps': rng.randint(1, 4), 'share': share})
    if i % 2 == 1 and rng.random() < 0.4:
      dt = rng.choice(['bf16', 'f16', 'f32'])
      for v in nops[-1]['vars']:
        v['dtype'] = dt
        v['val'] = [rng.randint(-40, 40) / 7 for _ in range(24)]
      nops[-1]['wide_grads'] = True
      if nops[-1]['tx'] == 'int_momentum':
        nops[-1]['tx'] = 'adam'
  ntss = [{'vars': gen_vars(rng), 'tx': rng.choice(txs), 'steps': rng.randint(1, 3)} for _ in range(60 if thorough else 10)]
  for j, c in enumerate(ntss):
    if j % 2 == 1:
      # mixed precision: low-precision parameters, float32 gradients (the result keeps the parameter dtype, rounded once)
      dt = rng.choice(['bf16', 'f16'])
      for v in c['vars']:
        v['dtype'] = dt
        v['val'] = [rng.randint(-40, 40) / 7 for _ in range(24)]
      c['wide_grads'] = True
      c['tx'] = rng.choice(['sgd', 'momentum', 'adam', 'adamw'])
  metrics = []
  for n in range(1, 7 if thorough else 6):
    for rep in range(3 if thorough else 2):
      stream = [rng.choice([rng.randint(-6, 6), rng.randint(-6, 6) / 4, rng.randint(0, 40) / 8]) for _ in range(n)]
      metrics.append({'stream': stream, 'partitions': list(compositions(n)), 'scalar_singletons': rep % 2 == 1})
  for _ in range(60 if thorough else 10):
    n = rng.randint(7, 30)
    stream = [rng.randint(-50, 50) / 8 for _ in range(n)]
    parts = []
    for _ in range(4):
      cuts = sorted(rng.sample(range(1, n), rng.randint(0, min(6, n - 1))))
      parts.append([b - a for a, b in zip([0] + cuts, cuts + [n])])
    metrics.append({'stream': stream, 'partitions': parts})
    if rng.random() < 0.4:
      # every value repeated 65536 times: counts reach 2**16 per value, products of counts exceed 2**32
      metrics[-1]['rep'] = 65536
      metrics[-1]['stream'] = stream[:rng.randint(2, 12)]
      n = len(metrics[-1]['stream'])
      metrics[-1]['partitions'] = [[1] * n, [n], [n // 2, n - n // 2], [1, n - 1]]
  # values whose mean is large relative to their spread (float32 cancellation if the variance is not computed from deviations)
  for _ in range(12 if thorough else 4):
    n = rng.randint(6, 20)
    stream = [1000 + rng.randint(-21, 21) / 7 for _ in range(n)]
    cuts = sorted(rng.sample(range(1, n), min(3, n - 1)))
    metrics.append({'stream': stream, 'partitions': [[n], [b - a for a, b in zip([0] + cuts, cuts + [n])], [n // 2, n - n // 2]], 'offset': True})
  accs = []
  for _ in range(60 if thorough else 12):
    n = rng.randint(1, 6)
    multi = rng.random() < 0.5
    if multi:
      logits = [[rng.randint(-3, 3) + 0.25 * j for j in range(3)] for _ in range(n)]
      labels = [rng.randint(0, 2) for _ in range(n)]
      thr = None
    else:
      logits = [rng.randint(-4, 4) / 4 for _ in range(n)]
      labels = [rng.randint(0, 1) for _ in range(n)]
      thr = 0.5
    accs.append({'logits': logits, 'labels': labels, 'threshold': thr, 'partitions': list(compositions(n))})
  W = 8
  payloads = [{'linen_ts': lts[i::W], 'nnx_opt': nops[i::W], 'nnx_ts': ntss[i::W], 'metrics': metrics[i::W], 'accuracy': accs[i::W]} for i in range(W)]
  rebuilt = [{'tx': tx, 'mode': mode, 'steps': 4, 'w': [[rng.randint(-3, 3) / 2.0 for _ in range(3)] for _ in range(2)], 'b': [rng.randint(-3, 3) / 2.0 for _ in range(3)]}
             for tx in ('adam', 'rprop', 'chain_rprop', 'momentum') for mode in ('eager', 'jit', 'splitmerge', 'clone')]
  payloads[0]['nnx_opt_rebuilt'] = rebuilt[0::2]
  payloads[1 % W]['nnx_opt_rebuilt'] = rebuilt[1::2]
  results = common.run_impl_parallel('impl_c17.py', payloads, workers=W)
  rres = [None] * len(rebuilt)
  rres[0::2] = results[0]['nnx_opt_rebuilt']
  rres[1::2] = results[1 % W]['nnx_opt_rebuilt']
  for c, o in zip(rebuilt, rres):
    chk.count({'nnx_opt_rebuilt': {'tx': c['tx'], 'mode': c['mode']}}, c['mode'] != 'eager')
    if 'err' in o:
      chk.violation('oracle', 'nnx.Optimizer (%s) stepped in mode %s raised %s' % (c['tx'], c['mode'], o['err']), {'case': c, 'observed': o})
      continue
    for i, st in enumerate(o['ok']['steps']):
      if not (st['params_close'] and st['opt_close'] and st['step'] == i + 1):
        chk.violation('oracle', 'nnx.Optimizer.update (%s) with the optimizer rebuilt by the graph machinery between steps (%s) differs from tx.update + apply_updates by hand '
                      '(parameters, optimizer state or step counter) at step %d' % (c['tx'], c['mode'], i + 1), {'case': c, 'observed': o['ok']['steps']})
        break
  def gather(key, n):
    out = [None] * n
    for k, r in enumerate(results):
      for j, o in enumerate(r[key]):
        out[k + W * j] = o
    return out
  lres, nres, tres, mres, ares = gather('linen_ts', len(lts)), gather('nnx_opt', len(nops)), gather('nnx_ts', len(ntss)), gather('metrics', len(metrics)), gather('accuracy', len(accs))

  # ---- TrainState
  for c, o in zip(lts, lres):
    chk.count({'linen_ts': c}, c['steps'] >= 2 and c['tx'] not in ('sgd',))
    if 'err' in o:
      chk.violation('oracle', 'TrainState case raised %s' % o['err'], {'case': c, 'tb': o.get('tb')})
      continue
    r = o['ok']
    for i, s in enumerate(r['steps']):
      if not (s['params_equal'] and s['opt_equal'] and s['step'] == i + 1 and s['is_new_instance'] and s['owg_replaced'] and s['same_treedef'] and s['static_kept']):
        chk.violation('oracle', 'TrainState.apply_gradients differs from tx.update + optax.apply_updates by hand (bitwise), or step/instance/static fields are wrong',
                      {'case': c, 'step': i, 'observed': s})
        break
    if not r['old_intact']:
      chk.violation('oracle', 'TrainState.apply_gradients modified the old instance', {'case': c})
    if r['tx_calls'] != ['init'] + ['update'] * c['steps']:
      chk.violation('oracle', 'the wrapped transformation was not called exactly once per apply_gradients', {'case': c, 'calls': r['tx_calls']})
  chk.sample({'trainstate_case': lts[0], 'observed': lres[0]})
  for c, o in zip(ntss, tres):
    chk.count({'nnx_ts': c}, c['steps'] >= 2)
    if 'err' in o:
      chk.violation('oracle', 'nnx.TrainState case raised %s' % o['err'], {'case': c, 'tb': o.get('tb')})
      continue
    r = o['ok']
    for i, s in enumerate(r['steps']):
      if not (s['params_equal'] and s['opt_equal'] and s['step'] == i + 1 and s['is_new_instance']):
        chk.violation('oracle', 'nnx.TrainState.apply_gradients differs from the hand-written optax loop', {'case': c, 'step': i, 'observed': s})
        break
    if not r['old_intact']:
      chk.violation('oracle', 'nnx.TrainState.apply_gradients modified the old instance', {'case': c})
  # ---- nnx.Optimizer
  it = c14_nnx.Intern()
  coq = []
  for c, o in zip(nops, nres):
    types = {v['type'] for v in c['vars']}
    chk.count({'nnx_opt': c}, len(types) >= 2 and c['steps'] >= 2)
    if 'err' in o:
      chk.violation('oracle', 'nnx.Optimizer case raised %s' % o['err'], {'case': c, 'tb': o.get('tb')})
      continue
    r = o['ok']
    for i, s in enumerate(r['steps']):
      if not (s['params_equal'] and s['opt_equal'] and s['step'] == i + 1 and s['unselected_unchanged'] and s['identity_kept'] and s['static_kept']):
        chk.violation('oracle', 'nnx.Optimizer.update differs from the hand-written optax loop, touched a Variable outside wrt, lost object identity or the step count',
                      {'case': c, 'step': i, 'observed': {k: v for k, v in s.items() if k != 'values'}})
        break
    if c['tx'] == 'int_momentum':
      vs = clist(['(mkVar %s %s %s)' % (clist([it('K:' + k) for k in v['path']]), clist([it('T:' + t) for t in MRO[v['type']] + ['VariableState', 'object']]),
                                         clist([cZ(x) for x in v['val']])) for v in c['vars']])
      final = r['steps'][-1]['values']
      byp = {tuple(p): vals for p, vals in final}
      exp = clist([clist([cZ(int(x)) for x in byp[tuple(v['path'])]]) for v in c['vars']])
      coq.append((c, o, cpair(vs, c14_nnx.cfilt(c['wrt'], it), cnat(c['steps']), exp)))
  chk.sample({'nnx_optimizer_case': nops[0], 'observed_selected_paths': nres[0].get('ok', {}).get('selected_paths')})
  hdr = '''From Flaxm Require Import Lib.Harness Model.NnxFilters Model.Optim.
Definition grads_at (wrt : nfilt) (vars : list var) (i : nat) : flatp :=
  let c := (Z.of_nat (S i) * (if Nat.even i then 1 else -2))%Z in
  map (fun pv => (fst pv, map (fun _ => c) (snd pv))) (state_of wrt vars).
Fixpoint run_steps (wrt : nfilt) (k i : nat) (o : opt flatp) : opt flatp :=
  match k with O => o | S k' => run_steps wrt k' (S i) (opt_update flatp mom_update wrt o (grads_at wrt (o_vars o) i)) end.
Definition chk (c : list var * nfilt * nat * list (list Z)) : bool :=
  let '(vars, wrt, k, expected) := c in
  let o := run_steps wrt k 0 (mkOpt 0%N vars (zeros_like (state_of wrt vars))) in
  list_beq (list_beq Z.eqb) (map v_val (o_vars o)) expected && N.eqb (o_step o) (N.of_nat k).
'''
  bad = common.coq_mismatches('c17_opt', hdr, [x[2] for x in coq], 'chk', shard=300)
  for i in bad[:8]:
    chk.violation('correspondence', 'Model/Optim.v opt_update (integer momentum instance) and nnx.Optimizer.update disagree; C17_nnx_update_frame no longer transfers',
                  {'case': coq[i][0], 'observed_final_values': coq[i][1]['ok']['steps'][-1]['values']})
  chk.cov['traces_validated_against_impl'] = len(coq)
  # ---- metrics
  mcoq = []
  TOL = 2e-5
  def close(a, b):
    return abs(a - b) <= TOL * (1 + abs(b))
  for c, o in zip(metrics, mres):
    chk.count({'metrics': c['stream'], 'n_partitions': len(c['partitions'])}, len(c['partitions']) >= 2)
    st = [float(x) for x in c['stream']]
    n = len(st)
    mean = sum(st) / n
    var = sum((x - mean) ** 2 for x in st) / n
    for part, r in zip(c['partitions'], o['parts']):
      if 'err' in r:
        chk.violation('oracle', 'metric update/compute raised %s' % r['err'], {'stream': c['stream'], 'partition': part, 'tb': r.get('tb')})
        continue
      x = r['ok']
      f = lambda k: x[k][0] / x[k][1]
      if c.get('offset'):
        # float32 can hold these statistics to about 1e-4 relative when the variance is accumulated from deviations
        if not (abs(f('mean') - mean) <= 1e-5 * abs(mean) and abs(f('std') ** 2 - var) <= 1e-3 * var and x['count'] == n):
          chk.violation('oracle', 'Welford on values with a large mean and a small spread (1000 +- 3): the reported mean / variance is off by more than 1e-3 relative, or depends on the batching',
                        {'stream': c['stream'], 'partition': part, 'observed': {'mean': f('mean'), 'variance': f('std') ** 2}, 'expected': {'mean': mean, 'variance': var}})
        continue
      ok = close(f('avg'), mean) and close(f('mean'), mean) and close(f('std') ** 2, var) and close(f('sem') ** 2 * c.get('rep', 1), var / n) and x['count'] == n * c.get('rep', 1) and \
          close(f('mm_a'), mean) and close(f('mm_mean'), mean) and x['reset_ok'] and x['after_reset'] == 3.0
      if not ok:
        chk.violation('oracle', 'a metric does not report the statistic of all values seen since the last reset (depends on the batching, or reset is incomplete)',
                      {'stream': c['stream'], 'partition': part, 'scalar_singletons': c.get('scalar_singletons'), 'observed': {k: (f(k) if isinstance(x[k], list) else x[k]) for k in x},
                       'expected': {'mean': mean, 'variance': var}})
      batches, i = [], 0
      for k in part:
        batches.append(clist([cq([Fraction(v).numerator, Fraction(v).denominator]) for v in c['stream'][i:i + k]]))
        i += k
      std2 = Fraction(x['std'][0], x['std'][1]) ** 2
      mcoq.append(((c['stream'], part), cpair(clist(batches), cq(x['avg']), cq(x['mean']), cq([std2.numerator, std2.denominator]))))
  chk.sample({'metrics_stream': metrics[3]['stream'], 'partitions': metrics[3]['partitions'][:4], 'observed': mres[3]['parts'][:2]})
  mhdr = '''From Coq Require Import QArith Qabs.
From Flaxm Require Import Lib.Harness Model.NnxFilters Model.Optim.
Open Scope Q_scope.
Definition closeq (x y : Q) : bool := Qle_bool (Qabs (x - y)) ((2 # 100000) * (1 + Qabs y)).
Definition chk (c : list (list Q) * Q * Q * Q) : bool :=
  let '(batches, avg, mean, var) := c in
  let a := fold_left avg_update batches (0, 0) in
  let w := fold_left wf_update batches wf_init in
  closeq avg (avg_compute a) && closeq mean (wf_mean w) && closeq var (wf_variance w).
'''
  bad = common.coq_mismatches('c17_met', mhdr, [x[1] for x in mcoq], 'chk', shard=400)
  for i in bad[:8]:
    chk.violation('correspondence', 'Model/Optim.v metrics (exact rationals) and nnx.metrics (float32) disagree beyond 2e-5; C17_welford_batching no longer transfers',
                  {'stream': mcoq[i][0][0], 'partition': mcoq[i][0][1]})
  chk.cov['traces_validated_against_impl'] += len(mcoq)
  for c, o in zip(accs, ares):
    chk.count({'accuracy': c['logits'], 'labels': c['labels']}, len(c['partitions']) >= 2)
    if c['threshold'] is None:
      pred = [max(range(3), key=lambda j: l[j]) for l in c['logits']]
      correct = sum(int(p == y) for p, y in zip(pred, c['labels']))
    else:
      correct = sum(int((l >= c['threshold']) == (y > 0)) for l, y in zip(c['logits'], c['labels']))
    want = correct / len(c['labels'])
    for part, r in zip(c['partitions'], o):
      if 'err' in r or not close(r['ok'][0] / r['ok'][1], want):
        chk.violation('oracle', 'Accuracy depends on the batching or is not the fraction of correct predictions', {'case': {k: c[k] for k in ('logits', 'labels', 'threshold')}, 'partition': part, 'observed': r})
        break
  chk.notes['cases'] = {'linen_trainstate': len(lts), 'nnx_optimizer': len(nops), 'nnx_trainstate': len(ntss), 'metric_streams': len(metrics),
                        'metric_partitions': sum(len(m['partitions']) for m in metrics), 'accuracy': len(accs)}
  chk.cov['rule'] = ('TrainState / nnx.TrainState / nnx.Optimizer against the hand-written tx.update + apply_updates loop (bitwise) for 7 transformations (sgd, momentum, adam, '
                     'adamw, chain with clipping, schedule, integer momentum), recording transformation, OVERWRITE_WITH_GRADIENT, FrozenDict params, wrt filters over 4 Variable types '
                     'incl. shared Variables; the integer-momentum runs are replayed in Coq. Metrics: every composition of every stream of length <= 5 (6 in thorough) plus random '
                     'partitions of longer streams, array and scalar updates. non-trivial = >=2 steps with a stateful tx / >=2 Variable types / >=2 partitions')
  chk.cov['trusted_base'] = ['Coq 8.16.1 kernel + vm_compute', 'harness/c17.py + impl_c17.py', 'harness/jaxcompat.py', 'optax (the reference loop uses the same optax objects)']
