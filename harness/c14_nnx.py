"""NNX half of C14: generator of (state, filter list) cases, Coq rendering, oracles."""
import common
from common import cN, cbool, clist, copt, cpair

TYPE_MRO = {  # classes a VariableState leaf of this type satisfies OfType for (within the universe)
    'Variable': ['Variable'], 'Param': ['Param', 'Variable'], 'BatchStat': ['BatchStat', 'Variable'],
    'Cache': ['Cache', 'Variable'], 'Intermediate': ['Intermediate', 'Variable'],
    'CustomParam': ['CustomParam', 'Param', 'Variable'], 'CustomStat': ['CustomStat', 'BatchStat', 'Variable'],
}
LEAF_EXTRA = ['VariableState', 'object']     # every leaf of a State is a VariableState instance
MODULE_EXTRA = ['VariableState', 'object']   # nnx.split / nnx.state filter VariableStates too (flat state of states)
TYPES = list(TYPE_MRO) + ['VariableState', 'object']
KEYS = ['a', 'a_', 'aa', 'B', '_x', 'b', 'kernel', 'bias']
TAGS = ['t1', 't2', 'Param']


def rand_filter(rng, depth, paths):
  r = rng.random()
  if depth <= 0 or r < 0.45:
    k = rng.random()
    if k < 0.35:
      return {'type': rng.choice(TYPES[:7] if rng.random() < 0.9 else TYPES)}
    if k < 0.5:
      return {'tag': rng.choice(TAGS)}
    if k < 0.62:
      return {'pc': rng.choice(KEYS)}
    if k < 0.72:
      return {'pin': rng.sample(paths, min(len(paths), rng.randint(0, 2))) if paths else []}
    if k < 0.80:
      return {'bool': rng.random() < 0.5}
    if k < 0.86:
      return {'ellipsis': 1}
    if k < 0.90:
      return {'none': 1}
    if k < 0.95:
      return {'oftype': rng.choice(TYPES[:7])}
    return {'wtag': rng.choice(TAGS)}
  n = rng.randint(0, 3)
  if r < 0.6:
    return {'any': [rand_filter(rng, depth - 1, paths) for _ in range(n)]}
  if r < 0.75:
    return {'all': [rand_filter(rng, depth - 1, paths) for _ in range(n)]}
  if r < 0.9:
    return {'not': rand_filter(rng, depth - 1, paths)}
  return {'seq': [rand_filter(rng, depth - 1, paths) for _ in range(n)], 'kind': rng.choice(['list', 'tuple'])}


def rand_state(rng):
  n = rng.randint(0, 7)
  paths = set()
  leaves = []
  tries = 0
  while len(leaves) < n and tries < 50:
    tries += 1
    p = tuple(rng.choice(KEYS) for _ in range(rng.randint(1, 3)))
    # prefix-free (a leaf cannot also be an inner node)
    if any(q[:len(p)] == p or p[:len(q)] == q for q in paths):
      continue
    paths.add(p)
    leaves.append({'path': list(p), 'type': rng.choice(TYPES[:7]), 'tag': rng.choice(TAGS + [None, None]),
                   'id': len(leaves) + 1})
  return leaves


def is_catchall(f):
  return 'ellipsis' in f or f.get('bool') is True


def generate(chk):
  rng = chk.rng
  n = 4000 if chk.tier == 'thorough' else 500
  cases = []
  for i in range(n):
    leaves = rand_state(rng)
    paths = [l['path'] for l in leaves]
    k = rng.randint(0, 4)
    fs = [rand_filter(rng, rng.randint(0, 3 if chk.tier == 'quick' else 4), paths) for _ in range(k)]
    r = rng.random()
    if r < 0.5 and fs:
      fs[-1] = rng.choice([{'ellipsis': 1}, {'bool': True}])       # mostly exhaustive
    elif r < 0.6 and len(fs) >= 2:
      fs[rng.randrange(len(fs) - 1)] = {'ellipsis': 1}              # malformed: ... not last
    cases.append({'leaves': leaves, 'filters': fs, 'module': i % 3 == 0, 'container': rng.choice(['dict', 'dict', 'dict', 'ordered', 'frozen', 'proxy'])})
  return {'cases': cases, 'entry_points': True}


class Intern:
  def __init__(self):
    self.code = {}

  def __call__(self, s):
    if s not in self.code:
      self.code[s] = len(self.code)
    return cN(self.code[s])


def cfilt(f, it):
  if 'type' in f:
    return '(NType %s)' % it('T:' + f['type'])
  if 'oftype' in f:
    return '(NType %s)' % it('T:' + f['oftype'])
  if 'tag' in f:
    return '(NTag %s)' % it('G:' + f['tag'])
  if 'wtag' in f:
    return '(NTag %s)' % it('G:' + f['wtag'])
  if 'pc' in f:
    return '(NPathContains %s)' % it('K:' + f['pc'])
  if 'pin' in f:
    return '(NPathIn %s)' % clist([clist([it('K:' + k) for k in p]) for p in f['pin']])
  if 'any' in f:
    return '(NAny %s)' % clist([cfilt(g, it) for g in f['any']])
  if 'all' in f:
    return '(NAll %s)' % clist([cfilt(g, it) for g in f['all']])
  if 'not' in f:
    return '(NNot %s)' % cfilt(f['not'], it)
  if 'bool' in f:
    return '(NBool %s)' % cbool(f['bool'])
  if 'ellipsis' in f:
    return 'NEllipsis'
  if 'none' in f:
    return 'NNone'
  if 'seq' in f:
    return '(NSeq %s)' % clist([cfilt(g, it) for g in f['seq']])
  raise ValueError(f)


def cleaf(l, it):
  mro = TYPE_MRO[l['type']] + LEAF_EXTRA
  return '(mkLeaf %s %s %s %s)' % (clist([it('K:' + k) for k in l['path']]), clist([it('T:' + t) for t in mro]),
                                   copt(it('G:' + l['tag']) if l['tag'] is not None else None), cN(l['id']))


HEADER = '''From Flaxm Require Import Lib.Harness Model.NnxFilters.
Definition obeq := option_beq (list_beq (list_beq N.eqb)).
Definition den (fs : list nfilt) (ls : list leaf) := map (fun f => map (denote f) ls) fs.
(* leaves (sorted by path), filters, observed: denote matrix, nonexhaustive buckets (n+1), filter buckets (n), exhaustive buckets (n) *)
Definition chk (c : list leaf * list nfilt * option (list (list bool)) * option (list (list N)) * option (list (list N)) * option (list (list N))) : bool :=
  let '(ls, fs, d, raw, flt, exh) := c in
  option_beq (list_beq (list_beq Bool.eqb)) (Some (den fs ls)) d &&
  obeq (option_map ids (nnx_split fs ls)) raw &&
  obeq (option_map (fun b => removelast (ids b)) (nnx_split fs ls)) flt &&
  obeq (option_map ids (nnx_split_exhaustive fs ls)) exh.
'''


def pyden(f, l):
  """what a filter means for a leaf, written independently of flax and of the Coq model"""
  if 'type' in f or 'oftype' in f:
    return f.get('type', f.get('oftype')) in TYPE_MRO[l['type']] + LEAF_EXTRA
  if 'tag' in f or 'wtag' in f:
    return l['tag'] is not None and l['tag'] == f.get('tag', f.get('wtag'))
  if 'pc' in f:
    return f['pc'] in l['path']
  if 'pin' in f:
    return l['path'] in f['pin']
  if 'any' in f or 'seq' in f:
    return any(pyden(g, l) for g in f.get('any', f.get('seq')))
  if 'all' in f:
    return all(pyden(g, l) for g in f['all'])
  if 'not' in f:
    return not pyden(f['not'], l)
  if 'bool' in f:
    return f['bool']
  if 'ellipsis' in f:
    return True
  if 'none' in f:
    return False
  raise ValueError(f)


def okv(o):
  return o.get('ok') if isinstance(o, dict) and 'ok' in o else None


ENTRY_EXPECT = {
    '...': 'both', 'True': 'both', "'params'": 'params', "('params', 'dropout')": 'both', "Not('params')": 'dropout', 'RngState': 'both', 'Param': 'none', 'False': 'none', 'None': 'none',
    '()': 'none', 'Nothing()': 'none', 'Any()': 'none', 'All()': 'both', 'Not(None)': 'both', 'Not(...)': 'none', "[None, 'dropout']": 'dropout', "All('params', None)": 'none',
    'Any(None, False)': 'none', "PathContains('dropout')": 'dropout',
}


def check(chk, payload, obs):
  cases = payload['cases']
  if len(obs) > len(cases) and 'entry_points' in obs[-1]:
    want = {'both': ['dropout', 'params'], 'none': [], 'params': ['params'], 'dropout': ['dropout']}
    for name, res in obs[-1]['entry_points'].items():
      for form, r in res.items():
        chk.count({'filter_entry_point': [name, form]}, True)
        if r.get('ok') != want[ENTRY_EXPECT[name]]:
          chk.violation('oracle', 'nnx.split_rngs(only=%s) (%s form) splits the streams %s, the filter denotes a predicate selecting %s' % (name, form, r.get('ok', r), want[ENTRY_EXPECT[name]]),
                        {'filter': name, 'form': form, 'observed': r})
    obs = obs[:-1]
  it = Intern()
  coq = []
  n_api = 0
  for c, o in zip(cases, obs):
    fs = c['filters']
    composite = any(k in f for f in fs for k in ('any', 'all', 'not', 'seq'))
    chk.count({'nnx': c}, composite and len(c['leaves']) >= 2)
    if 'flat_err' in o:
      chk.violation('oracle', 'a State whose nested levels are held in a %s Mapping is not flattened down to its leaves, so filters cannot select them: %s' % (c.get('container'), o['flat_err']), {'case': c})
      continue
    order = o['order']
    by_id = {l['id']: l for l in c['leaves']}
    leaves_sorted = [by_id[i] for i in order]
    if sorted(order) != sorted(by_id):
      chk.violation('oracle', 'to_flat_state lost or duplicated leaves', {'case': c, 'observed': o})
    if not fs:
      continue
    # ---- implementation-only oracles: first-match partition that loses / duplicates nothing
    den = okv(o['denote'])
    raw = okv(o['_split_state'])
    if den is not None:
      want_den = [[pyden(f, l) for l in leaves_sorted] for f in fs]
      if den != want_den:
        i = [k for k in range(len(fs)) if den[k] != want_den[k]][0]
        chk.violation('oracle', 'the predicate to_predicate builds for a filter is not its Boolean meaning (type / tag / path tests combined by Any, All, Not; a sequence is Any of its '
                      'members, nested sequences keep their grouping)', {'filter': fs[i], 'leaves': leaves_sorted, 'observed': den[i], 'expected': want_den[i]})
    if den is not None and raw is not None:
      want = [[] for _ in range(len(fs) + 1)]
      for j, lid in enumerate(order):
        hit = [i for i in range(len(fs)) if den[i][j]]
        want[hit[0] if hit else len(fs)].append(lid)
      if raw != want:
        chk.violation('oracle', '_split_state is not the first-match partition of the leaves by the filters\' own predicates',
                      {'case': c, 'observed': raw, 'expected': want})
      if sorted(x for b in raw for x in b) != sorted(order):
        chk.violation('oracle', 'split loses or duplicates leaves', {'case': c, 'observed': raw})
    # API variants must agree with each other
    flt = okv(o['filter_state'])
    for name in ('State.filter',):
      if okv(o[name]) != flt:
        chk.violation('oracle', '%s differs from filter_state' % name, {'case': c, 'observed': o})
    exh = okv(o['split_state'])
    for name in ('State.split', 'split_flat_state') + (('nnx.split',) if 'nnx.split' in o else ()):
      n_api += 1
      if okv(o[name]) != exh:
        chk.violation('oracle', '%s differs from split_state' % name, {'case': c, 'observed': {k: o[k] for k in (name, 'split_state')}})
    if 'nnx.state' in o and okv(o['nnx.state']) != flt:
      chk.violation('oracle', 'nnx.state(node, *filters) differs from filter_state', {'case': c, 'observed': o})
    if raw is not None and not raw[-1] and exh is None:
      chk.violation('oracle', 'split_state raised although every leaf matched a filter', {'case': c, 'observed': o})
    if raw is not None and raw[-1] and exh is not None:
      chk.violation('oracle', 'split_state dropped a non-empty remainder silently', {'case': c, 'observed': o})

    def ol(x):
      return copt(None if x is None else clist([clist([cN(i) for i in b]) for b in x]))
    d = copt(None if den is None else clist([clist([cbool(x) for x in row]) for row in den]))
    coq.append((c, o, cpair(clist([cleaf(l, it) for l in leaves_sorted]), clist([cfilt(f, it) for f in fs]), d,
                            ol(raw), ol(flt), ol(exh))))
  chk.sample({'nnx_case': cases[1], 'observed': obs[1]})
  bad = common.coq_mismatches('c14_nnx', HEADER, [x[2] for x in coq], 'chk', shard=500)
  for i in bad[:10]:
    chk.violation('correspondence', 'Model/NnxFilters.v and flax.nnx filterlib/statelib disagree (C14_first_match_* no longer transfer)',
                  {'case': coq[i][0], 'observed': coq[i][1], 'codes': it.code})
  chk.cov['traces_validated_against_impl'] += len(coq)
  chk.notes['nnx_cases'] = len(cases)
  chk.notes['nnx_api_agreement_checks'] = n_api
