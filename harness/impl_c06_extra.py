"""Implementation side of C06, two further families on integer modules: (1) bound sub-modules handed to a vmapped / scanned module through
dataclass fields declared in any order; (2) collections lifted with the In(axis) / Out(axis) markers of flax.typing, applied twice with the
first call's collections passed back in. Reference: the per-index call / the unrolled loop of the plain module."""
import jaxcompat  # noqa: F401
import warnings
warnings.filterwarnings('ignore')
from typing import Any
import common
import jax
import jax.numpy as jnp
import numpy as np
import flax
import flax.linen as nn
from flax.typing import In, Out

I64 = jnp.int64


def safe(fn):
  try:
    return {'ok': fn()}
  except Exception as e:  # pylint: disable=broad-except
    import traceback
    return {'err': type(e).__name__, 'msg': str(e)[:200], 'tb': traceback.format_exc()[-500:]}


class Lin(nn.Module):
  w: int = 1

  @nn.compact
  def __call__(self, x):
    k = self.param('k', lambda key: jnp.asarray(self.w, dtype=I64))
    return x * k + 1


def fields_case(c):
  """c: names (field names in declaration order), ws (one weight per field), order (call order), n, form vmap|scan"""
  names, ws = c['names'], c['ws']
  ann = {nm: Any for nm in names}

  def body(self, x):
    for nm in c['order']:
      x = getattr(self, nm)(x) * 3
    return x
  Multi = type('Multi', (nn.Module,), {'__annotations__': dict(ann), '__call__': body})

  def cell_body(self, carry, x):
    for nm in c['order']:
      carry = getattr(self, nm)(carry) * 3 + x
    return carry, carry
  Cell = type('Cell', (nn.Module,), {'__annotations__': dict(ann), '__call__': cell_body})
  xs = jnp.arange(c['n'], dtype=I64) + 2

  class Top(nn.Module):
    @nn.compact
    def __call__(self, xs):
      subs = {nm: Lin(w=w, name='m_' + nm) for nm, w in zip(names, ws)}
      for nm in names:      # bind and create the parameters outside the transform
        subs[nm](xs[0])
      if c['form'] == 'vmap':
        return nn.vmap(Multi, variable_axes={'params': None}, split_rngs={'params': False}, in_axes=0, out_axes=0)(**subs)(xs)
      carry, ys = nn.scan(Cell, variable_broadcast='params', split_rngs={'params': False}, in_axes=0, out_axes=0)(**subs)(jnp.asarray(1, dtype=I64), xs)
      return jnp.concatenate([ys, carry[None]])

  def impl():
    y, v = Top().init_with_output(jax.random.key(0), xs)
    y2 = Top().apply(v, xs)
    return {'init': np.asarray(y).tolist(), 'apply': np.asarray(y2).tolist()}

  def ref():
    w = dict(zip(names, ws))
    if c['form'] == 'vmap':
      out = []
      for x in np.asarray(xs).tolist():
        for nm in c['order']:
          x = (x * w[nm] + 1) * 3
        out.append(x)
    else:
      carry, out = 1, []
      for x in np.asarray(xs).tolist():
        for nm in c['order']:
          carry = (carry * w[nm] + 1) * 3 + x
        out.append(carry)
      out.append(carry)
    return {'init': out, 'apply': out}
  return {'impl': safe(impl), 'ref': safe(ref)}


class Stat(nn.Module):
  @nn.compact
  def __call__(self, x):
    k = self.param('k', lambda key: jnp.asarray(3, dtype=I64))
    s = self.variable('stats', 'acc', lambda: jnp.asarray(0, dtype=I64))
    y = x * k + s.value
    if self.is_mutable_collection('stats'):
      s.value = s.value * 2 + y
    return y


class StatCell(nn.Module):
  @nn.compact
  def __call__(self, c, x):
    k = self.param('k', lambda key: jnp.asarray(3, dtype=I64))
    s = self.variable('stats', 'acc', lambda: jnp.asarray(0, dtype=I64))
    c = c * k + x + s.value
    if self.is_mutable_collection('stats'):
      s.value = s.value * 2 + c
    return c, c


def inout_case(c):
  """c: marker 'plain'|'in'|'out', form, n, ncalls. plain = an ordinary axis (read and written); in = sliced in, writes not returned;
  out = nothing sliced in (every index starts from the initialiser), results stacked out"""
  n, marker = c['n'], c['marker']
  ax = {'plain': 0, 'in': In(0), 'out': Out(0)}[marker]
  xs_list = [jnp.arange(n, dtype=I64) + 1 + 5 * j for j in range(c['ncalls'])]
  if c['form'] == 'vmap':
    M = nn.vmap(Stat, variable_axes={'params': None, 'stats': ax}, split_rngs={'params': False}, in_axes=0, out_axes=0)
    call = lambda m, v, xs: m.apply(v, xs, mutable=['stats'])
    init = lambda m: m.init(jax.random.key(0), xs_list[0])
  else:
    M = nn.scan(StatCell, variable_axes={'stats': ax}, variable_broadcast='params', split_rngs={'params': False}, in_axes=0, out_axes=0)
    call = lambda m, v, xs: m.apply(v, jnp.asarray(1, dtype=I64), xs, mutable=['stats'])
    init = lambda m: m.init(jax.random.key(0), jnp.asarray(1, dtype=I64), xs_list[0])

  def impl():
    m = M()
    cur = {'params': {'k': jnp.asarray(3, dtype=I64)}}
    if marker != 'out':
      cur['stats'] = {'acc': jnp.arange(n, dtype=I64) * 10 + 7}       # a stacked collection to read from
    outs = []
    for xs in xs_list:
      y, upd = call(m, cur, xs)
      upd = flax.core.unfreeze(upd)
      outs.append({'y': [np.asarray(a).tolist() for a in jax.tree_util.tree_leaves(y)], 'stats': np.asarray(upd['stats']['acc']).tolist() if 'stats' in upd and 'acc' in upd['stats'] else None})
      cur = {**cur, **upd}
    return outs

  def ref():
    acc = [i * 10 + 7 for i in range(n)] if marker != 'out' else None
    outs = []
    for xs in xs_list:
      xs = np.asarray(xs).tolist()
      cur = list(acc) if marker != 'out' else [0] * n          # Out: nothing goes in
      new = [None] * n
      if c['form'] == 'vmap':
        ys = []
        for i in range(n):
          y = xs[i] * 3 + cur[i]
          new[i] = cur[i] * 2 + y
          ys.append(y)
        yv = [ys]
      else:
        carry, ys = 1, []
        for i in range(n):
          carry = carry * 3 + xs[i] + cur[i]
          new[i] = cur[i] * 2 + carry
          ys.append(carry)
        yv = [carry, ys]
      if marker == 'in':
        outs.append({'y': yv, 'stats': list(acc)})      # In: the writes stay inside, the caller keeps what it passed
      else:
        outs.append({'y': yv, 'stats': new})
        acc = new
    return outs
  return {'impl': safe(impl), 'ref': safe(ref)}


def split_io_case(c):
  """flax.core.lift._split_in_out_axes on a variable_axes mapping with In / Out markers: the ordered (filter, axis) lists that become
  pack's in and out filters (first match wins among them, so the order is part of the meaning). c['entries']: [[name, marker, axis]]"""
  from flax.core import lift
  mk = {'both': lambda a: a, 'in': In, 'out': Out}
  d = {e[0]: mk[e[1]](e[2]) for e in c['entries']}
  i, o = lift._split_in_out_axes(d)
  return {'in': [[k, v] for k, v in i.items()], 'out': [[k, v] for k, v in o.items()]}


def main(payload):
  return {'fields': [fields_case(c) for c in payload.get('fields', [])], 'inout': [inout_case(c) for c in payload.get('inout', [])],
          'split_io': [safe(lambda c=c: split_io_case(c)) for c in payload.get('split_io', [])]}


if __name__ == '__main__':
  common.worker_main(main)
