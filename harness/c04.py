"""C04 -- NNX transforms keep Python reference semantics: same result and state as eager."""
import copy
import common
import graph_prog as GP
from common import cN, cnat, cbool, clist, copt, cpair

PROOF_FILES = ['Proofs/UpdateCtx.v']
ASSUMPTIONS = [
    'jax.jit / lax.cond / switch / while_loop / fori_loop / checkpoint evaluate the traced function like Python evaluates it (integer arithmetic without overflow); the jit cache is keyed by the graphdef',
    'functions are sequences of reads, Variable updates, setattr / delattr, new objects and aliasing on the argument graphs (the language of Model/UpdateCtx.v)',
    'list / tuple / dict containers have value semantics (F9); cached_partial is compared with eager by oracle only (its clone semantics: F16)',
]
HEADER = 'From Flaxm Require Import Lib.Harness Model.NnxFilters Model.Graph Model.UpdateCtx.\n'


# ---------- a Python mirror of the heap, used only to generate mostly valid programs ----------
def paths_of(desc, args, maxdepth=3):
  """(path, kind, obj index) for nodes and vars reachable from the arguments"""
  out = []
  objs = desc['objs']

  def go(v, path, depth):
    if v[0] == 'ref':
      o = objs[v[1]]
      out.append((path, o['kind'], v[1]))
      if o['kind'] == 'node' and depth < maxdepth:
        for k, x in o['attrs']:
          go(x, path + [k], depth + 1)
    elif v[0] == 'tree' and depth < maxdepth:
      for k, x in v[2]:
        go(x, path + [k], depth + 1)
  for i, a in enumerate(args):
    go(['ref', a], [i], 0)
  return out


def sim_step(desc, args, m):
  """apply a mutation to the description (None when it fails)"""
  objs = desc['objs']

  def resolve(p):
    v = ['ref', args[p[0]]]
    for k in p[1:]:
      if v[0] == 'ref' and objs[v[1]]['kind'] == 'node':
        d = dict((kk, x) for kk, x in objs[v[1]]['attrs'])
      elif v[0] == 'tree':
        d = dict((kk, x) for kk, x in v[2])
      else:
        return None
      if k not in d:
        return None
      v = d[k]
    return v
  if m[0] == 'setvar':
    return True
  if m[0] == 'setmeta':
    v = resolve(m[1])
    if v is None or v[0] != 'ref' or objs[v[1]]['kind'] != 'var':
      return None
    objs[v[1]]['meta'] = m[2]
    return True
  node = resolve(m[1])
  if node is None or node[0] != 'ref' or objs[node[1]]['kind'] != 'node':
    return None
  o = objs[node[1]]
  if m[0] == 'delattr':
    if m[2] not in [k for k, _ in o['attrs']]:
      return None
    o['attrs'] = [[k, x] for k, x in o['attrs'] if k != m[2]]
    return True
  s = m[3]
  if s[0] == 'static':
    val = ['static', s[1]]
  elif s[0] == 'alias':
    val = resolve(s[1])
    if val is None or val[0] != 'ref':
      return None
  elif s[0] == 'newvar':
    objs.append({'kind': 'var', 'vty': s[1], 'payload': 0, 'meta': s[2]})
    val = ['ref', len(objs) - 1]
  else:
    objs.append({'kind': 'node', 'ty': s[1], 'attrs': []})
    val = ['ref', len(objs) - 1]
  o['attrs'] = sorted([[k, x] for k, x in o['attrs'] if k != m[2]] + [[m[2], val]], key=lambda kv: kv[0])
  return True


def gen_expr(rng, varpaths, depth=0):
  r = rng.random()
  if r < 0.3 or not varpaths or depth > 2:
    return ['const', rng.randint(0, 4)]
  if r < 0.65:
    return ['read', rng.choice(varpaths)]
  return [rng.choice(['add', 'add', 'mul']), gen_expr(rng, varpaths, depth + 1), gen_expr(rng, varpaths, depth + 1)]


def gen_fn(rng, desc, args, structural, nsteps, want_obj):
  d = copy.deepcopy(desc)
  body = []
  for _ in range(nsteps):
    ps = paths_of(d, args)
    nodes = [p for p, k, _ in ps if k == 'node']
    vars_ = [p for p, k, _ in ps if k == 'var']
    r = rng.random()
    if not structural or r < 0.4:
      if not vars_:
        continue
      m = ['setvar', rng.choice(vars_), gen_expr(rng, vars_)]
    elif r < 0.52 and vars_:
      # the metadata of a Variable becomes another set: entries are removed, re-bound or added (part of the graphdef, hence "structural")
      m = ['setmeta', rng.choice(vars_), rng.choice([0, 1, 2, 3])]
    elif r < 0.85:
      q = rng.random()
      if q < 0.2:
        s = ['static', rng.choice([rng.randint(0, 9), 's%d' % rng.randint(0, 5)])]
      elif q < 0.55:
        s = ['alias', rng.choice([p for p, _, _ in ps])]
      elif q < 0.8:
        s = ['newvar', rng.choice(['Param', 'BatchStat', 'Cache', 'Custom']), rng.choice([0, 1, 2]), gen_expr(rng, vars_)]
      else:
        s = ['newnode', rng.choice(['Box', 'Box2'])]
      m = ['setattr', rng.choice(nodes), rng.choice(GP.ATTRS), s]
    else:
      nd = rng.choice(nodes)
      # mostly an existing attribute
      tgt = [x for x in ps if x[0] == nd][0][2]
      keys = [k for k, _ in d['objs'][tgt]['attrs']]
      m = ['delattr', nd, rng.choice(keys) if keys and rng.random() < 0.85 else rng.choice(GP.ATTRS)]
    if rng.random() < 0.93 and sim_step(d, args, m) is None:
      continue       # keep a few failing steps (7%) to compare error behaviour
    body.append(m)
  ps = paths_of(d, args)
  vars_ = [p for p, k, _ in ps if k == 'var']
  fn = {'body': body, 'ret': gen_expr(rng, vars_), 'obj': None}
  if want_obj and rng.random() < 0.5:
    fn['obj'] = rng.choice([p for p, _, _ in ps])
  return fn, d


def gen_struct_edit(rng, desc, args, prefer_rebind=False):
  """a function with exactly one edit that changes the structure of the bound graph (or which Variable an attribute holds)"""
  ps = paths_of(desc, args)
  nodes = [(p, i) for p, k, i in ps if k == 'node']
  if not nodes:
    return None
  has_var = lambda i: any(v[0] == 'ref' and desc['objs'][v[1]]['kind'] == 'var' for _, v in desc['objs'][i]['attrs'])
  with_vars = [(p, i) for p, i in nodes if has_var(i)]
  p, i = rng.choice(with_vars if prefer_rebind and with_vars else nodes)
  attrs = desc['objs'][i]['attrs']
  varattrs = [(k, v) for k, v in attrs if v[0] == 'ref' and desc['objs'][v[1]]['kind'] == 'var']
  free = [k for k in GP.ATTRS if k not in [a for a, _ in attrs]]
  r = rng.random() * (0.5 if prefer_rebind else 1.0)
  if r < 0.6 and varattrs:
    k, v = rng.choice(varattrs)      # re-bind to a fresh Variable of the same type and metadata: the graphdef differs only in which object it is
    o = desc['objs'][v[1]]
    m = ['setattr', p, k, ['newvar', o['vty'], o['meta'], ['const', 7]]]
  elif r < 0.8 and free:
    m = ['setattr', p, rng.choice(free), rng.choice([['static', 3], ['newnode', 'Box'], ['newvar', 'Param', 0, ['const', 1]]])]
  elif attrs:
    m = ['delattr', p, rng.choice(attrs)[0]]
  else:
    return None
  return {'body': [m], 'ret': ['const', 1], 'obj': None}


def cpath(p):
  return clist([cN(p[0])] + [GP.ckey(k) for k in p[1:]])


def cexpr(e):
  if e[0] == 'const':
    return '(EConst %s)' % cN(e[1])
  if e[0] == 'read':
    return '(ERead %s)' % cpath(e[1])
  return '(%s %s %s)' % ('EAdd' if e[0] == 'add' else 'EMul', cexpr(e[1]), cexpr(e[2]))


def cmut(m):
  if m[0] == 'setvar':
    return '(MSetVar %s %s)' % (cpath(m[1]), cexpr(m[2]))
  if m[0] == 'delattr':
    return '(MDelAttr %s %s)' % (cpath(m[1]), GP.ckey(m[2]))
  if m[0] == 'setmeta':
    return '(MSetMeta %s %s)' % (cpath(m[1]), cN(m[2]))
  s = m[3]
  if s[0] == 'static':
    cs = '(SStatic %s)' % GP.cstatic(s[1])
  elif s[0] == 'alias':
    cs = '(SAlias %s)' % cpath(s[1])
  elif s[0] == 'newvar':
    cs = '(SNewVar %s %s %s)' % (cN(GP.VARTY[s[1]]), cN(s[2]), cexpr(s[3]))
  else:
    cs = '(SNewNode %s)' % cN(GP.NODETY[s[1]])
  return '(MSetAttr %s %s %s)' % (cpath(m[1]), GP.ckey(m[2]), cs)


def cfn(f):
  return '(mkFn %s %s %s)' % (clist([cmut(m) for m in f['body']]), cexpr(f['ret']), copt(cpath(f['obj']) if f['obj'] is not None else None))


STRUCT = {'cpartial': False, 'jit': True, 'remat': True, 'eager': True, 'cond': False, 'switch': False, 'fori': False, 'while': False}


def run(chk):
  rng = chk.rng
  thorough = chk.tier == 'thorough'
  chk.proofs(PROOF_FILES)
  cases = []
  kinds = ['jit', 'jit', 'remat', 'cond', 'switch', 'fori', 'while', 'cpartial']
  for i in range(2800 if thorough else 280):
    kind = kinds[i % len(kinds)]
    desc = GP.gen_graph(rng, 9 if thorough else 6)
    while kind == 'cpartial' and '"arr"' in __import__('json').dumps(desc):
      desc = GP.gen_graph(rng, 9 if thorough else 6)      # F20: cached_partial does not support array attributes
    nodes = [j for j, o in enumerate(desc['objs']) if o['kind'] == 'node']
    na = rng.randint(1, 3)
    args = [0] + [rng.choice(nodes) for _ in range(na - 1)]     # duplicates and children of other arguments happen
    rng.shuffle(args)
    ncalls = rng.randint(1, 3) if kind in ('jit', 'remat') else rng.randint(1, 2)
    fns, calls = [], []
    d = desc
    for c in range(ncalls):
      if kind == 'cpartial' and rng.random() < 0.5:
        f = gen_struct_edit(rng, d, args)
        if f is not None:
          fns.append(f)
          calls.append({'fn': len(fns) - 1, 'kind': kind, 'k': 1, 'must_raise': True})
          break
      if kind in ('fori', 'while') and c == 0 and ((i // len(kinds)) % 2 == 0 or rng.random() < 0.3):
        # a body that changes which object sits where in the carry (ping-pong buffers) or re-binds / adds / removes an attribute:
        # nnx may refuse it, but may never accept it and differ from the unrolled loop
        rot = 0
        if len(set(args)) > 1 and rng.random() < 0.4:
          f, _ = gen_fn(rng, d, args, False, rng.randint(1, 3), False)
          rot = rng.randint(1, len(args) - 1)
        else:
          f = gen_struct_edit(rng, d, args, prefer_rebind=rng.random() < 0.6)
        if f is not None:
          fns.append(f)
          calls.append({'fn': len(fns) - 1, 'kind': kind, 'k': rng.randint(1, 3), 'rot': rot, 'refuse_ok': True})
          break
      if fns and rng.random() < 0.5:
        fi = rng.randrange(len(fns))     # the same transformed function again (cache hit or, after structure changes, miss)
      else:
        f, _ = gen_fn(rng, d, args, STRUCT[kind], rng.randint(1, 6), kind in ('jit', 'remat'))
        fns.append(f)
        fi = len(fns) - 1
      # advance the mirror
      d = copy.deepcopy(d)
      for m in fns[fi]['body']:
        sim_step(d, args, m)
      call = {'fn': fi, 'kind': kind, 'k': rng.randint(1, 3) if kind in ('fori', 'while') else 1, 'nkw': rng.choice([0, 0, 1, len(args)]) if kind == 'jit' else 0}
      if kind in ('cond', 'switch'):
        call['other'], _ = gen_fn(rng, d, args, False, rng.randint(0, 2), False)
        call['pred'] = rng.random() < 0.5
        call['index'] = rng.randrange(3)
      if kind == 'jit' and rng.random() < 0.3:
        call['shard'] = rng.choice([2, 3])       # in_shardings = StateSharding over 2 or 4 filters, all None
        call['nkw'] = 0
      elif kind in ('jit', 'remat', 'cond', 'switch') and rng.random() < 0.4:
        call['wrap'] = rng.choice(['dict', 'list', 'nested'])     # the operands inside one container operand
        call['nkw'] = 0
      calls.append(call)
    cases.append({'desc': desc, 'args': args, 'fns': fns, 'calls': calls})
  W = 14
  results = common.run_impl_parallel('impl_c04.py', [{'cases': cases[i::W]} for i in range(W)], workers=W, timeout=3000)
  obs = [None] * len(cases)
  for k, r in enumerate(results):
    for j, o in enumerate(r['cases']):
      obs[k + W * j] = o
  coq = []
  stat = {'calls': 0, 'errors': 0, 'structural': 0, 'alias_args': 0, 'by_kind': {}}
  for c, o in zip(cases, obs):
    structural = any(m[0] != 'setvar' for f in c['fns'] for m in f['body'])
    chk.count({'desc': c['desc'], 'args': c['args'], 'fns': c['fns'], 'calls': c['calls']}, structural or len(set(c['args'])) < len(c['args']))
    if 'err' in o:
      chk.violation('oracle', 'the case could not be run: %s' % o['err'], {'case': c, 'tb': o.get('tb')})
      continue
    stat['structural'] += structural
    stat['alias_args'] += len(set(c['args'])) < len(c['args'])
    heap = GP.cheap(c['desc'])
    args = clist(['(VRef %s)' % cnat(a) for a in c['args']])
    # the model replays the history: each call starts from the heap the previous call left (eager and ctx agree, checked per call)
    hist = []
    for call, res in zip(c['calls'], o['ok']):
      stat['calls'] += 1
      stat['wrapped'] = stat.get('wrapped', 0) + bool(call.get('wrap'))
      stat['by_kind'][call['kind']] = stat['by_kind'].get(call['kind'], 0) + 1
      impl, eager = res['impl'], res['eager']
      if call.get('must_raise'):
        # cached_partial: the structure of a bound graph must be the same after the call, otherwise an error -- never a silent partial update
        if 'err' not in impl:
          chk.violation('oracle', 'nnx.cached_partial accepted a function that changes the structure of a bound graph (or re-binds an attribute to another Variable)',
                        {'case': c, 'call': call, 'fn': c['fns'][call['fn']], 'impl': impl})
        hist.append((call, None))
        break
      if call.get('refuse_ok'):
        stat['loop_struct'] = stat.get('loop_struct', 0) + 1
        stat['loop_struct_refused'] = stat.get('loop_struct_refused', 0) + ('err' in impl)
        if 'err' not in impl and impl != eager:
          chk.violation('oracle', 'nnx.%s_loop accepted a body that %s and gave a result different from the unrolled Python loop (values, or which of the caller\'s objects sit where in the returned carry)'
                        % (call['kind'], 'hands the carry back in another arrangement' if call['rot'] else 'changes the structure of the carry'),
                        {'case': c, 'call': call, 'fn': c['fns'][call['fn']], 'impl': impl, 'eager': eager})
        break
      if ('err' in impl) != ('err' in eager):
        # a failing function leaves the caller's objects half-updated when eager and untouched under a transform: only compare that both fail
        chk.violation('oracle', 'a function that %s eagerly %s under nnx.%s' % ('fails' if 'err' in eager else 'works', 'works' if 'err' in eager else 'fails', call['kind']),
                      {'case': c, 'call': call, 'impl': impl, 'eager': eager})
        break
      if 'err' in impl:
        stat['errors'] += 1
        hist.append((call, None))
        break
      if impl != eager:
        chk.violation('oracle', 'nnx.%s and the eager call differ (returned value, final graph of the arguments / returned object, or which of the caller\'s objects carry the changes)' % call['kind'],
                      {'case': c, 'call': call, 'impl': impl, 'eager': eager})
        break
      hist.append((call, impl))
    # Coq: fold the history
    steps = []
    for call, impl in hist:
      f = c['fns'][call['fn']]
      times = call['k']
      if impl is None:
        steps.append('(%s, %s, %s, (None : option (gattr * list fleaf * list (option nat) * N)))' % (cfn(f), cnat(times), cbool(STRUCT[call['kind']])))
      else:
        g, leaves = GP.canon_to_flat(impl['canon'])
        exp = 'Some (%s, %s, %s, %s)' % (GP.cgattr(g), GP.cflat(leaves), clist([copt(cnat(x) if x is not None else None) for x in impl['orig']]) + ' : list (option nat)', cN(impl['value']))
        steps.append('(%s, %s, %s, (%s))' % (cfn(f), cnat(times), cbool(STRUCT[call['kind']]), exp.replace(' : list (option nat)', '')))
    if steps:
      coq.append((c, o, '(%s, %s, %s)' % (heap, args, clist(steps))))
  chk.sample({'case': {k: v for k, v in cases[0].items() if k != '_cache'}, 'observed': obs[0].get('ok', [None])[0]})
  hdr = HEADER + '''
Definition obs_t := (gattr * list fleaf * list (option nat) * N)%type.
Definition obs_beq (a b : option obs_t) : bool :=
  option_beq (fun x y => let '(g, ls, og, v) := x in let '(g', ls', og', v') := y in
     gattr_beq g g' && list_beq fleaf_beq ls ls' && list_beq (option_beq Nat.eqb) og og' && N.eqb v v') a b.
(* every call: the protocol run AND the eager run give the observed result; the next call starts from the eager heap.
   `orig` is relative to the objects the case started with, so the observation uses the initial heap h0 *)
Fixpoint replay (h0 h : heap) (args : list value) (steps : list (fn * nat * bool * option obs_t)) : bool :=
  match steps with
  | [] => true
  | (f, times, st, expected) :: r =>
      let e := run_eager f times h args in
      let c := run_ctx st f times h args in
      let oe := match e with Some res => observe h0 args res | None => None end in
      let oc := match c with Some res => observe h0 args res | None => None end in
      (match expected with Some _ => obs_beq oe expected && obs_beq oc expected | None => obs_beq oc None end) &&
      match c with Some (h', _, _) => replay h0 h' args r | None => true end
  end.
Definition chk (c : heap * list value * list (fn * nat * bool * option obs_t)) : bool :=
  let '(h, args, steps) := c in replay h h args steps.
'''
  bad = common.coq_mismatches('c04', hdr, [x[2] for x in coq], 'chk', shard=20, timeout=1500)
  for i in bad[:8]:
    c, o, _ = coq[i]
    chk.violation('correspondence', 'Model/UpdateCtx.v (eager semantics and the 4-step protocol) and nnx transforms disagree on the final graph, object identities or value; theorems C04_* no longer transfer',
                  {'case': c, 'observed': o['ok']})
  chk.cov['traces_validated_against_impl'] = len(coq)
  known = {k['key'] for k in common.load_known() if k['property'] == 'C04' and k.get('status') == 'known'}
  me = [{'kind': kind, 'edits': edits} for kind in ('jit', 'remat', 'cond', 'switch') for edits in (['rm_flag'], ['rm_flag', 'rm_extra', 'rebind', 'add'], ['rebind', 'add'])]
  for c, o in zip(me, common.run_impl('impl_c04.py', {'metadata_edits': me}, timeout=900)['metadata_edits']):
    chk.count({'metadata_edits': c}, 'rm_flag' in c['edits'])
    if 'err' in o:
      # structure-changing edits are documented to be unsupported by cond / switch only when the branches disagree; here both branches are the same function
      chk.violation('oracle', 'a function that edits the metadata of a Variable (%s) raised %s under nnx.%s' % (c['edits'], o['err'], c['kind']), {'case': c, 'msg': o.get('msg')})
      continue
    for i, r in enumerate(o['ok']):
      if not (r['y_same'] and r['state_same'] and r['same_object']):
        chk.violation('oracle', 'nnx.%s and the eager call differ after a function that edits the metadata of a Variable (%s), call %d: returned value, the Variable\'s value / metadata, or '
                      'the caller\'s object is not the one carrying the change' % (c['kind'], c['edits'], i + 1), {'case': c, 'observed': r})
        break
  for r in common.run_impl('impl_c04.py', {'long_list': True}, timeout=900)['long_list']:
    chk.count({'long_list': r['form']}, True)
    if 'err' in r and r['form'] == 'jit_sharded':
      continue      # StateSharding needs a mesh on some jax versions: only a wrong result counts
    if 'err' in r or not r['same']:
      chk.violation('oracle', 'nnx.%s on a module holding a list of 12 Variables and a dict keyed \'0\'..\'11\' differs from the eager call (values end up in other list / dict entries)' % r['form'], r)
  for r in common.run_impl('impl_c04.py', {'loop_structure': True}, timeout=900)['loop_structure']:
    chk.count({'loop_structure': {k: r[k] for k in ('edit', 'form', 'k')}}, True)
    if 'refused' not in r['got'] and r['got'] != r['eager']:
      chk.violation('oracle', 'nnx.%s_loop accepted a body that changes which object an attribute holds (%s) and left the caller\'s objects in another state than the unrolled Python loop '
                    '(values, or which of the caller\'s objects carry them)' % (r['form'], r['edit']), r)
  pr = common.run_impl('impl_c04.py', {'probe': True})
  for key, what in (('F16-cached-partial-stale', 'nnx.cached_partial(nnx.jit(step), m) binds a clone of m: an attribute the caller adds to m between calls is ignored, and after the caller '
                     're-binds m.w later calls keep updating the old Variable (eager sees both)'),
                    ('F20-cached-partial-array-attr', 'nnx.cached_partial(nnx.jit(step), m) raises AttributeError (no attribute raw_value) when a node of m holds a raw array attribute; '
                     'nnx.jit(step)(m) works')):
    if pr[key]['fails']:
      if key in known:
        chk.known(key, what)
      else:
        chk.violation('oracle', what, pr[key])
  for name, r in pr['alias'].items():
    if 'err' in r or r['ok'][:2] != ([2.0, 3.0] if name == 'same-twice' else r['ok'][:2]) or r['ok'][2] != 3.0:
      chk.violation('oracle', 'nnx.cached_partial with aliased cached arguments (%s) does not behave like the eager call (fixed: F21)' % name, {'observed': r})
  chk.notes['stats'] = stat
  chk.cov['rule'] = ('random object graphs (C03 generator) x 1-3 arguments (duplicates, children of other arguments) x functions of 1-6 steps (Variable updates with arithmetic on reads, '
                     'setattr of statics / aliases / new Variables / new nodes, delattr, 7% failing steps) x {jit, remat (structure edits); cond, switch, fori_loop, while_loop, cached_partial(jit) (value updates)} x '
                     'histories of 1-3 calls re-using the transformed function. non-trivial = structural edit or aliased arguments')
  chk.cov['trusted_base'] = ['Coq 8.16.1 kernel + vm_compute', 'harness/c04.py, impl_c04.py, graph_prog.py, impl_graph.py', 'harness/jaxcompat.py', 'jax tracing and lax control flow']
