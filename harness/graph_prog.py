"""Object-graph descriptions shared by C03/C04/C08: generator and Coq rendering (Model/Graph.v syntax)."""
from common import cN, cZ, cnat, cbool, clist, copt, cpair

ATTRS = sorted(['B', '_x', 'a', 'a_', 'aa', 'b', 'c', 'self', 'up', 'w', 'x', 'kernel', 'bias', 'u2', 'u10', 'u1'])
DKEYS = sorted(['k1', 'k2', 'z'])
EXTRA_KEYS = ['sub']
ALLK = sorted(set(ATTRS + DKEYS + EXTRA_KEYS))
KCODE = {k: 1000 + i for i, k in enumerate(ALLK)}
NODETY = {'Box': 1, 'Box2': 2}
VARTY = {'Variable': 10, 'Param': 11, 'BatchStat': 12, 'Cache': 13, 'Intermediate': 14, 'Custom': 15}
VMRO = {'Param': [11, 10], 'BatchStat': [12, 10], 'Cache': [13, 10], 'Intermediate': [14, 10], 'Custom': [15, 11, 10]}
KIND = {'list': 1, 'tuple': 2, 'dict': 3, 'nt': 4}
NT_FIELDS = ['x', 'w', 'a']     # declaration order of the NamedTuple used as a generic JAX pytree node (not alphabetical)


def ckey(k):
  return cN(k if isinstance(k, int) else KCODE[k])


def cstatic(s):
  return cN(s if isinstance(s, int) else 500 + int(s[1:]))


def cval(v):
  k = v[0]
  if k == 'ref':
    return '(VRef %s)' % cnat(v[1])
  if k == 'static':
    return '(VStatic %s)' % cstatic(v[1])
  if k == 'arr':
    return '(VArr %s)' % cN(v[1])
  return '(VTree %s %s)' % (cN(KIND[v[1]]), clist([cpair(ckey(kk), cval(x)) for kk, x in v[2]]))


def cheap(desc):
  out = []
  for o in desc['objs']:
    if o['kind'] == 'node':
      out.append('(ONode %s %s)' % (cN(NODETY[o['ty']]), clist([cpair(ckey(k), cval(v)) for k, v in o['attrs']])))
    else:
      out.append('(OVar %s %s %s)' % (cN(VARTY[o['vty']]), cN(o['payload']), cN(o['meta'])))
  return clist(out)


def cgdef(g):
  k = g[0]
  if k == 'ref':
    return '(GRef %s)' % cnat(g[1])
  if k == 'var':
    return '(GVar %s %s %s)' % (cN(VARTY[g[1]]), cnat(g[2]), cN(g[3]))
  if k == 'node':
    return '(GNode %s %s %s)' % (cN(NODETY[g[1]]), cnat(g[2]), clist([cpair(ckey(a), cgattr(b)) for a, b in g[3]]))
  return '(GTree %s %s)' % (cN(KIND[g[1]]), clist([cpair(ckey(a), cgattr(b)) for a, b in g[2]]))


def cgattr(a):
  if a[0] == 'static':
    return '(AStatic %s)' % cstatic(a[1])
  if a[0] == 'arr':
    return 'AArr'
  return '(ASub %s)' % cgdef(a[1])


def cleaf(l):
  if l[0] == 'var':
    return '(LVar %s %s %s)' % (cN(VARTY[l[1]]), cN(l[2]), cN(l[3]))
  return '(LArr %s)' % cN(l[1])


def cflat(flat):
  return '(%s : list fleaf)' % clist([cpair(clist([ckey(k) for k in p]), cleaf(l)) for p, l in flat])


def canon_to_flat(c):
  """python canonical form (impl_graph.canon) -> (graphdef json as enc_graphdef, leaves json as enc_flat)"""
  leaves = []

  def go(x, path):
    k = x[0]
    if k == 'ref':
      return ['sub', ['ref', x[1]]]
    if k == 'var':
      leaves.append([list(path), ['var', x[1], x[3], x[4]]])
      return ['sub', ['var', x[1], x[2], x[4]]]
    if k == 'node':
      return ['sub', ['node', x[1], x[2], [[a, go(b, path + [a])] for a, b in x[3]]]]
    if k == 'tree':
      return ['sub', ['tree', x[1], [[a, go(b, path + [a])] for a, b in x[2]]]]
    if k == 'arr':
      leaves.append([list(path), ['arr', x[1]]])
      return ['arr']
    return ['static', x[1]]
  g = go(c, [])
  return g, leaves


def cfilt(f):
  if 'type' in f:
    return '(NType %s)' % cN(VARTY[f['type']])
  if 'pc' in f:
    return '(NPathContains %s)' % ckey(f['pc'])
  if 'any' in f:
    return '(NAny %s)' % clist([cfilt(g) for g in f['any']])
  if 'all' in f:
    return '(NAll %s)' % clist([cfilt(g) for g in f['all']])
  if 'not' in f:
    return '(NNot %s)' % cfilt(f['not'])
  if 'seq' in f:
    return '(NSeq %s)' % clist([cfilt(g) for g in f['seq']])
  if 'bool' in f:
    return '(NBool %s)' % cbool(f['bool'])
  if 'ellipsis' in f:
    return 'NEllipsis'
  if 'none' in f:
    return 'NNone'
  raise ValueError(f)


TYINFO = '''Definition ti : tyinfo := mkTy (fun t => if N.eqb t 11 then [11; 10] else if N.eqb t 12 then [12; 10] else if N.eqb t 13 then [13; 10]
  else if N.eqb t 14 then [14; 10] else if N.eqb t 15 then [15; 11; 10] else [t])%N [].
'''


def gen_graph(rng, nmax, share_containers=False):
  """a rooted object graph: objs[0] is the root node"""
  n = rng.randint(1, nmax)
  objs = []
  for i in range(n):
    if i == 0 or rng.random() < 0.55:
      objs.append({'kind': 'node', 'ty': rng.choice(['Box', 'Box', 'Box2']), 'attrs': []})
    else:
      objs.append({'kind': 'var', 'vty': rng.choice(['Param', 'Param', 'BatchStat', 'Cache', 'Intermediate', 'Custom']),
                   'payload': rng.randint(0, 50), 'meta': rng.choice([0, 0, 1, 2, 3])})
  nodes = [i for i, o in enumerate(objs) if o['kind'] == 'node']
  cnt = [0]

  def gen_val(depth):
    r = rng.random()
    if r < 0.5:
      return ['ref', rng.randrange(n)]
    if r < 0.62:
      cnt[0] += 1
      return ['static', rng.choice([rng.randint(0, 9), 's%d' % rng.randint(0, 5)])]
    if r < 0.72:
      return ['arr', rng.randint(0, 90)]
    if depth <= 0:
      return ['ref', rng.randrange(n)]
    kind = rng.choice(['list', 'tuple', 'dict', 'nt'])
    if kind == 'nt':
      return ['tree', kind, [[k, gen_val(depth - 1)] for k in sorted(NT_FIELDS)]]
    m = rng.randint(0, 3)
    if kind == 'list' and rng.random() < 0.12:
      # a long list: positions 10, 11 sort before 2 as strings
      return ['tree', kind, [[j, rng.choice([['ref', rng.randrange(n)], ['arr', rng.randint(0, 90)], ['static', rng.randint(0, 9)]])] for j in range(rng.randint(11, 13))]]
    if kind == 'dict' and rng.random() < 0.3:
      # integer keys whose numeric order differs from the order of their string forms
      ks = sorted(rng.sample([2, 8, 10, 16, 32], rng.randint(2, 3)))
      return ['tree', kind, [[k, gen_val(depth - 1)] for k in ks]]
    if kind == 'dict':
      ks = sorted(rng.sample(DKEYS, min(m, len(DKEYS))))
      return ['tree', kind, [[k, gen_val(depth - 1)] for k in ks]]
    return ['tree', kind, [[j, gen_val(depth - 1)] for j in range(m)]]
  # make everything reachable: a spanning chain first, then random extra attributes
  for i in range(1, n):
    parent = rng.choice([j for j in nodes if j < i] or [0])
    used = {k for k, _ in objs[parent]['attrs']}
    free = [k for k in ATTRS if k not in used]
    if free:
      objs[parent]['attrs'].append([rng.choice(free), ['ref', i]])
  for j in nodes:
    used = {k for k, _ in objs[j]['attrs']}
    if rng.random() < 0.15:
      # numbered attributes whose numeric order differs from their string order (u10 < u2 as strings)
      for k in ('u2', 'u10', 'u1'):
        if k not in used and rng.random() < 0.8:
          objs[j]['attrs'].append([k, gen_val(1)])
          used.add(k)
    for k in rng.sample([k for k in ATTRS if k not in used], min(rng.randint(0, 3), len(ATTRS) - len(used))):
      objs[j]['attrs'].append([k, gen_val(2)])
    objs[j]['attrs'].sort(key=lambda kv: kv[0])
  return {'objs': objs, 'root': ['ref', 0]}


def shares_or_cycles(desc):
  refs = []

  def walk(v):
    if v[0] == 'ref':
      refs.append(v[1])
    elif v[0] == 'tree':
      for _, x in v[2]:
        walk(x)
  for o in desc['objs']:
    if o['kind'] == 'node':
      for _, v in o['attrs']:
        walk(v)
  return len(refs) != len(set(refs)) or 0 in refs
