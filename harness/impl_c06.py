"""Implementation side of C06: nn.scan / nn.vmap around an integer-body Linen module, against the explicit Python loop
and the per-index calls on sliced variables."""
import jaxcompat  # noqa: F401
import warnings
warnings.filterwarnings('ignore')
import common
import jax
import jax.numpy as jnp
import numpy as np
import flax
import flax.linen as nn

DESCS = {}
COLOF = {0: 'ax0', 1: 'ax1', 2: 'ax2', -1: 'axm1', None: 'bc', 'carry': 'carry'}
VAXES = {'ax0': 0, 'ax1': 1, 'ax2': 2, 'axm1': -1}


def kd(key):
  return [int(x) for x in np.asarray(jax.random.key_data(key)).reshape(-1)]


class Body(nn.Module):
  did: int = 0

  @nn.compact
  def __call__(self, c, x):
    d = DESCS[self.did]
    vs = []
    for j, v in enumerate(d['vars']):
      shape = tuple(v['slice_shape'])
      if v.get('rand_init'):
        # a key-dependent initialiser: initialising twice is visible
        vs.append(self.variable(COLOF[v['spec']], 'v%d' % j, lambda shape=shape: jax.random.randint(self.make_rng('params'), shape, -3, 4).astype(jnp.int64)))
      else:
        vs.append(self.variable(COLOF[v['spec']], 'v%d' % j, lambda shape=shape, v=v: jnp.full(shape, v['init'], dtype=jnp.int64)))

    def ev(e, carry):
      k = e[0]
      if k == 'const':
        return jnp.asarray(e[1], dtype=jnp.int64)
      if k == 'x':
        return x
      if k == 'c':
        return carry
      if k == 'sum':
        return jnp.sum(vs[e[1]].value)
      a, b = ev(e[1], carry), ev(e[2], carry)
      return a + b if k == 'add' else a * b
    for s in d['body']['stmts']:
      if s[0] == 'addto':
        vs[s[1]].value = vs[s[1]].value + ev(s[2], c)
      elif s[0] == 'scale':
        vs[s[1]].value = vs[s[1]].value * s[2]
      else:
        c = ev(s[1], c)
    y = ev(d['body']['ret'], c)
    keys = []
    for stream in d.get('draw', []):
      keys.append(jax.random.key_data(self.make_rng(stream)).astype(jnp.int64))
    return c, (y, tuple(keys))


def lifted(d):
  if d['kind'] == 'scan':
    return nn.scan(Body, variable_axes=dict(VAXES), variable_broadcast='bc', variable_carry='carry',
                   split_rngs={s: sp for s, sp in d['split'].items()}, in_axes=0, out_axes=0, length=d['length'], reverse=d['reverse'], unroll=d['unroll'],
                   check_constancy_invariants=not d.get('no_cci', False))
  return nn.vmap(Body, variable_axes={**VAXES, 'bc': None, 'carry': None}, split_rngs={s: sp for s, sp in d['split'].items()},
                 in_axes=(None, 0), out_axes=0, axis_size=d['length'])


class Top(nn.Module):
  did: int = 0

  @nn.compact
  def __call__(self, c, xs):
    return lifted(DESCS[self.did])(self.did, name='s')(c, xs)


class Plain(nn.Module):
  did: int = 0

  @nn.compact
  def __call__(self, c, x):
    return Body(self.did, name='s')(c, x)


class Chain(nn.Module):
  """c -> a * c + w, one scalar parameter per layer (for remat_scan)"""
  did: int = 0

  @nn.compact
  def __call__(self, c):
    d = DESCS[self.did]
    w = self.param('w', lambda k: jnp.asarray(d['winit'], dtype=jnp.int64))
    if d.get('draw'):
      # record the key this layer draws: one entry per layer in the stacked collection
      self.sow('keys', 'k', jax.random.key_data(self.make_rng('noise')).astype(jnp.int64))
    return c * d['a'] + w


class ChainTop(nn.Module):
  did: int = 0

  @nn.compact
  def __call__(self, c):
    d = DESCS[self.did]
    if d.get('draw'):
      return nn.remat_scan(Chain, lengths=tuple(d['lengths']), split_rngs={'params': True, 'noise': d['split_noise']})(self.did, name='s')(c)
    return nn.remat_scan(Chain, lengths=tuple(d['lengths']))(self.did, name='s')(c)


def remat_scan_case(d, did):
  DESCS[did] = d
  c0 = jnp.asarray(d['c0'], dtype=jnp.int64)
  w = np.array(d['w'], dtype=np.int64)
  out = {}

  def ap():
    if d.get('draw'):
      y, upd = ChainTop(did).apply({'params': {'s': {'w': jnp.asarray(w)}}}, c0, rngs={'noise': jax.random.key(5)}, mutable=['keys'])
      ks = np.asarray(upd['keys']['s']['k'][0]).reshape(int(np.prod(d['lengths'])), -1)
      out['distinct_keys'] = len({tuple(int(a) for a in row) for row in ks})
      return {'out': int(y)}
    y = ChainTop(did).apply({'params': {'s': {'w': jnp.asarray(w)}}}, c0)
    return {'out': int(y)}

  def loop():
    c = c0
    for wi in w.reshape(-1):
      c = Chain(did).apply({'params': {'w': jnp.asarray(wi)}}, c, rngs={'noise': jax.random.key(5)}, mutable=['keys'])[0] if d.get('draw') else \
          Chain(did).apply({'params': {'w': jnp.asarray(wi)}}, c)
    return {'out': int(c)}

  def init():
    y, v = ChainTop(did).init_with_output({'params': jax.random.key(0), 'noise': jax.random.key(5)}, c0)
    return {'shape': list(np.shape(v['params']['s']['w'])), 'out': int(y)}
  out['apply'], out['loop'], out['init'] = safe(ap), safe(loop), safe(init)
  return out


class AxCell(nn.Module):
  """array-valued inputs / outputs and an axis collection, for in_axes / out_axes / variable_axes at any position"""

  @nn.compact
  def __call__(self, c, x):
    t = self.variable('trace', 't', lambda: jnp.zeros(x.shape, jnp.int64))
    k = self.param('k', lambda key: jnp.asarray(2, dtype=jnp.int64))
    y = x * (c + k) + jnp.arange(x.size, dtype=jnp.int64).reshape(x.shape)
    t.value = t.value + y
    return c + jnp.sum(x), y


def axes_case(d):
  L, shape, ia, oa, va = d['length'], tuple(d['shape']), d['in_axis'], d['out_axis'], d['var_axis']
  rs = np.random.RandomState(d['seed'])
  slices = [rs.randint(-3, 4, size=shape).astype(np.int64) for _ in range(L)]
  xs = np.stack(slices, axis=ia)
  c0 = jnp.asarray(d['c0'], dtype=jnp.int64)
  mk = lambda cci: nn.scan(AxCell, variable_axes={'trace': va}, variable_broadcast='params', split_rngs={'params': False}, in_axes=ia, out_axes=oa, length=L,
                           reverse=d['reverse'], check_constancy_invariants=cci)
  S0 = mk(True)                                # initialising a broadcast collection needs the constancy pre-pass
  S = mk(not d.get('no_cci', False))
  out = {}

  def run():
    variables = S0().init(jax.random.key(0), c0, jnp.asarray(xs))
    tshape = list(np.shape(variables['trace']['t']))
    t0 = [rs.randint(-2, 3, size=shape).astype(np.int64) for _ in range(L)]
    variables = {'params': variables['params'], 'trace': {'t': jnp.asarray(np.stack(t0, axis=va))}}
    (c, ys), upd = S().apply(variables, c0, jnp.asarray(xs), mutable=['trace'])
    # the explicit loop over sliced inputs and variables
    order = list(range(L))[::-1] if d['reverse'] else list(range(L))
    cc, ey, et = c0, [None] * L, [None] * L
    for i in order:
      (cc, y), u = AxCell().apply({'params': variables['params'], 'trace': {'t': jnp.asarray(t0[i])}}, cc, jnp.asarray(slices[i]), mutable=['trace'])
      ey[i], et[i] = np.asarray(y), np.asarray(u['trace']['t'])
    exp_ys, exp_t = np.stack(ey, axis=oa), np.stack(et, axis=va)
    return {'init_trace_shape': tshape, 'exp_trace_shape': list(exp_t.shape),
            'ys_ok': bool(np.shape(ys) == exp_ys.shape and np.array_equal(np.asarray(ys), exp_ys)), 'ys_shape': list(np.shape(ys)), 'exp_ys_shape': list(exp_ys.shape),
            'trace_ok': bool(np.shape(upd['trace']['t']) == exp_t.shape and np.array_equal(np.asarray(upd['trace']['t']), exp_t)),
            'carry_ok': bool(int(c) == int(cc))}
  return safe(run)


def stacked_vars(d):
  """the variables the lifted module expects: axis collections stacked along their axis"""
  out = {}
  for j, v in enumerate(d['vars']):
    a = np.array(v['val'], dtype=np.int64)
    out.setdefault(COLOF[v['spec']], {}).setdefault('s', {})['v%d' % j] = jnp.asarray(a)
  return out


def enc_vars(variables, d):
  out = []
  for j, v in enumerate(d['vars']):
    col = COLOF[v['spec']]
    if col not in variables or 's' not in variables[col] or 'v%d' % j not in variables[col]['s']:
      out.append(None)
      continue
    a = np.asarray(variables[col]['s']['v%d' % j])
    if isinstance(v['spec'], int):
      a = np.moveaxis(a, v['spec'], 0)
      out.append({'slices': [[int(z) for z in a[i].reshape(-1)] for i in range(a.shape[0])]})
    else:
      out.append({'whole': [int(z) for z in a.reshape(-1)]})
  return out


def safe(fn):
  try:
    return {'ok': fn()}
  except Exception as e:  # pylint: disable=broad-except
    return {'err': type(e).__name__, 'msg': str(e)[:220]}


def rngs_of(d):
  return {s: jax.random.fold_in(jax.random.key(7), i) for i, s in enumerate(sorted(d['split']))}


def run_case(d, did):
  DESCS[did] = d
  L = d['length']
  xs = jnp.asarray(np.array(d['xs'], dtype=np.int64))
  c0 = jnp.asarray(d['c0'], dtype=jnp.int64)
  out = {}

  def impl_apply():
    variables = stacked_vars(d)
    (c, (ys, keys)), upd = Top(did).apply(variables, c0, xs, rngs=rngs_of(d), mutable=True)
    final = {**variables, **flax.core.unfreeze(upd)}
    return {'carry': [int(z) for z in np.asarray(c).reshape(-1)], 'ys': [int(z) for z in np.asarray(ys)], 'vals': enc_vars(final, d),
            'keys': [[[int(a) for a in row] for row in np.asarray(k).reshape(L, -1)] for k in keys]}

  def loop_apply():
    variables = stacked_vars(d)
    order = list(range(L))[::-1] if (d['kind'] == 'scan' and d['reverse']) else list(range(L))
    c, ys = c0, [0] * L
    per_index = {}
    for i in order:
      vi = {}
      for j, v in enumerate(d['vars']):
        col = COLOF[v['spec']]
        a = variables[col]['s']['v%d' % j]
        if isinstance(v['spec'], int):
          a = jnp.take(a, i, axis=v['spec'])
        vi.setdefault(col, {}).setdefault('s', {})['v%d' % j] = a
      (c2, (y, _)), upd = Plain(did).apply(vi, c if d['kind'] == 'scan' else c0, xs[i], rngs=rngs_of(d), mutable=True)
      ys[i] = int(y)
      upd = flax.core.unfreeze(upd)
      if d['kind'] == 'scan':
        c = c2
      for j, v in enumerate(d['vars']):
        col = COLOF[v['spec']]
        new = upd[col]['s']['v%d' % j]
        if isinstance(v['spec'], int):
          whole = variables[col]['s']['v%d' % j]
          w = jnp.moveaxis(whole, v['spec'], 0).at[i].set(new)
          variables[col]['s']['v%d' % j] = jnp.moveaxis(w, 0, v['spec'])
        elif d['kind'] == 'scan':
          variables[col]['s']['v%d' % j] = new      # the Python loop: every write persists (carry and broadcast alike)
        else:
          per_index.setdefault(j, []).append(np.asarray(new))
    if d['kind'] == 'vmap':
      for j, arrs in per_index.items():
        variables[COLOF[d['vars'][j]['spec']]]['s']['v%d' % j] = jnp.asarray(arrs[0])
    return {'carry': [int(z) for z in np.asarray(c if d['kind'] == 'scan' else c0).reshape(-1)], 'ys': ys, 'vals': enc_vars(variables, d)}
  out['apply'] = safe(impl_apply)
  out['loop'] = safe(loop_apply)

  def impl_init():
    (c, (ys, keys)), variables = Top(did).init_with_output(rngs_of(d), c0, xs)
    extra = {}
    if d.get('readonly'):
      # the output of init must be the loop over the variables init returns
      (c2, (ys2, _)), _ = Top(did).apply(variables, c0, xs, rngs=rngs_of(d), mutable=True)
      extra['init_consistent'] = bool(np.array_equal(np.asarray(ys), np.asarray(ys2)))
    return {**extra, 'ys': [int(z) for z in np.asarray(ys)], 'vals': enc_vars(flax.core.unfreeze(variables), d),
            'shapes': {col: {k: list(np.shape(a)) for k, a in tree['s'].items()} for col, tree in flax.core.unfreeze(variables).items()}}
  out['init'] = safe(impl_init)
  return out


def probe():
  d = {'kind': 'scan', 'length': 3, 'reverse': False, 'unroll': 1, 'split': {'params': False}, 'draw': [],
       'vars': [{'spec': None, 'val': [4], 'slice_shape': [1], 'init': 0}], 'body': {'stmts': [['addto', 0, ['const', 1]]], 'ret': ['sum', 0]}, 'xs': [0, 0, 0], 'c0': 0}
  r = run_case(d, 10 ** 6)
  a, l = r['apply'], r['loop']
  return {'F25-scan-broadcast-write-once': {'fails': 'ok' in a and 'ok' in l and (a['ok']['vals'] != l['ok']['vals'] or a['ok']['ys'] != l['ok']['ys']), 'scan': a, 'loop': l}}


def main(payload):
  if payload.get('probe'):
    return probe()
  res = []
  for i, d in enumerate(payload['cases']):
    try:
      res.append({'ok': remat_scan_case(d, i) if d['kind'] == 'remat_scan' else axes_case(d) if d['kind'] == 'axes' else run_case(d, i)})
    except Exception as e:  # pylint: disable=broad-except
      import traceback
      res.append({'err': type(e).__name__, 'tb': traceback.format_exc()[-800:]})
  return {'cases': res}


if __name__ == '__main__':
  common.worker_main(main)
