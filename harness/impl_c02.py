"""Implementation side of C02: init/apply/shape-only init agreement, name clashes, standalone children."""
import impl_linen as L
import common
import copy
import jax
import jax.numpy as jnp
import numpy as np
import flax
import flax.linen as nn


def paths(tree, prefix=()):
  out = []
  for k, v in tree.items():
    if isinstance(v, dict) and not ('tuple' in v and len(v) == 1):
      out += paths(v, prefix + (k,))
    else:
      out.append(list(prefix + (k,)))
  return sorted(out)


def shapes(v):
  return jax.tree_util.tree_map(lambda a: [list(a.shape), str(a.dtype)], v)


def canon_shapes(v):
  if isinstance(v, (dict, flax.core.FrozenDict)):
    return {k: canon_shapes(x) for k, x in v.items()}
  if isinstance(v, tuple):
    return {'tuple': [canon_shapes(e) for e in v]}
  return [list(v.shape), str(v.dtype)]


def run_case(c, pid):
  prog = c['prog']
  m = L.top_module(prog, pid)
  x = jnp.asarray(np.array(c['x'], dtype=np.int64))
  out = {}
  ini = L.run_init(m, x, c['streams'], with_output=True)
  out['init'] = {k: v for k, v in ini.items() if k not in ('raw', 'trace')}
  if 'err' in ini:
    return out
  v = ini['raw']
  rngs = L.rng_dict(c['streams'])
  # ---- apply consumes exactly what init returned
  ap_false = L.run_apply(m, v, x, c['streams'], False)
  out['apply_immutable'] = {k: w for k, w in ap_false.items() if k != 'trace'}
  out['apply_immutable_param_inits'] = sum(1 for e in ap_false['trace'] if e[0] == 'param')
  ap_same = L.run_apply(m, v, x, c['streams'], nn.DenyList('intermediates'))
  out['apply_like_init'] = {k: w for k, w in ap_same.items() if k != 'trace'}
  out['apply_like_init_param_inits'] = sum(1 for e in ap_same['trace'] if e[0] == 'param')
  # ---- a missing / wrongly shaped parameter raises
  flat = flax.traverse_util.flatten_dict(jax.tree_util.tree_map(lambda a: a, flax.core.unfreeze(v)))
  pkeys = [k for k in flat if k[0] == 'params']
  if pkeys:
    k = pkeys[c['pick'] % len(pkeys)]
    miss = {kk: vv for kk, vv in flat.items() if kk != k}
    vm = flax.traverse_util.unflatten_dict(miss)
    r = L.run_apply(m, vm, x, c['streams'], False)
    out['missing_param'] = {'path': list(k), 'vars_in': L.canon_vars(vm), 'result': {kk: w for kk, w in r.items() if kk != 'trace'}}
    wrong = dict(flat)
    wrong[k] = jnp.concatenate([flat[k], flat[k]])
    vw = flax.traverse_util.unflatten_dict(wrong)
    r = L.run_apply(m, vw, x, c['streams'], False)
    out['wrong_shape_param'] = {'path': list(k), 'vars_in': L.canon_vars(vw), 'result': {kk: w for kk, w in r.items() if kk != 'trace'}}
  # ---- a name clash that only shows during apply: the same program with one variable declared twice (or a child named like a
  # variable), applied on the variables init returned -- the variable exists already, the clash must still raise
  body, ret = prog['classes'][str(prog['top'])]
  decl = [s for s in body if s[0] == 'var']
  if decl:
    s0 = decl[c['pick'] % len(decl)]
    loc = max([0] + [t[1] for t in body if t[0] in ('param', 'var', 'perturb', 'let', 'call', 'ctl')]) + 1
    inst = max([0] + [t[1] for t in body if t[0] == 'child']) + 1
    kids = sorted({t[2] for t in body if t[0] == 'child'})
    if c['pick'] % 2 == 0 or not kids or not isinstance(s0[3], str):
      extra = ['var', loc, s0[2], s0[3], s0[4], s0[5]]
    else:
      extra = ['child', inst, kids[0], s0[3]]
    i0 = body.index(s0)
    PID3 = 20000 + pid
    L.PROGS[PID3] = {'classes': {**prog['classes'], '998': (body[:i0 + 1] + [extra] + body[i0 + 1:], ret)}, 'top': 998, 'n': prog['n']}
    qm = L.get_class(998)(PID3, 998)
    # the top class is renamed (998): automatic child names of other classes are unaffected, explicit ones too
    r = L.run_apply(qm, v, x, c['streams'], nn.DenyList('intermediates'))
    out['clash_on_apply'] = {'extra': extra, 'after': i0, 'result': {kk: w for kk, w in r.items() if kk != 'trace'}}
  # ---- shape-only initialisation
  def sh(fn):
    try:
      return {'ok': canon_shapes(fn())}
    except Exception as e:  # pylint: disable=broad-except
      return {'err': L.classify(e)}
  out['concrete_shapes'] = canon_shapes(v)
  out['eval_shape'] = sh(lambda: jax.eval_shape(lambda: m.init(rngs, x)))
  out['jit_init'] = sh(lambda: jax.jit(lambda: m.init(rngs, x))())
  out['lazy_init'] = sh(lambda: m.lazy_init(rngs, jax.ShapeDtypeStruct(x.shape, x.dtype)))
  # ---- standalone child: the first child that the top module creates, applied on its own sub-tree
  body, _ = prog['classes'][str(prog['top'])]
  childs = [s for s in body if s[0] == 'child']
  if childs:
    _, inst, cls, nm = childs[0]
    name = nm if nm is not None else 'K%d_0' % cls
    sub = {col: tree[name] for col, tree in L.canon_vars(v).items() if isinstance(tree, dict) and name in tree and isinstance(tree[name], dict)}
    subv = L.build_vars(sub)
    cm = L.get_class(cls)(pid, cls)
    xin = jnp.asarray(np.array(c['child_x'], dtype=np.int64))
    r = L.run_apply(cm, subv, xin, c['streams'], nn.DenyList('intermediates'))
    out['standalone'] = {'cls': cls, 'name': name, 'vars_in': sub, 'x': c['child_x'], 'result': {kk: w for kk, w in r.items() if kk != 'trace'}}
    # the same child inside a parent that only forwards to it
    PID2 = 10000 + pid
    L.PROGS[PID2] = {'classes': {**prog['classes'], '999': ([['child', 1, cls, nm], ['call', 1, 1, ['in']]], ['loc', 1])}, 'top': 999, 'n': prog['n']}
    pm = L.get_class(999)(PID2, 999)
    wrapped = {col: {name: t} for col, t in sub.items()}
    r2 = L.run_apply(pm, L.build_vars(wrapped), xin, c['streams'], nn.DenyList('intermediates'))
    out['inside_parent'] = {kk: w for kk, w in r2.items() if kk != 'trace'}
  return out


def main(payload):
  res = []
  for i, c in enumerate(payload['cases']):
    try:
      res.append({'ok': run_case(c, i)})
    except Exception as e:  # pylint: disable=broad-except
      import traceback
      res.append({'err': type(e).__name__, 'tb': traceback.format_exc()[-900:]})
  return {'cases': res}


if __name__ == '__main__':
  common.worker_main(main)
