"""Implementation side of the NNX half of C14 (imported by impl_c14.py)."""
from flax import nnx
from flax.nnx import filterlib, statelib, variablelib


class CustomParam(nnx.Param):
  pass


class CustomStat(nnx.BatchStat):
  pass


TYPES = {'Variable': nnx.Variable, 'Param': nnx.Param, 'BatchStat': nnx.BatchStat, 'Cache': nnx.Cache,
         'Intermediate': nnx.Intermediate, 'CustomParam': CustomParam, 'CustomStat': CustomStat,
         'VariableState': nnx.VariableState, 'object': object}


def dec(f):
  if 'type' in f:
    return TYPES[f['type']]
  if 'tag' in f:
    return f['tag']
  if 'wtag' in f:
    return filterlib.WithTag(f['wtag'])
  if 'oftype' in f:
    return filterlib.OfType(TYPES[f['oftype']])
  if 'pc' in f:
    return filterlib.PathContains(f['pc'])
  if 'pin' in f:
    return filterlib.PathIn(*[tuple(p) for p in f['pin']])
  if 'any' in f:
    return filterlib.Any(*[dec(g) for g in f['any']])
  if 'all' in f:
    return filterlib.All(*[dec(g) for g in f['all']])
  if 'not' in f:
    return filterlib.Not(dec(f['not']))
  if 'bool' in f:
    return bool(f['bool'])
  if 'ellipsis' in f:
    return ...
  if 'none' in f:
    return None
  if 'everything' in f:
    return filterlib.Everything()
  if 'nothing' in f:
    return filterlib.Nothing()
  if 'seq' in f:
    xs = [dec(g) for g in f['seq']]
    return tuple(xs) if f.get('kind') == 'tuple' else xs
  raise ValueError(f)


def mk_leaf(l):
  meta = {'tag': l['tag']} if l.get('tag') is not None else {}
  return variablelib.VariableState(TYPES[l['type']], l['id'], **meta)


def ids_of_state(s):
  return [int(v.value) for _, v in nnx.to_flat_state(s)]


def safe(fn):
  try:
    return {'ok': fn()}
  except Exception as e:  # pylint: disable=broad-except
    return {'err': type(e).__name__}


def as_tuple(x):
  return x if isinstance(x, tuple) else (x,)


class Box(nnx.Module):
  pass


def build_module(leaves):
  root = Box()
  for l in leaves:
    node = root
    for k in l['path'][:-1]:
      if not hasattr(node, k):
        setattr(node, k, Box())
      node = getattr(node, k)
    meta = {'tag': l['tag']} if l.get('tag') is not None else {}
    setattr(node, l['path'][-1], TYPES[l['type']](l['id'], **meta))
  return root


def run(payload):
  out = []
  for c in payload['cases']:
    leaves = c['leaves']
    state = nnx.State.from_flat_path({tuple(l['path']): mk_leaf(l) for l in leaves})
    flat = nnx.to_flat_state(state)
    o = {'order': [int(v.value) for _, v in flat]}
    # single-predicate evaluation on every leaf
    def preds():
      ps = [filterlib.to_predicate(dec(f)) for f in c['filters']]
      return [[bool(p(path, v)) for path, v in flat] for p in ps]
    o['denote'] = safe(preds)
    fs = [dec(f) for f in c['filters']]
    if fs:
      o['filter_state'] = safe(lambda: [ids_of_state(s) for s in as_tuple(nnx.filter_state(state, *fs))])
      o['State.filter'] = safe(lambda: [ids_of_state(s) for s in as_tuple(state.filter(*fs))])
      o['split_state'] = safe(lambda: [ids_of_state(s) for s in as_tuple(nnx.split_state(state, *fs))])
      o['State.split'] = safe(lambda: [ids_of_state(s) for s in as_tuple(state.split(*fs))])
      o['split_flat_state'] = safe(lambda: [[int(v.value) for _, v in b]
                                            for b in variablelib.split_flat_state(flat, tuple(fs))])
      o['_split_state'] = safe(lambda: [[int(v.value) for _, v in b] for b in statelib._split_state(flat, *fs)])
      if c.get('module'):
        m = build_module(leaves)
        def gsplit():
          g, *ss = nnx.split(m, *fs)
          return [ids_of_state(s) for s in ss]
        o['nnx.split'] = safe(gsplit)
        o['nnx.state'] = safe(lambda: [ids_of_state(s) for s in as_tuple(nnx.state(m, *fs))])
    out.append(o)
  return out
