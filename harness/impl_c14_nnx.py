"""Implementation side of the NNX half of C14 (imported by impl_c14.py)."""
from flax import nnx
from flax.nnx import filterlib, statelib, variablelib


class CustomParam(nnx.Param):
  pass


class CustomStat(nnx.BatchStat):
  pass


TYPES = {'Variable': nnx.Variable, 'Param': nnx.Param, 'BatchStat': nnx.BatchStat, 'Cache': nnx.Cache,
         'Intermediate': nnx.Intermediate, 'CustomParam': CustomParam, 'CustomStat': CustomStat,
         'VariableState': nnx.VariableState, 'object': object}


def dec(f):
  if 'type' in f:
    return TYPES[f['type']]
  if 'tag' in f:
    return f['tag']
  if 'wtag' in f:
    return filterlib.WithTag(f['wtag'])
  if 'oftype' in f:
    return filterlib.OfType(TYPES[f['oftype']])
  if 'pc' in f:
    return filterlib.PathContains(f['pc'])
  if 'pin' in f:
    return filterlib.PathIn(*[tuple(p) for p in f['pin']])
  if 'any' in f:
    return filterlib.Any(*[dec(g) for g in f['any']])
  if 'all' in f:
    return filterlib.All(*[dec(g) for g in f['all']])
  if 'not' in f:
    return filterlib.Not(dec(f['not']))
  if 'bool' in f:
    return bool(f['bool'])
  if 'ellipsis' in f:
    return ...
  if 'none' in f:
    return None
  if 'everything' in f:
    return filterlib.Everything()
  if 'nothing' in f:
    return filterlib.Nothing()
  if 'seq' in f:
    xs = [dec(g) for g in f['seq']]
    return tuple(xs) if f.get('kind') == 'tuple' else xs
  raise ValueError(f)


def mk_leaf(l):
  meta = {'tag': l['tag']} if l.get('tag') is not None else {}
  return variablelib.VariableState(TYPES[l['type']], l['id'], **meta)


def ids_of_state(s):
  return [int(v.value) for _, v in nnx.to_flat_state(s)]


def safe(fn):
  try:
    return {'ok': fn()}
  except Exception as e:  # pylint: disable=broad-except
    return {'err': type(e).__name__}


def as_tuple(x):
  return x if isinstance(x, tuple) else (x,)


class Box(nnx.Module):
  pass


def build_module(leaves):
  root = Box()
  for l in leaves:
    node = root
    for k in l['path'][:-1]:
      if not hasattr(node, k):
        setattr(node, k, Box())
      node = getattr(node, k)
    meta = {'tag': l['tag']} if l.get('tag') is not None else {}
    setattr(node, l['path'][-1], TYPES[l['type']](l['id'], **meta))
  return root


def _nested(leaves):
  out = {}
  for l in leaves:
    node = out
    for k in l['path'][:-1]:
      node = node.setdefault(k, {})
    node[l['path'][-1]] = mk_leaf(l)
  return out


ENTRY_FILTERS = {
    '...': lambda: ..., 'True': lambda: True, "'params'": lambda: 'params', "('params', 'dropout')": lambda: ('params', 'dropout'), "Not('params')": lambda: nnx.Not('params'),
    'RngState': lambda: nnx.RngState, 'Param': lambda: nnx.Param, 'False': lambda: False, 'None': lambda: None, '()': lambda: (), 'Nothing()': lambda: nnx.Nothing(),
    'Any()': lambda: nnx.Any(), 'All()': lambda: nnx.All(), 'Not(None)': lambda: nnx.Not(None), 'Not(...)': lambda: nnx.Not(...), "[None, 'dropout']": lambda: [None, 'dropout'],
    "All('params', None)": lambda: nnx.All('params', None), 'Any(None, False)': lambda: nnx.Any(None, False), "PathContains('dropout')": lambda: nnx.PathContains('dropout'),
}


def entry_points():
  """public entry points that take a filter: nnx.split_rngs(only=F), function and decorator form, on Rngs(params, dropout)"""
  out = {}
  for name, mk in ENTRY_FILTERS.items():
    res = {}
    for form in ('function', 'decorator'):
      def go(form=form):
        rngs = nnx.Rngs(params=0, dropout=1)
        if form == 'decorator':
          seen = {}

          @nnx.split_rngs(splits=3, only=mk())
          def f(r):
            for n in ('params', 'dropout'):
              seen[n] = r[n].key.value.shape
            return 0
          f(rngs)
          shapes = seen
        else:
          nnx.split_rngs(rngs, splits=3, only=mk())
          shapes = {n: rngs[n].key.value.shape for n in ('params', 'dropout')}
        return sorted(n for n, s_ in shapes.items() if s_ == (3,))
      res[form] = safe(go)
    out[name] = res
  return out


def run(payload):
  out = []
  for c in payload['cases']:
    leaves = c['leaves']
    state = nnx.State.from_flat_path({tuple(l['path']): mk_leaf(l) for l in leaves})
    kind = c.get('container', 'dict')
    if kind != 'dict':
      # the same leaves, the nested levels held in another Mapping type (State copies only its top level)
      import collections, types
      from flax.core import FrozenDict
      conv = {'ordered': collections.OrderedDict, 'frozen': FrozenDict, 'proxy': lambda d: types.MappingProxyType(dict(d))}[kind]
      def rebuild(d, top):
        d2 = {k: (rebuild(v, False) if isinstance(v, dict) else v) for k, v in d.items()}
        return d2 if top else conv(d2)
      state = nnx.State(rebuild(nnx.to_pure_dict(state, extract_fn=lambda x: x) if False else _nested(leaves), True))
    flat = nnx.to_flat_state(state)
    if not all(isinstance(v, variablelib.VariableState) for _, v in flat):
      # a nested level was not descended into: a whole sub-mapping is handed to the filters as one pseudo-leaf
      out.append({'flat_err': 'to_flat_state yields %d entries for %d leaves; non-leaf entries: %s' % (
          len(flat), len(leaves), [list(map(str, p)) for p, v in flat if not isinstance(v, variablelib.VariableState)][:3])})
      continue
    o = {'order': [int(v.value) for _, v in flat]}
    # single-predicate evaluation on every leaf
    def preds():
      ps = [filterlib.to_predicate(dec(f)) for f in c['filters']]
      return [[bool(p(path, v)) for path, v in flat] for p in ps]
    o['denote'] = safe(preds)
    fs = [dec(f) for f in c['filters']]
    if fs:
      o['filter_state'] = safe(lambda: [ids_of_state(s) for s in as_tuple(nnx.filter_state(state, *fs))])
      o['State.filter'] = safe(lambda: [ids_of_state(s) for s in as_tuple(state.filter(*fs))])
      o['split_state'] = safe(lambda: [ids_of_state(s) for s in as_tuple(nnx.split_state(state, *fs))])
      o['State.split'] = safe(lambda: [ids_of_state(s) for s in as_tuple(state.split(*fs))])
      o['split_flat_state'] = safe(lambda: [[int(v.value) for _, v in b]
                                            for b in variablelib.split_flat_state(flat, tuple(fs))])
      o['_split_state'] = safe(lambda: [[int(v.value) for _, v in b] for b in statelib._split_state(flat, *fs)])
      if c.get('module'):
        m = build_module(leaves)
        def gsplit():
          g, *ss = nnx.split(m, *fs)
          return [ids_of_state(s) for s in ss]
        o['nnx.split'] = safe(gsplit)
        o['nnx.state'] = safe(lambda: [ids_of_state(s) for s in as_tuple(nnx.state(m, *fs))])
    out.append(o)
  if payload.get('entry_points'):
    out.append({'entry_points': entry_points()})
  return out
