"""C01 -- Linen init/apply purity and the mutability contract."""
import common
import linen_prog as LP
from common import cN, cZ, cnat, cbool, clist, copt, cpair

PROOF_FILES = ['Proofs/Linen.v', 'Proofs/LinenInit.v', 'Proofs/LinenSow.v']
ASSUMPTIONS = [
    'module programs are compact-style trees of modules (params, variables, put_variable, sow, perturb, make_rng, sub-modules created inline, instances called repeatedly, '
    'classes instantiated several times); setup-style modules, bind/unbind and methods other than __call__ are not in the program grammar (reported as uncovered)',
    'values are 1-D int64 arrays, initialisers are constants; object identity of inputs is checked by oracle on the implementation, not modelled',
]
HEADER = 'From Flaxm Require Import Lib.Harness Model.Filters Model.Linen.\n'
ERRS = ['ENameInUse', 'EDuplicateName', 'EModifyScope', 'EParamNotFound', 'ECollectionNotFound', 'EVariableNotFound', 'EParamShape', 'EInvalidRng', 'EPerturbMissing']


def py_in_filter(f, c):
  if isinstance(f, bool):
    return f
  if isinstance(f, str):
    return f == c
  if isinstance(f, list):
    return c in f
  return not py_in_filter(f['deny'], c)


def cexp(r, with_vars):
  if 'err' in r:
    e = r['err'] if r['err'] in ERRS else 'EOther'
    return '(XErr %s)' % e
  v = r.get('vars')
  return '(XOk %s %s)' % (LP.cvec(r['out']), copt(None if (v is None or not with_vars) else LP.cvtree(v)))


CHK = '''
Inductive exp := XOk (out : vec) (vars : option vtree) | XErr (e : lerr).
Definition lerr_beq (a b : lerr) : bool :=
  match a, b with
  | ENameInUse, ENameInUse | EDuplicateName, EDuplicateName | EModifyScope, EModifyScope | EParamNotFound, EParamNotFound
  | ECollectionNotFound, ECollectionNotFound | EVariableNotFound, EVariableNotFound | EParamShape, EParamShape
  | EInvalidRng, EInvalidRng | EPerturbMissing, EPerturbMissing | EOther, EOther => true
  | _, _ => false end.
Definition agree (ev : env) (top : N) (vars : vtree) (x : vec) (e : exp) : bool :=
  match apply_m ev top vars x, e with
  | Ok (y, s), XOk o (Some v) => vec_beq y o && vtree_eqv (returned ev (s_vars s)) v
  | Ok (y, s), XOk o None => vec_beq y o
  | Err a, XErr b => lerr_beq a b
  | _, _ => false
  end.
'''


def run(chk):
  rng = chk.rng
  thorough = chk.tier == 'thorough'
  chk.proofs(PROOF_FILES)
  cases = []
  for i in range(5000 if thorough else 330):
    n = rng.choice([1, 2, 3])
    prog = LP.gen_program(rng, n, max_depth=rng.choice([1, 2, 3, 4] if thorough else [1, 2, 3]), malformed=0.08 if i % 5 == 0 else 0.0,
                           name_pool=['w', 'inner', 'h'] if i % 15 == 0 else None, input_shaped=0.3 if i % 4 == 1 else 0.0)
    streams = rng.choice([['params'], ['params', 'dropout'], ['params', 'dropout', 'noise'], ['dropout'], []])
    cases.append({'prog': prog, 'x': [rng.randint(-3, 3) for _ in range(n)], 'streams': streams, 'mutable': LP.gen_filter(rng),
                  'repeat': rng.choice([1, 2, 3]), 'frozen': rng.random() < 0.3, 'ordered': rng.random() < 0.25,
                  'drop_col': rng.choice([None, None, None, 'params', 'batch_stats', 'cache', 'perturbations']),
                  'empty_col': rng.choice([None, None, 'batch_stats', 'cache', 'counter', 'count', 'stats'])})
  W = 14
  results = common.run_impl_parallel('impl_c01.py', [{'cases': cases[i::W]} for i in range(W)], workers=W, timeout=3000)
  obs = [None] * len(cases)
  for k, r in enumerate(results):
    for j, o in enumerate(r['cases']):
      obs[k + W * j] = o
  coq = []
  stats = {'init_err': 0, 'apply_err': 0, 'apply_ok': 0}
  for c, o in zip(cases, obs):
    if 'err' in o:
      chk.violation('oracle', 'the module program could not be run: %s' % o['err'], {'case': c, 'tb': o.get('tb')})
      continue
    r = o['ok']
    writes = any(s[0] in ('varset', 'sow', 'perturb') for body, _ in c['prog']['classes'].values() for s in body)
    chk.count(c, writes and c['mutable'] is not True)
    init = r['init']
    env_init = LP.cenv(c['prog'], {'deny': 'intermediates'}, c['streams'])
    top = cN(c['prog']['top'])
    x = LP.cvec(c['x'])
    row_init = '(agree %s %s [] %s %s)' % (env_init, top, x, cexp(init, True))
    if 'err' in init:
      stats['init_err'] += 1
      coq.append((c, o, row_init))
      continue
    for what, res in (('init', init), ('apply', r['apply'])):
      if 'err' not in res and res.get('dtypes') not in (None, [], ['int64']):
        chk.violation('oracle', 'a program that computes in int64 throughout returned %s from %s: an observation feature (perturb / sow) or the variable handling changed the dtype of the '
                      'primary output or of a variable' % (res.get('dtypes'), what), {'case': c})
    if not r['init_vars_only_equal']:
      chk.violation('oracle', 'Module.init and init_with_output return different variables', {'case': c})
    ap = r['apply']
    stats['apply_err' if 'err' in ap else 'apply_ok'] += 1
    # ---- oracles
    if not r['inputs_untouched']:
      chk.violation('oracle', 'Module.apply changed one of its inputs (variables, module object, rng keys or arguments)', {'case': c})
    if not r['repeat_equal'] or r.get('after_capture_equal') is False:
      chk.violation('oracle', 'repeating apply with the same inputs gave a different result', {'case': c})
    if r.get('mutable_untouched') is False:
      chk.violation('oracle', 'Module.apply changed the `mutable` argument it was given (a list filter)', {'case': c})
    if r.get('inputs_untouched_at_end') is False:
      chk.violation('oracle', 'Module.apply (with capture_intermediates or observation collections) changed one of its inputs', {'case': c})
    if r.get('no_shared_dicts') is False:
      chk.violation('oracle', 'the returned variable tree shares a dict object with the variables passed in', {'case': c})
    if 'err' not in ap and ap['vars'] is not None:
      vin = r['apply_vars_in']
      for col in ap['vars']:
        if not py_in_filter(c['mutable'], col):
          chk.violation('oracle', 'apply returned a collection that is not selected by `mutable`', {'case': c, 'collection': col})
      for col in vin:
        if py_in_filter(c['mutable'], col) and col not in ap['vars']:
          chk.violation('oracle', 'an existing collection selected by `mutable` is missing from the returned variables', {'case': c, 'collection': col})
    if 'observation' in r:
      for k, v in r['observation'].items():
        if v != r['base_out']:
          chk.violation('oracle', 'an observation feature (%s) changed the primary output' % k, {'case': c, 'base': r['base_out'], 'with_feature': v})
    cn = r.get('capture_native')
    if cn is not None and (cn['err'] or not cn['out_same'] or not cn['state_same']):
      chk.violation('oracle', 'apply(..., capture_intermediates=True) with the caller\'s own `mutable` (%s) raised, changed the primary output, or returned other collections / values besides '
                    '\'intermediates\' than the same apply without it' % (c['mutable'],), {'case': c, 'observed': cn})
    env_ap = LP.cenv(c['prog'], c['mutable'], c['streams'])
    row_ap = '(agree %s %s %s %s %s)' % (env_ap, top, LP.cvtree(r['apply_vars_in']), x, cexp(ap, c['mutable'] is not False))
    coq.append((c, o, '(%s && %s)' % (row_init, row_ap)))
  chk.sample({'case': cases[1], 'observed': {k: v for k, v in obs[1].get('ok', {}).items() if k in ('init', 'apply')}})
  hdr = HEADER + CHK + 'Definition chk (b : bool) : bool := b.\n'
  bad = common.coq_mismatches('c01', hdr, [x[2] for x in coq], 'chk', shard=40, timeout=900)
  for i in bad[:8]:
    c, o, _ = coq[i]
    chk.violation('correspondence', 'Model/Linen.v and flax.linen disagree on init or apply of a module program (output, returned collections, or error class); '
                  'theorems C01_* no longer transfer', {'case': c, 'observed': {k: v for k, v in o['ok'].items() if k in ('init', 'apply', 'apply_vars_in')}})
  chk.cov['traces_validated_against_impl'] = len(coq)
  chk.notes['outcomes'] = stats
  # init / apply on bound instances and with bound modules in dataclass fields
  bc = [{'count': cnt, 'w': rng.randint(2, 5), 'x': rng.randint(1, 4), 'inner_calls': ic} for cnt in (False, True) for ic in (1, 2)]
  for c, o in zip(bc, common.run_impl('impl_c01.py', {'bound': bc}, timeout=900)['bound']):
    chk.count({'bound_modules': c}, True)
    if 'err' in o:
      chk.violation('oracle', 'init / apply on a bound module (or with a bound module in a field) raised: %s' % o['err'], {'case': c, 'tb': o.get('tb')})
    elif not all(o['ok'].values()):
      chk.violation('oracle', 'init / apply depend on, or change, a pre-existing binding of the module passed in: %s' % ', '.join(k for k, v in o['ok'].items() if not v),
                    {'case': c, 'observed': o['ok']})
  # dict-valued variables whose first value is an argument of init (F33)
  dv = [{'depth': d, 'writes': w, 'child': ch, 'val': rng.randint(0, 5)} for d in (0, 1, 2) for w in (1, 2) for ch in (False, True)]
  for c, o in zip(dv, common.run_impl('impl_c01.py', {'dict_valued': dv}, timeout=900)['dict_valued']):
    chk.count({'dict_valued_variable': c}, True)
    if 'err' in o:
      chk.violation('oracle', 'a module with a dict-valued variable could not be initialised / applied: %s' % o['err'], {'case': c, 'tb': o.get('tb')})
    elif not all(o['ok'].values()):
      chk.violation('oracle', 'init / apply of a module whose variable holds a (nested) dict first taken from an argument: %s' % ', '.join(
          {'arg_after_init': 'init changed its argument', 'init_repeatable': 'a second init on the same argument gives another output', 'init_value': 'init output is not the documented value',
           'vars_after_apply': 'apply changed the variables or the argument it was given', 'apply_repeatable': 'a second apply on the same variables gives another output',
           'apply_value': 'apply does not continue from the variables of init'}[k] for k, v in o['ok'].items() if not v), {'case': c, 'observed': o['ok']})
  chk.cov['rule'] = ('random compact module programs (depth <= %d: params, variables, put_variable, sow, perturb, make_rng, inline sub-modules with explicit/automatic names, instances '
                     'called again, classes instantiated twice; 8%% malformed names in every fifth program) x mutable in {False, True, name, list, DenyList(name/list), nested DenyList} x rng '
                     'stream sets x 1-3 repeated calls x dict/FrozenDict variables x a dropped collection; init then apply. non-trivial = the program writes a collection and '
                     'mutable is not True; distinct by canonical JSON hash' % (4 if thorough else 3))
  chk.cov['trusted_base'] = ['Coq 8.16.1 kernel + vm_compute', 'harness/c01.py, linen_prog.py, impl_linen.py, impl_c01.py', 'harness/jaxcompat.py']
