"""Implementation side of C05: module programs with lifted jit / remat / map_variables children and nn.cond / switch /
while_loop statements, against the same program run as plain code."""
import impl_linen as L
import common
import jax
import jax.numpy as jnp
import numpy as np


def strip_trace(tr):
  return [e for e in tr]


def run_case(c, pid):
  prog = c['prog']
  out = {}
  x0 = jnp.asarray(np.array(c['xs'][0], dtype=np.int64))
  res = {}
  L.TRACE_TRACED[0] = True
  for mode in ('lifted', 'plain'):
    L.LIFT[0] = mode == 'lifted'
    m = L.top_module(prog, pid, c['sels'][0])
    ini = L.run_init(m, x0, c['streams'])
    r = {'init': {k: v for k, v in ini.items() if k not in ('raw',)}}
    if 'err' not in ini:
      variables = ini['raw']
      calls = []
      for x, mut, sel in zip(c['xs'][1:], c['mutables'], c['sels'][1:]):
        m = L.top_module(prog, pid, sel)       # a new instance with other static attributes: a jitted child must not re-use the trace made for the old ones
        xa = jnp.asarray(np.array(x, dtype=np.int64))
        vin = L.canon_vars(variables)
        a = L.run_apply(m, variables, xa, c['streams'], L.dec_filter(mut))
        calls.append({'vars_in': vin, 'res': a})
        if 'err' in a:
          break
        if a['vars'] is not None:
          import flax
          variables = {**flax.core.unfreeze(variables), **L.build_vars(a['vars'])}
        if c.get('drop_after_first') and len(calls) == 1 and c['drop_after_first'] in variables:
          variables = {k: v for k, v in variables.items() if k != c['drop_after_first']}      # the structure of the variables changes between calls
      r['calls'] = calls
    res[mode] = r
  L.LIFT[0] = True
  L.TRACE_TRACED[0] = False
  return res


def probe():
  """F26: a jitted module class whose instances differ only in a closure-valued attribute"""
  import random
  import flax.linen as nn
  from typing import Callable

  class Inner(nn.Module):
    f: Callable

    @nn.compact
    def __call__(self, x):
      return self.f(x)
  JInner = nn.jit(Inner)

  def make(k):
    def post(y):
      return y * k
    return post

  class Outer(nn.Module):
    f: Callable

    @nn.compact
    def __call__(self, x):
      return JInner(self.f)(x)
  rng = random.Random(0)
  bad = []
  for i in range(120):
    k = rng.choice([1, -1, 2, 3])
    f = make(k)
    y = float(Outer(f).apply({}, jnp.asarray(1.0)))
    del f
    if y != float(k):
      bad.append([i, k, y])
  # nn.while_loop / nn.cond / nn.switch: what the condition / an untaken branch may not do
  class Loop(nn.Module):
    cond_writes: bool = False

    @nn.compact
    def __call__(self, x):
      self.variable('state', 'acc', lambda: jnp.array(0, jnp.int32))
      self.variable('state', 'n_cond', lambda: jnp.array(0, jnp.int32))
      cw = self.cond_writes

      def cond_fn(mdl, c):
        if cw:
          mdl.put_variable('state', 'n_cond', mdl.get_variable('state', 'n_cond') + 1)
        return mdl.get_variable('state', 'acc') < 3

      def body_fn(mdl, c):
        mdl.put_variable('state', 'acc', mdl.get_variable('state', 'acc') + 1)
        return c * 2.0 + 1.0
      return nn.while_loop(cond_fn, body_fn, self, x, carry_variables='state')
  v0 = {'state': {'acc': jnp.array(0, jnp.int32), 'n_cond': jnp.array(0, jnp.int32)}}
  loop = {}
  try:
    y, upd = Loop(False).apply(v0, jnp.asarray(1.0), mutable=['state'])
    loop['plain'] = {'y': float(y), 'acc': int(upd['state']['acc']), 'n_cond': int(upd['state']['n_cond'])}
  except Exception as e:  # pylint: disable=broad-except
    loop['plain'] = {'err': type(e).__name__}
  try:
    y, upd = Loop(True).apply(v0, jnp.asarray(1.0), mutable=['state'])
    loop['cond_writes'] = {'y': float(y), 'acc': int(upd['state']['acc']), 'n_cond': int(upd['state']['n_cond'])}
  except Exception as e:  # pylint: disable=broad-except
    loop['cond_writes'] = {'err': type(e).__name__}
  return {'F26-jit-stale-trace-closure': {'fails': bool(bad), 'stale_calls': bad[:5], 'count': len(bad)}, 'while_loop': loop}


def jit_method_family(cases):
  """nn.jit on a METHOD of a setup-style module whose sub-modules are bound before the jitted call and used in plain code
  around it; the keys drawn (before / inside / after, on the first and on later applies = trace and cache hits) must be
  those of the same module without the decorator"""
  import flax.linen as nn
  import numpy as np
  out = []
  for c in cases:
    if c.get('kind') == 'helper':
      # a lifted HELPER METHOD (not __call__) that creates auto-named sub-modules and is called several times from a compact __call__:
      # the variable tree of init and the outputs of repeated applies must be those of the undecorated module
      try:
        def build_h(wrap, c=c):
          class M(nn.Module):
            def helper(self, x):
              for _ in range(c['depth']):
                x = nn.Dense(2, kernel_init=nn.initializers.constant(0.5), bias_init=nn.initializers.constant(0.25))(x) * (1.0 + 0.5 * len(self._state.autoname_cursor))
              return x
            if wrap is not None:
              helper = wrap(helper)

            @nn.compact
            def __call__(self, x):
              for _ in range(c['inside'] + 1):
                x = self.helper(x)
              return nn.Dense(2, kernel_init=nn.initializers.constant(-0.5))(x)
          return M()
        x = jnp.ones((1, 2))
        plain = build_h(None)
        y0, v = plain.init_with_output(jax.random.key(0), x)
        # distinct values per layer, so that sharing a layer is visible in the output
        v = jax.tree_util.tree_map_with_path(lambda kp, a: a + 0.01 * (sum(ord(ch) for ch in str(kp)) % 17), v)
        want = np.asarray(plain.apply(v, x)).tolist()
        res = {}
        for name, wrap in (('jit', nn.jit), ('remat', nn.remat)):
          m = build_h(wrap)
          _, vi = m.init_with_output(jax.random.key(0), x)
          outs = []
          for _ in range(c['applies']):
            try:
              outs.append(np.asarray(m.apply(v, x)).tolist())
            except Exception as e:  # pylint: disable=broad-except
              outs.append('EXC:' + type(e).__name__)
          res[name] = {'names': sorted(vi['params'].keys()), 'outs': outs}
        out.append({'ok': {'helper': res, 'plain_names': sorted(v['params'].keys()), 'want': want}})
      except Exception as e:  # pylint: disable=broad-except
        import traceback
        out.append({'err': type(e).__name__, 'tb': traceback.format_exc()[-600:]})
      continue

    def build_class(use_jit, c=c):
      # a reused nn.jit CLASS whose instance is called several times in one forward pass; its children draw keys
      class Inner(nn.Module):
        @nn.compact
        def __call__(self, x):
          return [jax.random.key_data(self.make_rng('noise')).astype(jnp.int64)]

      class Sub(nn.Module):
        @nn.compact
        def __call__(self, x):
          ks = []
          if c['own']:
            ks.append(jax.random.key_data(self.make_rng('noise')).astype(jnp.int64))
          for _ in range(c['depth']):
            ks = ks + Inner()(x)
          return ks
      JSub = nn.jit(Sub) if use_jit else Sub

      class Top(nn.Module):
        @nn.compact
        def __call__(self, x):
          s = JSub()
          ks = []
          for _ in range(c['inside'] + 1):
            ks = ks + s(x)
          ks.append(jax.random.key_data(self.make_rng('noise')).astype(jnp.int64))
          return ks
      return Top()

    def build(use_jit, c=c):
      if c.get('kind') == 'class':
        return build_class(use_jit)

      class Noise(nn.Module):
        depth: int = 1

        def setup(self):
          if self.depth > 1:
            self.sub = Noise(self.depth - 1)

        def __call__(self, x):
          ks = [jax.random.key_data(self.make_rng('noise')).astype(jnp.int64)]
          if self.depth > 1:
            ks = ks + self.sub(x)
          return ks

      class Net(nn.Module):
        def setup(self):
          self.noise = Noise(c['depth'])

        def part(self, x):
          ks = []
          for _ in range(c['inside']):
            ks = ks + self.noise(x)
          if c['own']:
            ks.append(jax.random.key_data(self.make_rng('noise')).astype(jnp.int64))
          return ks
        if use_jit:
          part = nn.jit(part)

        def __call__(self, x):
          ks = []
          for step in c['seq']:
            ks = ks + (self.noise(x) if step == 'plain' else self.part(x))
          return ks
      return Net()
    try:
      res = {}
      for use_jit in (False, True):
        m = build(use_jit)
        runs = []
        for _ in range(c['applies']):
          ks = m.apply({}, jnp.zeros((2,)), rngs={'noise': jax.random.key(c['seed'])})
          runs.append([[int(a) for a in np.asarray(k).reshape(-1)] for k in ks])
        res['jit' if use_jit else 'plain'] = runs
      # the same nn.jit program evaluated eagerly: what the keys are when no trace is ever re-used
      with jax.disable_jit():
        ks = build(True).apply({}, jnp.zeros((2,)), rngs={'noise': jax.random.key(c['seed'])})
        res['jit_disabled'] = [[int(a) for a in np.asarray(k).reshape(-1)] for k in ks]
      out.append({'ok': res})
    except Exception as e:  # pylint: disable=broad-except
      import traceback
      out.append({'err': type(e).__name__, 'tb': traceback.format_exc()[-600:]})
  return out


def state_family(cases):
  """setup-style modules whose counter (mutable collection) lives `depth` levels below the module that carries the lifted helper method;
  the sub-modules are used in plain code before and after the lifted call, so their scopes are bound before it"""
  import flax.linen as nn
  import numpy as np
  out = []
  for c in cases:
    try:
      class Counter(nn.Module):
        @nn.compact
        def __call__(self, x):
          n = self.variable('state', 'n', lambda: jnp.zeros((), jnp.float32))
          n.value = n.value + 1.0
          return x * n.value + n.value

      def mid_cls(depth):
        if depth == 0:
          return Counter

        class Mid(nn.Module):
          def setup(self):
            self.leaf = mid_cls(depth - 1)()

          def __call__(self, x):
            return self.leaf(x)
        return Mid

      def make(kind, c=c):
        class Top(nn.Module):
          def setup(self):
            self.mid = mid_cls(c['depth'])()

          def helper(self, x):
            return self.mid(x)
          if kind == 'remat':
            helper = nn.remat(helper)
          elif kind == 'jit':
            helper = nn.jit(helper)
          elif kind == 'map_variables':
            helper = nn.map_variables(helper, 'state', mutable=True)

          def __call__(self, x):
            ys = []
            for step in c['seq']:
              if step == 'plain' or kind == 'plain':
                ys.append(self.mid(x))
              elif kind == 'cond':
                ys.append(nn.cond(True, lambda m, x: m.mid(x), lambda m, x: m.mid(x) * 0.0, self, x))
              elif kind == 'switch':
                ys.append(nn.switch(1, [lambda m, x: m.mid(x) * 0.0, lambda m, x: m.mid(x)], self, x))
              else:
                ys.append(self.helper(x))
            return ys
        return Top()
      x = jnp.arange(3, dtype=jnp.float32)
      v0 = make('plain').init(jax.random.key(0), x)
      res = {}
      for kind in ('plain', 'remat', 'jit', 'map_variables', 'cond', 'switch'):
        try:
          ys, st = make(kind).apply(v0, x, mutable=['state'])
          res[kind] = {'ys': [np.asarray(y).tolist() for y in ys], 'state': [float(l) for l in jax.tree_util.tree_leaves(st)],
                       'paths': sorted('/'.join(str(getattr(k, 'key', k)) for k in kp) for kp, _ in jax.tree_util.tree_flatten_with_path(st)[0])}
        except Exception as e:  # pylint: disable=broad-except
          res[kind] = {'err': type(e).__name__, 'msg': str(e)[:160]}
      out.append({'ok': res})
    except Exception as e:  # pylint: disable=broad-except
      import traceback
      out.append({'err': type(e).__name__, 'tb': traceback.format_exc()[-600:]})
  return out


def main(payload):
  if payload.get('probe'):
    return probe()
  if payload.get('state_methods') is not None:
    return {'state_methods': state_family(payload['state_methods'])}
  if payload.get('jit_methods') is not None:
    return {'jit_methods': jit_method_family(payload['jit_methods'])}
  res = []
  for i, c in enumerate(payload['cases']):
    try:
      res.append({'ok': run_case(c, i)})
    except Exception as e:  # pylint: disable=broad-except
      import traceback
      res.append({'err': type(e).__name__, 'tb': traceback.format_exc()[-800:]})
  return {'cases': res}


if __name__ == '__main__':
  common.worker_main(main)
