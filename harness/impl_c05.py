"""Implementation side of C05: module programs with lifted jit / remat / map_variables children and nn.cond / switch /
while_loop statements, against the same program run as plain code."""
import impl_linen as L
import common
import jax
import jax.numpy as jnp
import numpy as np


def strip_trace(tr):
  return [e for e in tr]


def run_case(c, pid):
  prog = c['prog']
  out = {}
  x0 = jnp.asarray(np.array(c['xs'][0], dtype=np.int64))
  res = {}
  L.TRACE_TRACED[0] = True
  for mode in ('lifted', 'plain'):
    L.LIFT[0] = mode == 'lifted'
    m = L.top_module(prog, pid, c['sels'][0])
    ini = L.run_init(m, x0, c['streams'])
    r = {'init': {k: v for k, v in ini.items() if k not in ('raw',)}}
    if 'err' not in ini:
      variables = ini['raw']
      calls = []
      for x, mut, sel in zip(c['xs'][1:], c['mutables'], c['sels'][1:]):
        m = L.top_module(prog, pid, sel)       # a new instance with other static attributes: a jitted child must not re-use the trace made for the old ones
        xa = jnp.asarray(np.array(x, dtype=np.int64))
        vin = L.canon_vars(variables)
        a = L.run_apply(m, variables, xa, c['streams'], L.dec_filter(mut))
        calls.append({'vars_in': vin, 'res': a})
        if 'err' in a:
          break
        if a['vars'] is not None:
          import flax
          variables = {**flax.core.unfreeze(variables), **L.build_vars(a['vars'])}
        if c.get('drop_after_first') and len(calls) == 1 and c['drop_after_first'] in variables:
          variables = {k: v for k, v in variables.items() if k != c['drop_after_first']}      # the structure of the variables changes between calls
      r['calls'] = calls
    res[mode] = r
  L.LIFT[0] = True
  L.TRACE_TRACED[0] = False
  return res


def probe():
  """F26: a jitted module class whose instances differ only in a closure-valued attribute"""
  import random
  import flax.linen as nn
  from typing import Callable

  class Inner(nn.Module):
    f: Callable

    @nn.compact
    def __call__(self, x):
      return self.f(x)
  JInner = nn.jit(Inner)

  def make(k):
    def post(y):
      return y * k
    return post

  class Outer(nn.Module):
    f: Callable

    @nn.compact
    def __call__(self, x):
      return JInner(self.f)(x)
  rng = random.Random(0)
  bad = []
  for i in range(120):
    k = rng.choice([1, -1, 2, 3])
    f = make(k)
    y = float(Outer(f).apply({}, jnp.asarray(1.0)))
    del f
    if y != float(k):
      bad.append([i, k, y])
  return {'F26-jit-stale-trace-closure': {'fails': bool(bad), 'stale_calls': bad[:5], 'count': len(bad)}}


def main(payload):
  if payload.get('probe'):
    return probe()
  res = []
  for i, c in enumerate(payload['cases']):
    try:
      res.append({'ok': run_case(c, i)})
    except Exception as e:  # pylint: disable=broad-except
      import traceback
      res.append({'err': type(e).__name__, 'tb': traceback.format_exc()[-800:]})
  return {'cases': res}


if __name__ == '__main__':
  common.worker_main(main)
