"""Implementation side of C07: nn.vjp / nn.jvp / nn.grad / nn.value_and_grad / nn.custom_vjp around a polynomial Linen module,
against jax.vjp / jvp / grad of the pure function (variables, inputs) -> module.apply(variables, inputs)."""
import jaxcompat  # noqa: F401
import warnings
warnings.filterwarnings('ignore')
import common
import jax
import jax.numpy as jnp
import numpy as np
import flax
import flax.linen as nn

DESCS = {}


def dec_filter(f):
  if isinstance(f, (bool, str, list)):
    return f
  return nn.DenyList(dec_filter(f['deny']))


def ev(vals, e):
  k = e[0]
  if k == 'const':
    return float(e[1])
  if k == 'var':
    return vals[e[1]]
  a, b = ev(vals, e[1]), ev(vals, e[2])
  return a + b if k == 'add' else a * b


class Poly(nn.Module):
  did: int = 0

  @nn.compact
  def __call__(self, *xs):
    d = DESCS[self.did]
    vs = []
    for i, v in enumerate(d['vars']):
      init = lambda v=v: jnp.asarray(float(v['val']))
      if v['col'] == 'params':
        vs.append(('p', self.param(v['name'], lambda k, v=v: jnp.asarray(float(v['val'])))))
      else:
        vs.append(('v', self.variable(v['col'], v['name'], init)))
    for i in d['bumps']:
      kind, var = vs[i]
      if kind == 'v' and self.is_mutable_collection(d['vars'][i]['col']):
        var.value = var.value + 1.0
    vals = [var if kind == 'p' else var.value for kind, var in vs] + list(xs)
    y = jnp.asarray(ev(vals, d['poly']), dtype=jnp.float64)
    if d.get('has_aux'):
      return y, vals[0] * 2.0
    return y


def tree_of(d, leaf_fn):
  out = {}
  for i, v in enumerate(d['vars']):
    out.setdefault(v['col'], {})[v['name']] = leaf_fn(i, v)
  return out


def flat(d, tree, prefix=()):
  """{col: {name: val}} (possibly with a leading 'p') -> [[var index, value]] in variable order"""
  res = []
  for i, v in enumerate(d['vars']):
    t = tree
    for k in prefix + (v['col'], v['name']):
      if not isinstance(t, (dict, flax.core.FrozenDict)) or k not in t:
        t = None
        break
      t = t[k]
    if t is not None:
      res.append([i, float(t)])
  return res


def diff_call(d, p, xs, ct, tvars, tins, nest=()):
  """one call of the differentiated module p under the lifted transform the case names"""
  fn = lambda m, *a: m(*a)
  kind = d['kind']
  vf = dec_filter(d['filter'])
  if kind == 'vjp':
    if d.get('has_aux'):
      y, bwd, aux = nn.vjp(fn, p, *xs, vjp_variables=vf, has_aux=True)
    else:
      y, bwd = nn.vjp(fn, p, *xs, vjp_variables=vf)
      aux = None
    vg, *ig = bwd(ct)
    return {'y': y, 'vg': vg, 'ig': ig, 'aux': aux}
  if kind == 'jvp':
    tv = {}
    for i, t in tvars:
      v = d['vars'][i]
      node = tv.setdefault(v['col'], {})
      for k in nest:
        node = node.setdefault(k, {})
      node[v['name']] = t
    y, t = nn.jvp(fn, p, tuple(xs), tuple(tins), tv)
    return {'y': y, 't': t}
  if kind == 'grad':
    g = nn.grad(fn, p, *xs, has_aux=bool(d.get('has_aux')))
    if d.get('has_aux'):
      g, aux = g
      return {'ig': list(g) if isinstance(g, tuple) else [g], 'aux': aux}
    return {'ig': list(g) if isinstance(g, tuple) else [g]}
  if kind == 'value_and_grad':
    out, g = nn.value_and_grad(fn, p, *xs, has_aux=bool(d.get('has_aux')))
    y, aux = (out if d.get('has_aux') else (out, None))
    return {'y': y, 'ig': list(g) if isinstance(g, tuple) else [g], 'aux': aux}
  if kind == 'custom_vjp':
    # backward rule: twice the true cotangents for the inputs, three times for the variables
    def f(m, *a):
      return m(*a)

    def fwd(m, *a):
      return nn.vjp(f, m, *a, vjp_variables=vf)

    def bwd(vjp_fn, ct):
      vg, *ig = vjp_fn(ct)
      return (jax.tree_util.tree_map(lambda g: 3.0 * g, vg), *[2.0 * g for g in ig])
    cf = nn.custom_vjp(f, forward_fn=fwd, backward_fn=bwd, grad_vars=vf)
    y = cf(p, *xs)
    return {'y': y}
  raise ValueError(kind)


class Top(nn.Module):
  did: int = 0

  @nn.compact
  def __call__(self, xs, ct, tvars, tins):
    return diff_call(DESCS[self.did], Poly(self.did, name='p'), xs, ct, tvars, tins)


class Inner(nn.Module):
  did: int = 0
  depth: int = 1          # how many setup-defined levels sit between this module and the polynomial module holding the variables

  def setup(self):
    self.p = Poly(self.did) if self.depth <= 1 else Inner(self.did, self.depth - 1)

  def __call__(self, *xs):
    return self.p(*xs)


class Outer(nn.Module):
  """a history of calls on one sub-module bound in setup (its scope, and the scope of its own sub-module, live across the calls):
  direct calls and differentiated calls in the order the case gives"""
  did: int = 0

  def setup(self):
    self.inner = Inner(self.did, DESCS[self.did].get('hdepth', 1))

  def __call__(self, xs, ct, tvars, tins):
    d = DESCS[self.did]
    ys = []
    for s in d['seq']:
      if s == 'direct':
        o = self.inner(*xs)
        ys.append(o[0] if d.get('has_aux') else o)
      else:
        ys.append(diff_call(d, self.inner, xs, ct, tvars, tins, nest=('p',) * d.get('hdepth', 1)).get('y'))
    return ys


def to_py(x):
  return jax.tree_util.tree_map(lambda a: float(a), x)


def run_case(d, did):
  DESCS[did] = d
  nin = d['nin']
  xs = tuple(jnp.asarray(float(v)) for v in d['xs'])
  ct = jnp.asarray(float(d['ct']))
  tvars = [(i, jnp.asarray(float(t))) for i, t in d['tvars']]
  tins = tuple(jnp.asarray(float(t)) for t in d['tins'])
  variables = {}
  for v in d['vars']:
    variables.setdefault(v['col'], {}).setdefault('p', {})[v['name']] = jnp.asarray(float(v['val']))
  mutable = ['counter']
  out = {}

  def impl():
    r, upd = Top(did).apply(variables, xs, ct, tvars, tins, mutable=mutable)
    res = {}
    if 'y' in r:
      res['y'] = float(r['y'])
    if 'vg' in r:
      res['vg'] = flat(d, r['vg'])
      res['vg_cols'] = sorted(r['vg'].keys())
    if 'ig' in r:
      res['ig'] = [float(g) for g in r['ig']]
    if 't' in r:
      res['t'] = float(r['t'])
    if r.get('aux') is not None:
      res['aux'] = float(r['aux'])
    after = {**variables, **flax.core.unfreeze(upd)}
    res['vars_after'] = [float(after[v['col']]['p'][v['name']]) for v in d['vars']]
    return res

  def ref():
    # the pure function (variables, inputs) -> Poly.apply
    def pure(vars_, *a):
      return Poly(did).apply({c: t['p'] for c, t in vars_.items()}, *a, mutable=mutable)
    (o, upd) = pure(variables, *xs)
    y = o[0] if d.get('has_aux') else o
    aux = o[1] if d.get('has_aux') else None
    res = {}
    sel_cols = [c for c in variables if flax.core.scope.in_filter(dec_filter(d['filter']), c)]
    f0 = lambda vars_, *a: (lambda o2: o2[0] if d.get('has_aux') else o2)(pure(vars_, *a)[0])
    kind = d['kind']
    if kind in ('vjp', 'custom_vjp'):
      def fsel(sel, *a):
        return f0({**variables, **sel}, *a)
      yy, bwd = jax.vjp(fsel, {c: variables[c] for c in sel_cols}, *xs)
      vg, *ig = bwd(ct)
      res['y'] = float(yy)
      if kind == 'vjp':
        res['vg'] = flat(d, vg, prefix=()) if False else [[i, float(vg[v['col']]['p'][v['name']])] for i, v in enumerate(d['vars']) if v['col'] in sel_cols]
        res['vg_cols'] = sorted(sel_cols)
        res['ig'] = [float(g) for g in ig]
    elif kind == 'jvp':
      tv = jax.tree_util.tree_map(jnp.zeros_like, variables)
      for i, t in tvars:
        v = d['vars'][i]
        tv[v['col']]['p'][v['name']] = t
      yy, t = jax.jvp(f0, (variables, *xs), (tv, *tins))
      res['y'], res['t'] = float(yy), float(t)
    else:
      g = jax.grad(lambda *a: f0(variables, *a), argnums=tuple(range(nin)))(*xs)
      res['ig'] = [float(z) for z in g]
      if kind == 'value_and_grad':
        res['y'] = float(y)
    if aux is not None and kind != 'custom_vjp' and kind != 'jvp':
      res['aux'] = float(aux)
    after = {**variables, **{c: {'p': t} for c, t in flax.core.unfreeze(upd).items()}}
    res['vars_after'] = [float(after[v['col']]['p'][v['name']]) for v in d['vars']]
    return res

  def safe(fn):
    try:
      return {'ok': fn()}
    except Exception as e:  # pylint: disable=broad-except
      import traceback
      return {'err': type(e).__name__, 'msg': str(e)[:200], 'tb': traceback.format_exc()[-500:]}
  out['impl'] = safe(impl)
  out['ref'] = safe(ref)

  def hist_impl():
    hd = d.get('hdepth', 1)
    def wrap(t):
      t = t['p']
      for _ in range(hd):
        t = {'p': t}
      return {'inner': t}
    vars2 = {c: wrap(t) for c, t in variables.items()}
    ys, upd = Outer(did).apply(vars2, xs, ct, tvars, tins, mutable=mutable)
    after = {**vars2, **flax.core.unfreeze(upd)}
    def leaf(col, name):
      t = after[col]['inner']
      for _ in range(hd):
        t = t['p']
      return float(t[name])
    return {'ys': [None if y is None else float(y) for y in ys], 'vars_after': [leaf(v['col'], v['name']) for v in d['vars']]}

  def hist_ref():
    cur = {c: t['p'] for c, t in variables.items()}
    ys = []
    for s in d['seq']:
      o, upd = Poly(did).apply(cur, *xs, mutable=mutable)
      cur = {**cur, **flax.core.unfreeze(upd)}
      y = o[0] if d.get('has_aux') else o
      ys.append(None if (s == 'diff' and d['kind'] == 'grad') else float(y))
    return {'ys': ys, 'vars_after': [float(cur[v['col']][v['name']]) for v in d['vars']]}
  if d.get('seq'):
    out['hist_impl'] = safe(hist_impl)
    out['hist_ref'] = safe(hist_ref)
  if d['kind'] == 'custom_vjp':
    # differentiate THROUGH the custom_vjp module from outside: the user's rule must be used (x2 for inputs, x3 for variables)
    sel_cols = [c for c in variables if flax.core.scope.in_filter(dec_filter(d['filter']), c)]

    def through(sel, *a):
      r = Top(did).apply({**variables, **sel}, a, ct, [], ())
      return r['y']

    def g():
      vg, *ig = jax.grad(through, argnums=tuple(range(nin + 1)))({c: variables[c] for c in sel_cols}, *xs)
      return {'vg': [[i, float(vg[v['col']]['p'][v['name']])] for i, v in enumerate(d['vars']) if v['col'] in sel_cols], 'ig': [float(z) for z in ig]}
    out['through'] = safe(g)

    def g_ref():
      # the user's rule applied to the true cotangents of the pure function: x3 for the selected variables, x2 for the inputs
      def fsel(sel, *a):
        o = Poly(did).apply({c: t['p'] for c, t in {**variables, **sel}.items()}, *a, mutable=mutable)[0]
        return o[0] if d.get('has_aux') else o
      vg, *ig = jax.grad(fsel, argnums=tuple(range(nin + 1)))({c: variables[c] for c in sel_cols}, *xs)
      return {'vg': [[i, 3.0 * float(vg[v['col']]['p'][v['name']])] for i, v in enumerate(d['vars']) if v['col'] in sel_cols], 'ig': [2.0 * float(z) for z in ig]}
    out['through_ref'] = safe(g_ref)
  return out


def multi_scope(c):
  """lift.vjp over a dict / tuple of scopes sitting at different depths of the scope tree, each holding a parameter of the same name and shape:
  every scope gets the cotangent of ITS parameter. c: depths (per scope), vals, x, ct, as_tuple"""
  from flax.core import apply as core_apply, lift
  n = len(c['depths'])
  x, ct = jnp.asarray(float(c['x'])), jnp.asarray(float(c['ct']))
  names = ['s%d' % i for i in range(n)]

  def poly(ws, x):
    # asymmetric in the scopes: w_i enters with weight (i + 2) and power (i + 1)
    return sum((i + 2.0) * (w ** (i + 1)) for i, w in enumerate(ws)) * x + x * x

  def path_of(i):
    return ['lvl%d_%d' % (i, k) for k in range(c['depths'][i] - 1)] + [names[i]]

  def body(scopes, x):
    seq = [scopes[nm] for nm in names] if not c['as_tuple'] else list(scopes)
    ws = [sc.param('w', lambda key: jnp.asarray(0.0)) for sc in seq]
    return poly(ws, x)

  def top(scope, x, ct):
    scs = []
    for i in range(n):
      sc = scope
      for part in path_of(i):
        sc = sc.push(part)
      scs.append(sc)
    arg = tuple(scs) if c['as_tuple'] else dict(zip(names, scs))
    y, bwd = lift.vjp(body, arg, x)
    vg, xg = bwd(ct)
    return y, vg, xg
  variables = {'params': {}}
  for i in range(n):
    t = variables['params']
    for part in path_of(i):
      t = t.setdefault(part, {})
    t['w'] = jnp.asarray(float(c['vals'][i]))
  y, vg, xg = core_apply(top)(variables, x, ct)
  ws = [jnp.asarray(float(v)) for v in c['vals']]
  yr, bwdr = jax.vjp(lambda ws, x: poly(ws, x), ws, x)
  wr, xr = bwdr(ct)
  got = [float((vg[i] if c['as_tuple'] else vg[names[i]])['params']['w']) for i in range(n)]
  return {'y': float(y) == float(yr), 'x_grad': float(xg) == float(xr), 'scope_grads': got == [float(g) for g in wr], 'got': got, 'want': [float(g) for g in wr]}


def second_order(c):
  """the lifted gradient differentiated again: a module returns value + |d value / d x|^2 with the input gradient taken by nn.value_and_grad /
  nn.grad(has_aux); jax.grad of apply w.r.t. the parameters and the input, and an enclosing nn.vjp over params, equal those of the pure function"""
  a, b0 = [float(v) for v in c['w']], [float(v) for v in c['b']]

  class Critic(nn.Module):
    @nn.compact
    def __call__(self, x):
      w = self.param('w', lambda k: jnp.asarray(a))
      b = self.param('b', lambda k: jnp.asarray(b0))
      n = self.variable('counter', 'calls', lambda: jnp.zeros((), jnp.int32))
      n.value = n.value + 1
      return jnp.sum((w * x + b) ** 2 * w)

  class Penalty(nn.Module):
    has_aux: bool = False

    @nn.compact
    def __call__(self, x):
      critic = Critic(name='critic')
      if self.has_aux:
        gx, aux = nn.grad(lambda m, x: (m(x), {'twice': 2.0 * x}), critic, x, has_aux=True)
        val = jnp.sum(aux['twice']) * 0.0 + critic(x)
        (gx,) = gx
      else:
        val, (gx,) = nn.value_and_grad(lambda m, x: m(x), critic, x)
      return val + jnp.sum(gx ** 2), gx

  class Wrapped(nn.Module):
    @nn.compact
    def __call__(self, x):
      pen = Penalty(name='pen')
      out, bwd = nn.vjp(lambda m, x: m(x)[0], pen, x, vjp_variables='params')
      params_t, x_t = bwd(jnp.ones_like(out))
      return out, params_t, x_t

  def pure_critic(p, x):
    return jnp.sum((p['w'] * x + p['b']) ** 2 * p['w'])

  def pure_penalty(p, x):
    val, gx = jax.value_and_grad(pure_critic, argnums=1)(p, x)
    return val + jnp.sum(gx ** 2), gx
  x = jnp.asarray([float(v) for v in c['x']])
  cp = {'w': jnp.asarray(a), 'b': jnp.asarray(b0)}
  ref_out, ref_gx = pure_penalty(cp, x)
  ref_p, ref_x = jax.grad(lambda p, x: pure_penalty(p, x)[0], argnums=(0, 1))(cp, x)

  def close(u, v):
    lu, lv = jax.tree_util.tree_leaves(u), jax.tree_util.tree_leaves(v)
    return len(lu) == len(lv) and all(np.allclose(np.asarray(p), np.asarray(q), rtol=1e-9, atol=1e-9) for p, q in zip(lu, lv))
  out = {}
  for has_aux in (False, True):
    mdl = Penalty(has_aux=has_aux)
    variables = mdl.init(jax.random.key(0), x)

    def lifted(p, x, mdl=mdl, variables=variables):
      (o, gx), upd = mdl.apply({'params': {'critic': p}, 'counter': variables['counter']}, x, mutable=['counter'])
      return o, (gx, upd)
    (o, (gx, upd)) = lifted(cp, x)
    gp, gxx = jax.grad(lambda p, x: lifted(p, x)[0], argnums=(0, 1))(cp, x)
    out['aux' if has_aux else 'plain'] = {'value': bool(close(o, ref_out)), 'inner_grad': bool(close(gx, ref_gx)), 'outer_grad_params': bool(close(gp, ref_p)),
                                          'outer_grad_input': bool(close(gxx, ref_x)), 'got_params': [np.asarray(v).tolist() for v in jax.tree_util.tree_leaves(gp)],
                                          'want_params': [np.asarray(v).tolist() for v in jax.tree_util.tree_leaves(ref_p)]}
  wv = Wrapped().init(jax.random.key(0), x)
  (o, pt, xt) = Wrapped().apply({'params': {'pen': {'critic': cp}}, 'counter': wv['counter']}, x, mutable=['counter'])[0]
  out['enclosing_vjp'] = {'value': bool(close(o, ref_out)), 'params_t': bool(close(pt['params']['critic'] if 'params' in pt else pt, ref_p)), 'x_t': bool(close(xt, ref_x))}
  return out


def main(payload):
  if 'second_order' in payload:
    res = []
    for c in payload['second_order']:
      try:
        res.append({'ok': second_order(c)})
      except Exception as e:  # pylint: disable=broad-except
        import traceback
        res.append({'err': type(e).__name__, 'tb': traceback.format_exc()[-800:]})
    return {'second_order': res}
  if 'multi_scope' in payload:
    res = []
    for c in payload['multi_scope']:
      try:
        res.append({'ok': multi_scope(c)})
      except Exception as e:  # pylint: disable=broad-except
        import traceback
        res.append({'err': type(e).__name__, 'tb': traceback.format_exc()[-800:]})
    return {'multi_scope': res}
  res = []
  for i, d in enumerate(payload['cases']):
    try:
      res.append({'ok': run_case(d, i)})
    except Exception as e:  # pylint: disable=broad-except
      import traceback
      res.append({'err': type(e).__name__, 'tb': traceback.format_exc()[-800:]})
  return {'cases': res}


if __name__ == '__main__':
  common.worker_main(main)
