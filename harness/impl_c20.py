"""Implementation side of C20."""
import jaxcompat  # noqa: F401
import warnings
warnings.filterwarnings('ignore')
import itertools
import random
import common
import coop
import jax
import jax.numpy as jnp
import numpy as np
from flax import jax_utils
from flax.training import common_utils, prefetch_iterator


class Boom(Exception):
  pass


def source(items, fail):
  for x in items:
    yield x
  if fail:
    raise Boom('source failed')


# ---------------------------------------------------------------------------------------------
def prefetch_iterator_run(items, fail, size, choices=(), rng=None, ncalls=None):
  sched = coop.Scheduler(choices=choices, rng=rng)
  mod = coop.Module(sched)
  obs = []

  class Src:
    def __init__(self):
      self.it = source(items, fail)

    def __iter__(self):
      return self

    def __next__(self):
      sched.log('next', sched.me().name)
      sched.yield_point()
      return next(self.it)

  def main():
    it = prefetch_iterator.PrefetchIterator(Src(), size)
    for _ in range(ncalls if ncalls is not None else len(items) + 2):
      try:
        obs.append(['item', next(it)])
      except StopIteration:
        obs.append(['stop'])
      except Boom:
        obs.append(['err'])
  saved = prefetch_iterator.threading
  prefetch_iterator.threading = mod
  try:
    sched.run(main)
  finally:
    prefetch_iterator.threading = saved
  # semantic labels for the model
  labels = []
  last_next_ok = True
  pending_next = False
  for ev in sched.events:
    if ev[0] == 'next' and ev[1] == 'producer':
      labels.append('LNext')
      pending_next = True
    elif ev[0] == 'acquire' and ev[1] == 'producer':
      # the producer enters a critical section either to put an item or to record the failure; decided below
      labels.append('PCRIT')
    elif ev[0] == 'pass_wait' and ev[1] == 'producer' and ev[2]:
      labels.append('LWake')
    elif ev[0] == 'pass_wait' and ev[1] == 'main':
      labels.append('LGet')
  main_exc = [t.exc for t in sched.threads if t.name == 'main'][0]
  return {'obs': obs, 'labels': labels, 'trace': sched.trace, 'deadlock': sched.deadlock, 'main_exc': repr(main_exc) if main_exc else None,
          'nsteps': len(sched.trace)}


def resolve_labels(labels, items, fail):
  """PCRIT number i (0-based) puts item i if i < len(items), else records the failure / exhaustion."""
  out, k = [], 0
  for l in labels:
    if l == 'PCRIT':
      out.append('LPut' if k < len(items) else 'LFail')
      k += 1
    else:
      out.append(l)
  return out


def prefetch_iterator_cases(payload):
  out = []
  for c in payload:
    items, fail, size = c['items'], c['fail'], c['size']
    runs = []
    if c['mode'] == 'dfs':
      def once(prefix):
        r = prefetch_iterator_run(items, fail, size, choices=prefix)
        r['labels'] = resolve_labels(r['labels'], items, fail)
        runs.append(r)
        return r['trace']
      n, complete = coop.explore(once, c['max_runs'])
      out.append({'runs': [{k: v for k, v in r.items() if k != 'trace'} for r in runs], 'complete': complete})
    else:
      rng = random.Random(c['seed'])
      for _ in range(c['max_runs']):
        r = prefetch_iterator_run(items, fail, size, rng=rng)
        r['labels'] = resolve_labels(r['labels'], items, fail)
        runs.append({k: v for k, v in r.items() if k != 'trace'})
      out.append({'runs': runs, 'complete': False})
  return out


def real_thread_cases(payload):
  """the unmodified class with real threads and random delays"""
  import time
  out = []
  for c in payload:
    rng = random.Random(c['seed'])

    def src():
      for x in c['items']:
        if rng.random() < 0.5:
          time.sleep(rng.random() * 0.002)
        yield x
      if c['fail']:
        raise Boom()
    it = prefetch_iterator.PrefetchIterator(src(), c['size'])
    obs = []
    for _ in range(len(c['items']) + 2):
      if rng.random() < 0.5:
        time.sleep(rng.random() * 0.002)
      try:
        obs.append(['item', next(it)])
      except StopIteration:
        obs.append(['stop'])
      except Boom:
        obs.append(['err'])
    out.append(obs)
  return out


# ---------------------------------------------------------------------------------------------
def prefetch_to_device_cases(payload):
  out = []
  for c in payload:
    def go():
      obs = []
      try:
        for x in jax_utils.prefetch_to_device(source([{'a': np.full((1, 2), v), 'b': np.full((1,), -v)} for v in c['items']], c['fail']), c['size']):
          assert x['a'].shape == (1, 2) and float(x['a'][0, 0]) == -float(x['b'][0])
          obs.append(['item', int(x['a'][0, 0])])
        obs.append(['stop'])
      except Boom:
        obs.append(['err'])
      return obs
    out.append(common_safe(go))
  return out


def common_safe(fn):
  try:
    return {'ok': fn()}
  except Exception as e:  # pylint: disable=broad-except
    return {'err': type(e).__name__, 'msg': str(e)[:200]}


def pad_cases(payload):
  out = []
  orig = jax.local_device_count
  for c in payload:
    b, d, mdb = c['b'], c['d'], c['mdb']
    seen = {}

    def f(params, batch, extra=None, *, flag=None):
      # stands for a pmapped per-example function: sees (d, db, ...) arrays
      x = batch['x']
      seen['shape'] = list(x.shape)
      seen['params_untouched'] = params == 'static-params'
      y = x * 2 + 1
      if extra is not None:
        y = y + extra[..., None] * 0 + extra.reshape(extra.shape + (1,) * (y.ndim - extra.ndim))
      return {'y': y, 'z': batch['z'] * 3}
    jax.local_device_count = lambda: d
    try:
      def go():
        x = np.arange(b * 2, dtype=np.int64).reshape(b, 2)
        z = np.arange(b, dtype=np.int64)
        extra = np.arange(b, dtype=np.int64) * 10 if c.get('extra') else None
        wrapped = jax_utils.pad_shard_unpad(f, static_argnums=(0,), static_argnames=('flag',))
        kw = {'flag': 'static'}
        if mdb is not None:
          kw['min_device_batch'] = mdb
        args = ('static-params', {'x': x, 'z': z}) + ((extra,) if extra is not None else ())
        r = wrapped(*args, **kw)
        want_y = x * 2 + 1 + (extra[:, None] if extra is not None else 0)
        return {'ok_values': bool((r['y'] == want_y).all()) and bool((r['z'] == z * 3).all()) and r['y'].shape == want_y.shape,
                'inner_shape': seen['shape'], 'params_untouched': seen['params_untouched'],
                'inputs_unchanged': bool((x == np.arange(b * 2).reshape(b, 2)).all())}
      out.append(common_safe(go))
    finally:
      jax.local_device_count = orig
  return out


def scan_cases(payload):
  out = []
  for c in payload:
    shape, axis, keepdims = tuple(c['shape']), tuple(c['axis']), c['keepdims']
    def go():
      xs = jnp.arange(int(np.prod(shape)), dtype=jnp.int64).reshape(shape) + 1
      def body(carry, x):
        carry = carry * 3 + jnp.sum(x)
        return carry % 1000003, x * 2 + carry % 7
      cfin, ys = jax_utils.scan_in_dim(body, jnp.zeros((), jnp.int64), xs, axis=axis, keepdims=keepdims, unroll=c.get('unroll', 1))
      # reference: nested python loops over the chosen axes, in order
      xn = np.asarray(xs)
      carry = 0
      ysn = np.zeros_like(xn)
      for idx in itertools.product(*[range(shape[a]) for a in axis]):
        sl = [slice(None)] * xn.ndim
        for a, i in zip(axis, idx):
          sl[a] = i
        x = xn[tuple(sl)]
        u = carry * 3 + int(x.sum())          # the body adds u % 7 (before reducing the carry)
        carry = u % 1000003
        ysn[tuple(sl)] = x * 2 + u % 7
      # raw observations for the model (Model/ScanNd.v): per step of the nested loops the sum of the slice handed to the body and the
      # offset the body added to it (taken from the real outputs), nested in the order of the scanned axes
      yn = np.asarray(ys)
      def nest(prefix, rest):
        if not rest:
          sl = [slice(None)] * xn.ndim
          for a, i in zip(axis, prefix):
            sl[a] = i
          d = (yn[tuple(sl)] - 2 * xn[tuple(sl)]) if yn.shape == xn.shape else np.zeros(1)
          return [int(xn[tuple(sl)].sum()), int(np.asarray(d).reshape(-1)[0]), bool((np.asarray(d) == np.asarray(d).reshape(-1)[0]).all())]
        return [nest(prefix + [i], rest[1:]) for i in range(shape[rest[0]])]
      return {'carry_ok': int(cfin) == carry, 'ys_ok': bool((np.asarray(ys) == ysn).all()) and ys.shape == xn.shape, '_raw': {'nest': nest([], list(axis)), 'cfin': int(cfin)}}
    out.append(common_safe(go))
  return out


def reshape_cases(payload):
  out = []
  orig = jax.local_device_count
  for c in payload:
    d, n = c['d'], c['n']
    def go():
      r = {}
      x = np.arange(d * n * 3).reshape(d * n, 3)
      jax.local_device_count = lambda: d
      try:
        s = common_utils.shard({'a': x})['a']
      finally:
        jax.local_device_count = orig
      r['shard'] = s.shape == (d, n, 3) and bool((s.reshape(d * n, 3) == x).all())
      forest = [{'m': np.full((2,), i), 'k': {'q': np.array(i * 2)}} for i in range(n)]
      st = common_utils.stack_forest(forest)
      r['stack_forest'] = st['m'].shape == (n, 2) and bool((st['m'][:, 0] == np.arange(n)).all()) and bool((st['k']['q'] == np.arange(n) * 2).all())
      labels = np.arange(n) % 4
      oh = common_utils.onehot(jnp.asarray(labels), 4, on_value=2.0, off_value=-1.0)
      r['onehot'] = oh.shape == (n, 4) and all(float(oh[i, j]) == (2.0 if j == labels[i] else -1.0) for i in range(n) for j in range(4))
      # any integer label dtype, any number of classes (also more classes than the label dtype can count), any label rank
      K, dt = c.get('classes', 4), np.dtype(c.get('ldtype', 'int32'))
      top = min(K - 1, int(np.iinfo(dt).max))
      lab = np.asarray([(i * c.get('stride', 1) + c.get('off', 0)) % (top + 1) for i in range(n * 2)]).astype(dt).reshape(n, 2)
      lab[-1, -1] = top
      oh = np.asarray(common_utils.onehot(jnp.asarray(lab) if c.get('as_jax', True) else lab, K))
      want = np.zeros((n, 2, K), dtype=np.float32)
      for i in range(n):
        for j in range(2):
          want[i, j, int(lab[i, j])] = 1.0
      r['onehot_any_dtype'] = oh.shape == want.shape and bool((oh == want).all())
      # raw observations for the model (Model/Host.v shard / stack_forest / onehot)
      xs1 = np.arange(d * n) * 3 + 1
      jax.local_device_count = lambda: d
      try:
        s1 = np.asarray(common_utils.shard(xs1))
      finally:
        jax.local_device_count = orig
      forest1 = [[np.asarray(i * 5 + c.get('off', 0)), np.asarray(-i)] for i in range(n)]
      st1 = common_utils.stack_forest(forest1)
      lab1 = [int(v) for v in lab.reshape(-1)][:6] + [-1, K, K + 3]
      oh1 = np.asarray(common_utils.onehot(jnp.asarray(lab1, dtype=jnp.int64), min(K, 12), on_value=5, off_value=-2))
      r['_raw'] = {'shard': [xs1.tolist(), s1.tolist()], 'forest': [[[int(a) for a in t] for t in forest1], [np.asarray(l).tolist() for l in st1]],
                   'onehot': [lab1, min(K, 12), oh1.astype(np.int64).tolist()]}
      devs = [jax.devices()[0]] * d
      rep = jax_utils.replicate({'w': jnp.arange(3.0)}, devices=devs)
      r['replicate'] = rep['w'].shape == (d, 3) and bool((rep['w'] == jnp.arange(3.0)[None]).all())
      un = jax_utils.unreplicate(rep)
      r['unreplicate'] = un['w'].shape == (3,) and bool((un['w'] == jnp.arange(3.0)).all())
      return r
    out.append(common_safe(go))
  return out


def main(payload):
  res = {}
  for key, fn in (('piter', prefetch_iterator_cases), ('preal', real_thread_cases), ('p2d', prefetch_to_device_cases), ('pad', pad_cases),
                  ('scan', scan_cases), ('reshape', reshape_cases)):
    if key in payload:
      res[key] = fn(payload[key])
  return res


if __name__ == '__main__':
  common.worker_main(main)
