"""Implementation side of C01: init/apply purity and the mutability contract."""
import impl_linen as L
import common
import copy
import jax
import jax.numpy as jnp
import numpy as np
import flax
from flax.core import freeze


def snapshot(variables, module, rngs, x):
  def walk(v):
    if isinstance(v, flax.core.FrozenDict):
      return ('f', id(v), walk(v._dict))
    if isinstance(v, dict):
      return ('d', id(v), tuple((k, walk(x_)) for k, x_ in v.items()))
    if isinstance(v, tuple):
      return ('t', tuple(walk(e) for e in v))
    return ('a', id(v), np.asarray(v).tobytes(), str(np.asarray(v).dtype), np.asarray(v).shape)
  mod = {k: repr(v) for k, v in vars(module).items() if k not in ('_state', '_id')}
  return (walk(variables), mod, module.scope is None, {k: L.kd(v) for k, v in rngs.items()}, np.asarray(x).tobytes())


def dict_ids(v, acc):
  if isinstance(v, (dict, flax.core.FrozenDict)):
    acc.add(id(v))
    if isinstance(v, flax.core.FrozenDict):
      acc.add(id(v._dict))
    for x in v.values():
      dict_ids(x, acc)
  return acc


def run_case(c, pid):
  prog = c['prog']
  m = L.top_module(prog, pid)
  x = jnp.asarray(np.array(c['x'], dtype=np.int64))
  out = {}
  # ---- init (default mutable) with output, and Module.init
  ini = L.run_init(m, x, c['streams'], with_output=True)
  out['init'] = {k: v for k, v in ini.items() if k != 'raw'}
  if 'err' in ini:
    return out
  ini2 = L.run_init(m, x, c['streams'], with_output=False)
  out['init_vars_only_equal'] = ini2.get('vars') == ini['vars']
  variables = ini['raw']
  if c.get('frozen'):
    variables = freeze(variables)
  # optional edits of the variables before apply (drop a collection / a leaf) to exercise the error paths
  variables = jax.tree_util.tree_map(lambda a: a, variables)
  if c.get('drop_col') and c['drop_col'] in variables:
    variables = {k: v for k, v in variables.items() if k != c['drop_col']}
  if c.get('empty_col') and c['empty_col'] in variables:
    # the caller hands in an EMPTY collection (e.g. {'params': p, 'cache': {}}): the run must fill its own copy, not the caller's dict
    variables = {k: ({} if k == c['empty_col'] else v) for k, v in variables.items()}
    if c.get('frozen'):
      variables = freeze(variables)
  if c.get('ordered'):
    # the caller keeps its variables in dict SUBCLASSES (OrderedDict at every level): still the caller's own objects
    import collections

    def to_ordered(v):
      return collections.OrderedDict((k, to_ordered(x_)) for k, x_ in v.items()) if isinstance(v, dict) else v
    if not isinstance(variables, flax.core.FrozenDict):
      variables = to_ordered(variables)
  out['apply_vars_in'] = L.canon_vars(variables)
  mutable = L.dec_filter(c['mutable'])
  mutable_before = copy.deepcopy(mutable) if isinstance(mutable, list) else None
  rngs = L.rng_dict(c['streams'])
  before = snapshot(variables, m, rngs, x)
  runs = []
  for _ in range(c['repeat']):
    runs.append(L.run_apply(m, variables, x, c['streams'], mutable))
  after = snapshot(variables, m, rngs, x)
  out['apply'] = runs[0]
  out['repeat_equal'] = all(r == runs[0] for r in runs)
  out['inputs_untouched'] = before == after
  # no dict of the returned tree is a dict of the supplied tree
  if 'err' not in runs[0] and mutable is not False:
    L_ = m.apply(variables, x, rngs=rngs, mutable=mutable)
    out['no_shared_dicts'] = not (dict_ids(L_[1], set()) & dict_ids(variables, set()))
  # observation features: same output with intermediates mutable / capture_intermediates
  if 'err' not in runs[0]:
    base = runs[0]['out']
    obs = {}
    for name, kw, mut in (('intermediates_mutable', {}, ['intermediates', 'aux']),
                          ('capture', {'capture_intermediates': True}, ['intermediates'])):
      mm = mutable
      if mm is False:
        mm2 = mut
      else:
        from flax.core.scope import union_filters
        mm2 = union_filters(mm, mut)
      r = L.run_apply(m, variables, x, c['streams'], mm2, **kw)
      obs[name] = r.get('out', r.get('err'))
    out['observation'] = obs
    out['base_out'] = base
    # capture_intermediates with the caller's own `mutable`: flax adds 'intermediates' itself; everything but that collection is as in the base run
    rc = L.run_apply(m, variables, x, c['streams'], mutable, capture_intermediates=True) if mutable is not False else {'out': base, 'vars': runs[0].get('vars')}
    strip = lambda r: {k: v for k, v in (r.get('vars') or {}).items() if k != 'intermediates'}
    out['capture_native'] = {'out_same': rc.get('out') == base, 'err': rc.get('err'), 'state_same': strip(rc) == strip(runs[0])}
    # ... and the call after a capturing call, with the very same `mutable` object, is the base run again
    again = L.run_apply(m, variables, x, c['streams'], mutable)
    out['after_capture_equal'] = again == runs[0]
  out['mutable_untouched'] = mutable_before is None or mutable == mutable_before
  out['inputs_untouched_at_end'] = snapshot(variables, m, rngs, x) == before
  return out


def dict_valued(c):
  """variables whose value is a (nested) dict: the first value comes from an argument (init) or from the variables passed in (apply), later
  writes replace it by new dicts. Neither the argument nor the variables passed in may change, and repeating the call gives the same result."""
  import copy
  import flax
  import flax.linen as nn

  def nest(depth, val):
    return {'a': jnp.asarray(float(val)), **({'sub': nest(depth - 1, val + 1)} if depth > 0 else {})}

  def bump(d):
    return {k: (bump(v) if isinstance(v, dict) else v + 1.0) for k, v in d.items()}

  def total(d):
    return sum(total(v) if isinstance(v, dict) else float(v) for v in d.values())

  class Leaf(nn.Module):
    @nn.compact
    def __call__(self, d):
      v = self.variable('state', 't', lambda: d)
      for _ in range(c['writes']):
        v.value = bump(v.value)
      return total(v.value)

  class Top(nn.Module):
    @nn.compact
    def __call__(self, d):
      m = Leaf(name='leaf') if c['child'] else None
      if m is not None:
        return m(d)
      v = self.variable('state', 't', lambda: d)
      for _ in range(c['writes']):
        v.value = bump(v.value)
      return total(v.value)
  snap = lambda t: jax.tree_util.tree_map(lambda a: float(a), t)
  arg = nest(c['depth'], c['val'])
  arg0 = snap(arg)
  out = {}
  y1, v1 = Top().init_with_output(jax.random.key(0), arg)
  out['arg_after_init'] = snap(arg) == arg0
  y2, _ = Top().init_with_output(jax.random.key(0), arg)
  out['init_repeatable'] = float(y1) == float(y2)
  out['init_value'] = float(y1) == total(arg0) + c['writes'] * (c['depth'] + 1)
  v1 = flax.core.unfreeze(v1)
  v1s = snap(v1)
  y3, upd = Top().apply(v1, arg, mutable=['state'])
  out['vars_after_apply'] = snap(v1) == v1s and snap(arg) == arg0
  y4, _ = Top().apply(v1, arg, mutable=['state'])
  out['apply_repeatable'] = float(y3) == float(y4)
  out['apply_value'] = float(y3) == float(y1) + c['writes'] * (c['depth'] + 1)
  return out


def bound_case(c):
  """init / apply on (or with) modules that are already bound: the result is a function of the variables passed in, the bound instance and its
  variable store stay as they were"""
  import flax
  import flax.linen as nn
  from typing import Any
  I = jnp.int64

  class Enc(nn.Module):
    count: bool = False
    w: int = 2

    @nn.compact
    def __call__(self, x):
      k = self.param('k', lambda key: jnp.asarray(self.w, dtype=I))
      if self.count:
        n = self.variable('counter', 'n', lambda: jnp.asarray(0, dtype=I))
        if not self.is_initializing():
          n.value = n.value + 1
      return x * k + 1

  class Wrap(nn.Module):
    enc: Any = None

    @nn.compact
    def __call__(self, x):
      h = self.param('h', lambda key: jnp.asarray(3, dtype=I))
      y = self.enc(x)
      for _ in range(c['inner_calls'] - 1):
        y = self.enc(y)
      return y * h
  canon = lambda t: jax.tree_util.tree_map(lambda a: int(a), flax.core.unfreeze(t))
  x = jnp.asarray(c['x'], dtype=I)
  out = {}
  model = Wrap(Enc(count=c['count'], w=c['w']))
  v1 = model.init(jax.random.key(0), x)
  v2 = jax.tree_util.tree_map(lambda a: a * 2 + 1, v1)
  v1s, v2s = canon(v1), canon(v2)
  mut = ['counter'] if c['count'] else False
  run = lambda mod, v: (lambda r: [int(r[0]), canon(r[1])] if mut else [int(r), None])(mod.apply(v, x, mutable=mut))
  bound = model.bind(v1, mutable=mut)
  out['A_apply'] = run(bound, v2) == run(model, v2)
  out['A_repeat'] = run(bound, v2) == run(bound, v2)
  out['A_init'] = canon(bound.init(jax.random.key(3), x)) == canon(model.init(jax.random.key(3), x))
  out['A_bound_still_v1'] = int(bound(x)) == run(model, v1)[0] if not c['count'] else True
  if c['count']:
    live = model.bind(v1, mutable=['counter'])
    store = canon(live.variables)
    try:
      live.apply(v1, x)
      out['B_raises'] = False
    except flax.errors.ModifyScopeVariableError:
      out['B_raises'] = True
    out['B_store_untouched'] = canon(live.variables) == store
  enc = Enc(count=False, w=c['w'])
  ev = enc.init(jax.random.key(5), x)
  be = enc.bind(ev)
  before = int(be(x))
  ident = (be.name, be.scope, be.parent, be._id)
  outer, twin = Wrap(be), Wrap(Enc(count=False, w=c['w']))
  out['C_init'] = canon(outer.init(jax.random.key(6), x)) == canon(twin.init(jax.random.key(6), x))
  vv = jax.tree_util.tree_map(lambda a: a + 4, twin.init(jax.random.key(6), x))
  out['C_apply'] = int(outer.apply(vv, x)) == int(twin.apply(vv, x))
  out['C_field_untouched'] = all(a is b for a, b in zip(ident, (be.name, be.scope, be.parent, be._id)))
  try:
    out['C_field_same_output'] = int(be(x)) == before
  except Exception:  # pylint: disable=broad-except
    out['C_field_same_output'] = False
  out['inputs_untouched'] = canon(v1) == v1s and canon(v2) == v2s
  return out


def main(payload):
  if 'bound' in payload:
    res = []
    for c in payload['bound']:
      try:
        res.append({'ok': bound_case(c)})
      except Exception as e:  # pylint: disable=broad-except
        import traceback
        res.append({'err': type(e).__name__, 'tb': traceback.format_exc()[-900:]})
    return {'bound': res}
  if 'dict_valued' in payload:
    res = []
    for c in payload['dict_valued']:
      try:
        res.append({'ok': dict_valued(c)})
      except Exception as e:  # pylint: disable=broad-except
        import traceback
        res.append({'err': type(e).__name__, 'tb': traceback.format_exc()[-900:]})
    return {'dict_valued': res}
  res = []
  for i, c in enumerate(payload['cases']):
    try:
      res.append({'ok': run_case(c, i)})
    except Exception as e:  # pylint: disable=broad-except
      import traceback
      res.append({'err': type(e).__name__, 'tb': traceback.format_exc()[-900:]})
  return {'cases': res}


if __name__ == '__main__':
  common.worker_main(main)
