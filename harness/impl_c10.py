"""Implementation side of C10: builds real pytrees from descriptions, serialises, restores."""
import jaxcompat  # noqa: F401
import collections
import re
import struct as pystruct
import common
import numpy as np
import jax
import jax.numpy as jnp
import ml_dtypes  # noqa: F401
from flax import serialization as S
from flax import struct
from flax.core import FrozenDict, freeze

NT1 = collections.namedtuple('NT1', ['a', 'b'])
NT2 = collections.namedtuple('NT2', ['x'])
NT3 = collections.namedtuple('NT3', ['a', 'c'])
NTS = {'NT1': NT1, 'NT2': NT2, 'NT3': NT3}


@struct.dataclass
class DC1:
  # data fields with and without defaults (the harness always passes every field)
  p: object
  q: object = 0.5
  name: str = struct.field(pytree_node=False, default='static')


@struct.dataclass
class DC2:
  w: object = struct.field(default_factory=lambda: np.zeros((2,)))


@struct.dataclass
class DC3:
  p: object
  r: object


DCS = {'DC1': DC1, 'DC2': DC2, 'DC3': DC3}


def mk_array(d):
  rng = np.random.RandomState(d['seed'])
  shape = tuple(d['shape'])
  n = int(np.prod(shape)) if shape else 1
  dt = d['dtype']
  base = rng.randint(-4, 5, size=max(n, 1)).astype(np.float64)
  if dt == 'bool':
    a = (base > 0)
  elif dt.startswith('uint'):
    a = np.abs(base)
  else:
    a = base
  if dt.startswith('complex'):
    a = a + 1j * rng.randint(-3, 4, size=max(n, 1))
  npdt = jnp.dtype(dt) if dt in ('bfloat16', 'float8_e4m3fn', 'float8_e5m2', 'int4', 'uint4') else np.dtype(dt)
  a = a[:n].astype(npdt).reshape(shape)
  lay = d.get('layout', 'C')
  if lay == 'F' and a.ndim >= 2:
    a = np.asfortranarray(a)
  elif lay == 'strided' and a.ndim >= 1 and a.shape[0] > 0:
    big = np.zeros((a.shape[0] * 2,) + a.shape[1:], dtype=a.dtype)
    big[::2] = a
    a = big[::2]
  elif lay == 'neg' and a.ndim >= 1:
    a = a[::-1][::-1] if a.shape[0] == 0 else np.ascontiguousarray(a[::-1])[::-1]
  elif lay == 'bcast' and a.ndim >= 1 and a.shape[0] > 0:
    a = np.broadcast_to(a[:1], a.shape)
  elif lay == 'big' and npdt.itemsize > 1 and npdt.kind in 'iufc' and dt not in ('bfloat16',):
    a = a.astype(a.dtype.newbyteorder('>'))
  if d.get('jax') and lay == 'C':
    a = jnp.asarray(a)
  return a


def build(d):
  k = d['k']
  if k == 'arr':
    return mk_array(d)
  if k == 'npscalar':
    return np.dtype(d['dtype']).type(d['v'])
  if k == 'int':
    return int(d['v'])
  if k == 'float':
    return float(d['v'])
  if k == 'bool':
    return bool(d['v'])
  if k == 'none':
    return None
  if k == 'str':
    return d['v']
  if k == 'bytes':
    return bytes(d['v'])
  if k == 'complex':
    return complex(d['re'], d['im'])
  if k == 'dict':
    return {kk: build(v) for kk, v in d['kids']}
  if k == 'frozen':
    return FrozenDict({kk: build(v) for kk, v in d['kids']})
  if k == 'list':
    return [build(v) for v in d['xs']]
  if k == 'tuple':
    return tuple(build(v) for v in d['xs'])
  if k == 'named':
    return NTS[d['ty']](**{kk: build(v) for kk, v in d['kids']})
  if k == 'data':
    kw = {kk: build(v) for kk, v in d['kids']}
    return DCS[d['ty']](**kw)
  raise ValueError(d)


def fbits(x):
  return int.from_bytes(pystruct.pack('>d', float(x)), 'big')


def canon(x):
  """Canonical, JSON-able form of a pytree / state dict with container types and leaf bytes."""
  if isinstance(x, FrozenDict):
    return {'k': 'frozen', 'kids': [[k, canon(v)] for k, v in x.items()]}
  if isinstance(x, dict):
    return {'k': 'dict', 'kids': [[k, canon(v)] for k, v in x.items()]}
  if isinstance(x, tuple) and hasattr(x, '_fields'):
    return {'k': 'named', 'ty': type(x).__name__, 'kids': [[k, canon(getattr(x, k))] for k in x._fields]}
  if isinstance(x, list):
    return {'k': 'list', 'xs': [canon(v) for v in x]}
  if isinstance(x, tuple):
    return {'k': 'tuple', 'xs': [canon(v) for v in x]}
  if type(x) in DCS.values():
    import dataclasses
    fields = [f.name for f in dataclasses.fields(x) if f.metadata.get('pytree_node', True)]
    static = {f.name: getattr(x, f.name) for f in dataclasses.fields(x) if not f.metadata.get('pytree_node', True)}
    return {'k': 'data', 'ty': type(x).__name__, 'kids': [[k, canon(getattr(x, k))] for k in fields], 'static': static}
  if isinstance(x, (np.ndarray, jax.Array)):
    a = np.asarray(x)
    if not a.dtype.isnative:
      a = a.astype(a.dtype.newbyteorder('='))
    return {'k': 'arr', 'dtype': a.dtype.name, 'shape': list(a.shape), 'itemsize': a.dtype.itemsize,
            'hex': np.ascontiguousarray(a).tobytes('C').hex(), 'kind': 'jax' if isinstance(x, jax.Array) else 'np'}
  if isinstance(x, np.generic):
    a = np.asarray(x)
    return {'k': 'npscalar', 'dtype': a.dtype.name, 'itemsize': a.dtype.itemsize, 'hex': a.tobytes().hex()}
  if isinstance(x, bool):
    return {'k': 'bool', 'v': x}
  if isinstance(x, int):
    return {'k': 'int', 'v': x}
  if isinstance(x, float):
    return {'k': 'float', 'bits': fbits(x)}
  if x is None:
    return {'k': 'none'}
  if isinstance(x, str):
    return {'k': 'str', 'v': x}
  if isinstance(x, bytes):
    return {'k': 'bytes', 'v': list(x)}
  if isinstance(x, complex):
    return {'k': 'complex', 're': fbits(x.real), 'im': fbits(x.imag)}
  return {'k': 'unknown', 'repr': repr(type(x))}


def strip_kind(c):
  """restored arrays are numpy arrays: compare content only"""
  if isinstance(c, dict):
    return {k: strip_kind(v) for k, v in c.items() if k != 'kind'}
  if isinstance(c, list):
    return [strip_kind(v) for v in c]
  return c


def mutate_sd(sd, mut):
  """apply one mutation to a (copied) state dict: path = list of keys to the dict to mutate"""
  import copy
  sd = copy.deepcopy(jax.tree_util.tree_map(lambda x: x, sd))
  node = sd
  for k in mut['path']:
    node = node[k]
  if mut['op'] == 'drop':
    node.pop(mut['key'])
  elif mut['op'] == 'add':
    node[mut['key']] = 7
  elif mut['op'] == 'rename':
    node[mut['new']] = node.pop(mut['key'])
  elif mut['op'] == 'reverse':
    items = list(node.items())[::-1]
    node.clear()
    node.update(items)
  return sd


def classify(e):
  if isinstance(e, ValueError):
    msg = str(e)
    m = re.search(r'at path (\S*)', msg)
    path = m.group(1) if m else None
    if msg.startswith('The size of the list'):
      return {'err': 'ELength', 'path': path}
    if msg.startswith('The target dict keys'):
      return {'err': 'EMissingKeys', 'path': path}
    if msg.startswith('The field names') or msg.startswith('Missing field') or msg.startswith('Unknown field'):
      return {'err': 'EFields', 'path': path}
    return {'err': 'EOther', 'msg': msg[:100]}
  return {'err': 'EOther', 'exc': type(e).__name__}


def run_case(c):
  t = build(c['desc'])
  o = {'input': canon(t)}
  before = canon(t)
  try:
    sd = S.to_state_dict(t)
    o['sd'] = canon(sd)
  except Exception as e:  # pylint: disable=broad-except
    o['sd_err'] = type(e).__name__
    return o
  o['sd_roundtrip'] = _try(lambda: strip_kind(canon(S.from_state_dict(t, S.to_state_dict(t)))))
  o['sd_treedef_same'] = _try(lambda: jax.tree_util.tree_structure(S.from_state_dict(t, S.to_state_dict(t)), is_leaf=lambda z: z is None) == jax.tree_util.tree_structure(t, is_leaf=lambda z: z is None))
  o['by_threshold'] = {}
  saved = S.MAX_CHUNK_SIZE
  try:
    for th in c['thresholds']:
      S.MAX_CHUNK_SIZE = th
      def go():
        b = S.to_bytes(t)
        r = S.from_bytes(t, b)
        raw = S.msgpack_restore(S.msgpack_serialize(S.to_state_dict(t)))
        out = {'bytes': b.hex() if c.get('want_bytes') else None, 'nbytes': len(b), 'restored': strip_kind(canon(r)),
               'raw_restored': strip_kind(canon(raw)),
               # the restored value is the same pytree: jax sees the same node types at every level (a FrozenDict keeps plain dicts inside)
               'treedef_same': jax.tree_util.tree_structure(r, is_leaf=lambda z: z is None) == jax.tree_util.tree_structure(t, is_leaf=lambda z: z is None)}
        if c.get('want_bytes'):
          # the decoding half on its own: msgpack_restore of the real bytes, of strict prefixes and with a trailing byte
          out['restore_of_bytes'] = canon(S.msgpack_restore(b))
          ks = sorted(set([0, 1, len(b) // 3, len(b) // 2, len(b) - 1]) - {len(b)})
          out['prefix'] = [[k, _raises(lambda k=k: S.msgpack_restore(b[:k]))] for k in ks if k >= 0]
          out['extra'] = _raises(lambda: S.msgpack_restore(b + bytes([0xc0])))
        return out
      o['by_threshold'][str(th)] = _try(go)
  finally:
    S.MAX_CHUNK_SIZE = saved
  o['input_unchanged'] = canon(t) == before
  # msgpack_serialize without in_place on a raw dict tree must not modify it
  sd2 = S.to_state_dict(t)
  snap = canon(sd2)
  S.MAX_CHUNK_SIZE = c['thresholds'][0]
  try:
    S.msgpack_serialize(sd2)
  except Exception:  # pylint: disable=broad-except
    pass
  finally:
    S.MAX_CHUNK_SIZE = saved
  o['serialize_pure'] = canon(sd2) == snap
  # mutated states
  o['mut'] = []
  for mut in c.get('mutations', []):
    try:
      sdm = mutate_sd(sd, mut)
    except Exception as e:  # pylint: disable=broad-except
      o['mut'].append({'skip': type(e).__name__})
      continue
    try:
      r = S.from_state_dict(t, sdm)
      o['mut'].append({'sd': canon(sdm), 'ok': strip_kind(canon(r))})
    except Exception as e:  # pylint: disable=broad-except
      res = classify(e)
      res['sd'] = canon(sdm)
      o['mut'].append(res)
  return o


def _raises(fn):
  try:
    fn()
    return False
  except Exception:  # pylint: disable=broad-except
    return True


def _try(fn):
  try:
    return {'ok': fn()}
  except Exception as e:  # pylint: disable=broad-except
    return {'err': type(e).__name__, 'msg': str(e)[:200]}


def trainstate_case(c):
  import optax
  from flax.training import train_state
  params = build(c['params'])
  tx = {'sgd': optax.sgd(0.5), 'adam': optax.adam(1e-3), 'momentum': optax.sgd(0.1, momentum=0.9),
        'chain': optax.chain(optax.clip(1.0), optax.adam(1e-2))}[c['tx']]
  ts = train_state.TrainState.create(apply_fn=None, params=params, tx=tx)
  grads = jax.tree_util.tree_map(lambda x: jnp.ones_like(x), params)
  for _ in range(c['steps']):
    ts = ts.apply_gradients(grads=grads)
  fresh = train_state.TrainState.create(apply_fn=None, params=jax.tree_util.tree_map(jnp.zeros_like, params), tx=tx)
  out = {}
  saved = S.MAX_CHUNK_SIZE
  try:
    for th in c['thresholds']:
      S.MAX_CHUNK_SIZE = th
      b = S.to_bytes(ts)
      r = S.from_bytes(fresh, b)
      la, lb = jax.tree_util.tree_leaves(ts), jax.tree_util.tree_leaves(r)
      same = (jax.tree_util.tree_structure(ts) == jax.tree_util.tree_structure(r) and len(la) == len(lb) and
              all(np.asarray(x).dtype == np.asarray(y).dtype and np.asarray(x).shape == np.asarray(y).shape and
                  np.asarray(x).tobytes() == np.asarray(y).tobytes() for x, y in zip(la, lb)))
      out[str(th)] = {'same': bool(same), 'type_ok': type(r) is type(ts), 'step': int(r.step)}
  finally:
    S.MAX_CHUNK_SIZE = saved
  return out


def main(payload):
  res = {'cases': [run_case(c) for c in payload.get('cases', [])]}
  if 'trainstates' in payload:
    res['trainstates'] = [_try(lambda c=c: trainstate_case(c)) for c in payload['trainstates']]
  return res


if __name__ == '__main__':
  common.worker_main(main)
