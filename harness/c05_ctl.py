"""C05, functional core: lift.cond / switch / while_loop against Model/LiftCtl.v (bodies in the statement language both sides interpret)
and against the same bodies as plain Python control flow on the scope."""
import common
from common import cN, cZ, cnat, cbool, clist, copt, cpair

COLS = ['params', 'state', 'aux', 'cache', 'fresh']
VARS = ['n', 's', 'w', 'a']
CI = {c: i + 1 for i, c in enumerate(COLS)}
VI = {v: i + 1 for i, v in enumerate(VARS + ['zz', 'new'])}


def gen_filter(rng, prefer=None):
  r = rng.random()
  if prefer is not None and r < 0.55:
    return prefer
  if r < 0.15:
    return ['all']
  if r < 0.22:
    return ['none']
  k = rng.randint(1, 3)
  names = rng.sample(COLS[:4], k)
  return ['names', names] if rng.random() < 0.75 else ['deny', names]


def in_filter(f, c):
  if f[0] == 'all':
    return True
  if f[0] == 'none':
    return False
  return (c in f[1]) if f[0] == 'names' else (c not in f[1])


def gen_expr(rng, cols, depth=2):
  r = rng.random()
  if depth <= 0 or r < 0.3:
    return ['const', rng.randint(-2, 3)] if rng.random() < 0.5 else ['carry']
  if r < 0.6:
    c = rng.choice(cols)
    return ['var', c, rng.choice(VARS[:2] if c != 'params' else ['w'])]
  return [rng.choice(['add', 'add', 'mul']), gen_expr(rng, cols, depth - 1), gen_expr(rng, cols, depth - 1)]


def gen_case(rng):
  present = rng.sample(COLS[:4], rng.randint(2, 4))
  variables = []
  for c in present:
    names = ['w'] if c == 'params' else rng.sample(VARS[:2], rng.randint(1, 2))
    variables.append([c, [[k, rng.randint(-3, 3)] for k in names]])
  mutable = gen_filter(rng, ['all'])
  kind = rng.choice(['while', 'while', 'cond', 'switch'])
  wellformed = rng.random() < 0.7
  if kind == 'while':
    carry_cols = [c for c in present if c != 'params' and in_filter(mutable, c)]
    if wellformed and carry_cols:
      cf = ['names', rng.sample(carry_cols, rng.randint(1, len(carry_cols)))]
      bf = ['all']
      writable = cf[1]
    else:
      cf, bf = gen_filter(rng), gen_filter(rng, ['all'])
      writable = present + (['fresh'] if rng.random() < 0.2 else [])
    body = []
    for _ in range(rng.randint(0, 3)):
      c = rng.choice(writable)
      names = [k for cc, kids in variables if cc == c for k, _ in kids] or ['n']
      k = rng.choice(names) if (wellformed or rng.random() < 0.8) else 'new'
      body.append(['put', c, k, gen_expr(rng, present)])
    body.insert(rng.randint(0, len(body)), ['carry', ['add', ['carry'], ['const', rng.randint(1, 2)]]])
    return {'kind': 'while', 'vars': variables, 'mutable': mutable, 'carry': rng.randint(0, 2), 'cond': rng.choice([['carry'], ['add', ['carry'], ['const', 1]]]),
            'limit': rng.randint(0, 5), 'body': body, 'carry_f': cf, 'bcast_f': bf}
  nb = 2 if kind == 'cond' else rng.randint(1, 4)
  vf = gen_filter(rng, ['all'])
  targets = []
  for _ in range(rng.randint(0, 2)):
    c = rng.choice(present + (['fresh'] if rng.random() < 0.15 else []))
    names = [k for cc, kids in variables if cc == c for k, _ in kids] or ['n']
    targets.append((c, rng.choice(names)))
  branches = []
  for _ in range(nb):
    b = [['put', c, k, gen_expr(rng, present)] for c, k in targets]
    if not wellformed and rng.random() < 0.4:
      b.append(['put', rng.choice(present), rng.choice(['zz', 'n']), ['const', 1]])
    b.append(['carry', gen_expr(rng, present)])
    branches.append(b)
  return {'kind': kind, 'vars': variables, 'mutable': mutable, 'carry': rng.randint(-2, 2), 'idx': rng.randint(0, 1) if kind == 'cond' else rng.randint(0, nb + 1),
          'branches': branches, 'vf': vf}


def cfilt(f):
  if f[0] == 'all':
    return '(FBool true)'
  if f[0] == 'none':
    return '(FBool false)'
  s = '(FSet %s)' % clist([cN(CI[c]) for c in f[1]])
  return s if f[0] == 'names' else '(FDeny %s)' % s


def cexpr(e):
  k = e[0]
  if k == 'const':
    return '(XConst %s)' % cZ(e[1])
  if k == 'carry':
    return 'XCarry'
  if k == 'var':
    return '(XVar %s %s)' % (cN(CI[e[1]]), cN(VI[e[2]]))
  return '(%s %s %s)' % ('XAdd' if k == 'add' else 'XMul', cexpr(e[1]), cexpr(e[2]))


def cstmts(b):
  return clist(['(KPut %s %s %s)' % (cN(CI[s[1]]), cN(VI[s[2]]), cexpr(s[3])) if s[0] == 'put' else '(KCarry %s)' % cexpr(s[1]) for s in b])


def cvars(v):
  return clist([cpair(cN(CI[c]), clist([cpair('(NExp %s)' % cN(VI[k]), '(VLeaf (SVec [%s]))' % cZ(z)) for k, z in kids])) for c, kids in v])


HEADER = '''From Flaxm Require Import Lib.Harness Model.Filters Model.Linen Model.Lift Model.LiftCtl.
Open Scope Z_scope.
Inductive kase :=
| KWhile (vars : cvars) (mut carry_f bcast_f : filt) (c0 : Z) (cond : cexpr) (limit : Z) (body : list cstmt) (expect : option (Z * cvars))
| KSwitch (vars : cvars) (mut vf : filt) (c0 : Z) (idx : nat) (branches : list (list cstmt)) (expect : option (Z * cvars)).
Definition cv_sub (a b : cvars) : bool :=
  forallb (fun ck => forallb (fun kv => match cv_entry b (fst ck) (fst kv) with Some n => node_eqv (snd kv) n | None => false end) (snd ck)) a.
Definition same (om : N -> bool) (r : pres Z) (expect : option (Z * cvars)) : bool :=
  match r, expect with
  | POk _ y xs, Some (y', xs') => Z.eqb y y' && cv_sub (filter (fun cv => om (fst cv)) xs) xs' && cv_sub xs' (filter (fun cv => om (fst cv)) xs)
  | PErr _, None => true
  | _, _ => false
  end.
Definition chk (k : kase) : bool :=
  match k with
  | KWhile vars mut cf bf c0 cond limit body expect =>
      match lift_while Z (kcond cond limit) (krun body) 12 (in_filter mut) cf bf vars c0 with
      | Some r => same (in_filter mut) r expect
      | None => false
      end
  | KSwitch vars mut vf c0 idx branches expect =>
      same (in_filter mut) (lift_switch Z (map (fun b xs m => krun b xs m c0) branches) idx vf (in_filter mut) vars) expect
  end.
'''


def run_ctl(chk):
  rng = chk.rng
  n = 1600 if chk.tier == 'thorough' else 160
  cases = [gen_case(rng) for _ in range(n)]
  W = 6
  results = common.run_impl_parallel('impl_c05_ctl.py', [{'cases': cases[i::W]} for i in range(W)], workers=W, timeout=3000)
  obs = [None] * n
  for k, r in enumerate(results):
    for j, o in enumerate(r['cases']):
      obs[k + W * j] = o
  rows = []
  stat = {'lifted_ok': 0, 'lifted_raises': 0, 'plain_differs_by_design': 0}
  for c, o in zip(cases, obs):
    if 'err' in o:
      chk.violation('oracle', 'a lift.%s case could not be run: %s' % (c['kind'], o['err']), {'case': c, 'tb': o.get('tb')})
      continue
    r = o['ok']
    lifted, plain = r['lifted'], r['plain']
    chk.count({'core_ctl': c}, 'ok' in lifted)
    stat['lifted_ok' if 'ok' in lifted else 'lifted_raises'] += 1
    if r['input_after'] != c['vars']:
      chk.violation('oracle', 'lift.%s changed the variables passed to apply' % c['kind'], {'case': c, 'after': r['input_after']})
    if 'ok' in lifted:
      # the lifted control flow succeeded: it must be the Python control flow on the scope
      canon = lambda u: sorted((cc, sorted(map(tuple, kids))) for cc, kids in u)
      if 'ok' not in plain or plain['ok']['y'] != lifted['ok']['y'] or canon(plain['ok']['upd']) != canon(lifted['ok']['upd']):
        chk.violation('oracle', 'lift.%s returned normally but differs from the equivalent Python control flow on the scope (result or updated collections)' % c['kind'],
                      {'case': c, 'lifted': lifted, 'plain': plain})
    elif 'ok' in plain:
      stat['plain_differs_by_design'] += 1
    expect = None
    if 'ok' in lifted:
      expect = '(%s, %s)' % (cZ(lifted['ok']['y']), cvars(lifted['ok']['upd']))
    if c['kind'] == 'while':
      term = '(KWhile %s %s %s %s %s %s %s %s %s)' % (cvars(c['vars']), cfilt(c['mutable']), cfilt(c['carry_f']), cfilt(c['bcast_f']), cZ(c['carry']), cexpr(c['cond']),
                                                     cZ(c['limit']), cstmts(c['body']), copt(expect))
    else:
      term = '(KSwitch %s %s %s %s %s %s %s)' % (cvars(c['vars']), cfilt(c['mutable']), cfilt(c['vf']), cZ(c['carry']), cnat(c['idx']),
                                                 clist([cstmts(b) for b in c['branches']]), copt(expect))
    rows.append((c, o, term))
  bad = common.coq_mismatches('c05_ctl', HEADER, [r[2] for r in rows], 'chk', shard=200)
  for i in bad[:8]:
    chk.violation('correspondence', 'Model/LiftCtl.v and flax.core.lift.%s disagree (result, updated collections, or whether the call raises); theorems C05_cond_* / C05_while_* no longer transfer' % rows[i][0]['kind'],
                  {'case': rows[i][0], 'observed': rows[i][1]['ok']})
  chk.cov['traces_validated_against_impl'] = chk.cov.get('traces_validated_against_impl', 0) + len(rows)
  chk.notes['core_control_flow'] = dict(stat, cases=n)
