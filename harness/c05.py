"""C05 -- Lifted jit/remat/cond/switch/while_loop/map_variables act like the plain code."""
import copy
import common
import linen_prog as LP
import c01 as C1
from common import cN, cZ, cnat, cbool, clist, copt, cpair

PROOF_FILES = ['Proofs/Lift.v', 'Proofs/LinenChild.v', 'Proofs/LiftCtl.v']
ASSUMPTIONS = [
    'jax.jit / jax.checkpoint / lax.cond / lax.switch / lax.while_loop evaluate the traced function like Python evaluates it (integer arithmetic); idealised, not verified',
    'the plain equivalent of a program is computed by the harness (linen_prog.plain_equivalent): a transformed class becomes a class with the transformed class name, cond / switch the '
    'selected branch, while_loop its unrolling; predicate, branch index and trip count are chosen per run by the harness',
    'branch / loop bodies set variables declared before and keep their shapes (lax requires it); all branches write the same variables; trip counts are >= 1',
    'keys drawn inside a jitted child are not compared with the plain program (nn.jit forks the RNGs at the call site: C09 covers the key algebra)',
]
HEADER = 'From Flaxm Require Import Lib.Harness Model.Filters Model.Linen.\n'


def strip(r):
  return {k: v for k, v in r.items() if k != 'trace'}


def keys_of(r):
  return sorted([e[1], e[2], e[3]] for e in r.get('trace', []) if e[0] == 'key')


def has_jit(prog):
  return any(s[0] == 'child' and len(s) == 5 and s[4] == 'jit' for body, _ in prog['classes'].values() for s in body)


def has_auto_lifted(prog):
  return any(s[0] == 'child' and len(s) == 5 and s[3] is None for body, _ in prog['classes'].values() for s in body)


def keys_outside_jit(trace, prog):
  return trace


def vary_sels(rng, n):
  """per-call static attributes; half of the time only the closure changes between calls (same branches and trip counts)"""
  first = LP.gen_sel(rng)
  out = [first]
  for _ in range(n - 1):
    out.append(dict(first, post=rng.choice([None, 1, 2, -1, 3])) if rng.random() < 0.5 else LP.gen_sel(rng))
  return out


def run(chk):
  rng = chk.rng
  thorough = chk.tier == 'thorough'
  chk.proofs(PROOF_FILES)
  cases = []
  for i in range(2500 if thorough else 200):
    n = rng.choice([1, 2, 3])
    base = LP.gen_program(rng, n, max_depth=rng.choice([1, 2, 3]), features={'param', 'var', 'varset', 'child', 'rng', 'perturb'})
    prog = LP.add_lifts(rng, base, n)
    ncalls = rng.randint(1, 3)
    muts = []
    for _ in range(ncalls):
      r = rng.random()
      muts.append(True if r < 0.45 else LP.gen_filter(rng))
    cases.append({'prog': prog, 'streams': rng.choice([['params'], ['params', 'dropout'], ['params', 'dropout', 'noise']]), 'mutables': muts,
                  'xs': [[rng.randint(-3, 3) for _ in range(n)] for _ in range(ncalls + 1)], 'sels': vary_sels(rng, ncalls + 1),
                  'drop_after_first': rng.choice([None, None, 'cache', 'batch_stats', 'perturbations'])})
  W = 14
  results = common.run_impl_parallel('impl_c05.py', [{'cases': cases[i::W]} for i in range(W)], workers=W, timeout=3000)
  obs = [None] * len(cases)
  for k, r in enumerate(results):
    for j, o in enumerate(r['cases']):
      obs[k + W * j] = o
  rows = []
  stat = {'calls': 0, 'errors': 0, 'lifted_children': 0, 'ctl': 0, 'oracle_compared': 0}
  for c, o in zip(cases, obs):
    lifted = sum(1 for body, _ in c['prog']['classes'].values() for s in body if s[0] == 'child' and len(s) == 5)
    ctl = sum(1 for body, _ in c['prog']['classes'].values() for s in body if s[0] == 'ctl')
    stat['lifted_children'] += lifted
    stat['ctl'] += ctl
    chk.count(c, lifted + ctl > 0)
    if 'err' in o:
      chk.violation('oracle', 'the program could not be run: %s' % o['err'], {'case': c, 'tb': o.get('tb')})
      continue
    L, P = o['ok']['lifted'], o['ok']['plain']
    auto = has_auto_lifted(c['prog'])
    # ---- oracle: the lifted program against the same program run as plain code (names coincide unless a transformed child is auto-named)
    li, pi = strip(L['init']), strip(P['init'])
    if ('err' in li) != ('err' in pi):
      chk.violation('oracle', 'init of the program with lifted transforms %s while the plain program %s' % ('fails' if 'err' in li else 'works', 'works' if 'err' in li else 'fails'),
                    {'case': c, 'lifted': li, 'plain': pi})
      continue
    if 'err' not in li and not auto:
      stat['oracle_compared'] += 1
      if li != pi:
        chk.violation('oracle', 'init of the program with lifted transforms differs from the plain program (output or variable tree)', {'case': c, 'lifted': li, 'plain': pi})
        continue
    bad = False
    for a, b, x, mut in zip(L.get('calls', []), P.get('calls', []), c['xs'][1:], c['mutables']):
      ra, rb = strip(a['res']), strip(b['res'])
      if ('err' in ra) != ('err' in rb):
        chk.violation('oracle', 'apply of the program with lifted transforms %s while the plain program %s' % ('fails' if 'err' in ra else 'works', 'works' if 'err' in ra else 'fails'),
                      {'case': c, 'x': x, 'mutable': mut, 'lifted': ra, 'plain': rb})
        bad = True
        break
      if 'err' in ra:
        break
      if not auto and not has_jit(c['prog']) and keys_of(a['res']) != keys_of(b['res']):
        chk.violation('oracle', 'the keys drawn by the program with lifted remat / map_variables / control flow differ from the keys of the plain program',
                      {'case': c, 'x': x, 'lifted_keys': keys_of(a['res']), 'plain_keys': keys_of(b['res'])})
        bad = True
        break
      if not auto and (ra != rb or a['vars_in'] != b['vars_in']):
        chk.violation('oracle', 'apply of the program with lifted transforms differs from the plain program (output, or set / values of the updated mutable collections)',
                      {'case': c, 'x': x, 'mutable': mut, 'lifted': ra, 'plain': rb})
        bad = True
        break
    if bad:
      continue
    # ---- model: Model/Linen.v on the plain equivalent (transformed class names, control flow resolved) predicts the lifted run
    x0 = c['xs'][0]
    pe0 = LP.plain_equivalent(c['prog'], c['sels'][0])
    row = ['(agree %s %s [] %s %s)' % (LP.cenv(pe0, {'deny': 'intermediates'}, c['streams']), cN(pe0['top']), LP.cvec(x0), C1.cexp(L['init'], True))]
    for a, x, mut, sel in zip(L.get('calls', []), c['xs'][1:], c['mutables'], c['sels'][1:]):
      stat['calls'] += 1
      stat['errors'] += 'err' in a['res']
      pe = LP.plain_equivalent(c['prog'], sel)
      res = a['res']
      if 'err' in res and ctl:
        # lax traces every branch / the loop body abstractly: only failing is compared for programs with control statements
        row.append('(match apply_m %s %s %s %s with Err _ => true | Ok _ => false end)' % (LP.cenv(pe, mut, c['streams']), cN(pe['top']), LP.cvtree(a['vars_in']), LP.cvec(x)))
      else:
        row.append('(agree %s %s %s %s %s)' % (LP.cenv(pe, mut, c['streams']), cN(pe['top']), LP.cvtree(a['vars_in']), LP.cvec(x), C1.cexp(res, mut is not False)))
    rows.append((c, o, '(' + ' && '.join(row) + ')'))
  chk.sample({'case': cases[0], 'observed_init': strip(obs[0].get('ok', {}).get('lifted', {}).get('init', {}))})
  hdr = HEADER + C1.CHK + 'Definition chk (b : bool) : bool := b.\n'
  bad = common.coq_mismatches('c05', hdr, [r[2] for r in rows], 'chk', shard=25, timeout=1200)
  for i in bad[:8]:
    c, o, _ = rows[i]
    chk.violation('correspondence', 'Model/Linen.v on the plain equivalent (transformed class names, control flow resolved) and the program run with the lifted transforms disagree on init or '
                  'apply (output, returned collections, names, or error class); theorems C05_* no longer transfer', {'case': c, 'observed_lifted': o['ok']['lifted']})
  chk.cov['traces_validated_against_impl'] = len(rows)
  # nn.jit on a method of a setup-style module (outside the program grammar): keys before / inside / after the jitted call, over repeated applies
  jm = [{'depth': rng.choice([1, 1, 2]), 'inside': rng.randint(1, 2), 'own': rng.random() < 0.5, 'seq': [rng.choice(['plain', 'jit', 'jit']) for _ in range(rng.randint(2, 4))] + ['plain'],
         'applies': 3, 'seed': rng.randint(0, 99)} for _ in range(40 if chk.tier == 'thorough' else 8)]
  jm += [{'kind': 'class', 'depth': rng.randint(1, 2), 'inside': rng.randint(1, 2), 'own': rng.random() < 0.5, 'seq': [], 'applies': 3, 'seed': rng.randint(0, 99)}
         for _ in range(12 if chk.tier == 'thorough' else 3)]
  jm += [{'kind': 'helper', 'depth': rng.randint(1, 2), 'inside': rng.randint(1, 2), 'own': False, 'seq': [], 'applies': 3, 'seed': 0} for _ in range(6 if chk.tier == 'thorough' else 2)]
  # counters two or three levels below a module whose helper method is lifted, used in plain code around the lifted call
  sm = [{'depth': rng.randint(0, 2), 'seq': ['plain'] * rng.randint(0, 1) + [rng.choice(['plain', 'lifted']) for _ in range(rng.randint(1, 3))] + ['lifted', 'plain']}
        for _ in range(12 if chk.tier == 'thorough' else 4)]
  sr = common.run_impl('impl_c05.py', {'state_methods': sm}, timeout=1500)['state_methods']
  for c, r in zip(sm, sr):
    chk.count({'state_method': c}, c['depth'] >= 1)
    if 'err' in r:
      chk.violation('oracle', 'a setup-style module with a lifted helper method could not be applied: %s' % r['err'], {'case': c, 'tb': r.get('tb')})
      continue
    want = r['ok']['plain']
    for kind, got in r['ok'].items():
      if got != want:
        chk.violation('oracle', 'a helper method under nn.%s that calls a setup-defined sub-module %d levels above its counter, used in plain code before and after: outputs or the updated '
                      'mutable collection differ from the undecorated module' % (kind, c['depth']), {'case': c, 'lifted': got, 'plain': want})
  jr = common.run_impl('impl_c05.py', {'jit_methods': jm}, timeout=1500)['jit_methods']
  for c, r in zip(jm, jr):
    chk.count({'jit_method': c}, 'jit' in c['seq'] or c.get('kind') == 'helper')
    if 'err' in r:
      chk.violation('oracle', 'a module with an nn.jit-ed method and setup sub-modules could not be applied: %s' % r['err'], {'case': c, 'tb': r.get('tb')})
    elif c.get('kind') == 'helper':
      h = r['ok']
      for name, o in h['helper'].items():
        if o['names'] != h['plain_names']:
          chk.violation('oracle', 'init of a module whose nn.%s-ed helper method creates auto-named sub-modules gives another variable tree than the undecorated module (a sub-module is '
                        'silently shared or renamed)' % name, {'case': c, 'lifted_names': o['names'], 'plain_names': h['plain_names']})
        elif any(y != h['want'] for y in o['outs']):
          chk.violation('oracle', 'apply of a module with an nn.%s-ed helper method that creates sub-modules differs from the undecorated module on the same variables (first apply = '
                        'trace, later applies = cache hits)' % name, {'case': c, 'outputs': o['outs'], 'expected': h['want']})
    else:
      # inside nn.jit the keys are another deterministic function of the call site (the stream is materialised at the boundary); the draws made in plain code must be those of
      # the undecorated module (the counters advance as if the body had run), and every apply -- the one that traces and the cache hits -- must repeat the first
      pos, plain_pos = 0, []
      if c.get('kind') == 'class':
        pos = (c['inside'] + 1) * (c['depth'] + (1 if c['own'] else 0)) + 1
        plain_pos = [pos - 1]
      for step in c['seq']:
        n = c['depth'] if step == 'plain' else c['inside'] * c['depth'] + (1 if c['own'] else 0)
        if step == 'plain':
          plain_pos += list(range(pos, pos + n))
        pos += n
      jr_, pr_ = r['ok']['jit'], r['ok']['plain']
      if any(len(run) != pos for run in jr_ + pr_):
        chk.violation('oracle', 'an nn.jit-ed method returned another number of keys than the undecorated one', {'case': c, 'observed': r['ok']})
      elif any(run != jr_[0] for run in jr_) or any(run != pr_[0] for run in pr_):
        chk.violation('oracle', 'repeating apply with identical rngs gives other keys (an nn.jit cache hit does not behave like the call that traced)', {'case': c, 'observed': r['ok']})
      elif any(jr_[0][i] != pr_[0][i] for i in plain_pos):
        chk.violation('oracle', 'keys drawn in plain code before / after an nn.jit-ed method differ from those of the same module without the decorator (the rng counters are not '
                      'advanced as if the body had run)', {'case': c, 'observed': r['ok']})
      elif len({tuple(k) for k in jr_[0]}) != len(jr_[0]):
        chk.violation('oracle', 'a key is handed out twice within one apply around an nn.jit-ed method', {'case': c, 'observed': r['ok']})
  pr = common.run_impl('impl_c05.py', {'probe': True})
  if pr['F26-jit-stale-trace-closure']['fails']:
    chk.violation('oracle', 'nn.jit re-uses a trace made for another module instance: instances of a jitted class that differ only in a closure-valued attribute return the result of an '
                  'earlier closure (fixed as F26: _HashableProxy compared hashes only, and functions hash by address)', pr['F26-jit-stale-trace-closure'])
  wl = pr.get('while_loop', {})
  if wl.get('plain') != {'y': 15.0, 'acc': 3, 'n_cond': 0}:
    chk.violation('oracle', 'nn.while_loop with a carried collection differs from the Python loop (x -> 2x + 1 three times, acc counted)', {'observed': wl.get('plain')})
  cwr = wl.get('cond_writes', {})
  if 'err' not in cwr and cwr != {'y': 15.0, 'acc': 3, 'n_cond': 4}:
    chk.violation('oracle', 'a write by the condition of nn.while_loop to a carried collection neither raises nor takes effect as in the Python loop (it is silently dropped)',
                  {'observed': cwr, 'python_loop': {'y': 15.0, 'acc': 3, 'n_cond': 4}})
  # a module that receives bound sub-modules through its dataclass fields (any declaration order), lifted as a whole
  fcases = []
  pool = ['encoder', 'decoder', 'b', 'a', 'z_last', 'head', 'm0', 'body']
  for i in range(160 if chk.tier == 'thorough' else 20):
    names = rng.sample(pool, rng.randint(2, 4))
    fcases.append({'names': names, 'ws': [rng.randint(2, 5) for _ in names], 'order': [rng.choice(names) for _ in range(rng.randint(2, 4))] if rng.random() < 0.4 else list(names),
                   'form': ['jit', 'remat', 'map_variables', 'cond', 'switch'][i % 5], 'pred': rng.random() < 0.7, 'created': rng.random() < 0.6, 'x': rng.randint(1, 4)})
  fr = common.run_impl_parallel('impl_c05_fields.py', [{'fields': fcases[i::4]} for i in range(4)], workers=4, timeout=1500)
  for k, r in enumerate(fr):
    for c, o in zip(fcases[k::4], r['fields']):
      chk.count({'field_modules': c}, c['names'] != sorted(c['names']))
      same = o['impl'] == o['ref']
      if not same and c['form'] == 'jit' and 'ok' in o['impl'] and 'ok' in o['ref']:
        same = o['impl']['ok'] == o['ref']['ok']
      if not same or 'err' in o['ref']:
        chk.violation('oracle', 'nn.%s of a module that receives sub-modules through its dataclass fields (declared in the order %s) differs from the plain module '
                      '(output, variable tree of init, or mutable updates)' % (c['form'], c['names']), {'case': c, 'lifted': o['impl'], 'plain': o['ref']})
  chk.notes['field_modules'] = {'cases': len(fcases)}
  for r in common.run_impl('impl_c05_fields.py', {'autoname': True}, timeout=900)['autoname']:
    chk.count({'autoname': r['case']}, True)
    if 'err' in r or not (r['same_tree'] and r['same_init_out'] and r['same_apply_out']):
      chk.violation('oracle', 'a lifted helper method / branch function that creates auto-named sub-modules (%s) differs from the plain code: variable tree of init, or outputs' % r['case'], r)
  import c05_ctl
  c05_ctl.run_ctl(chk)
  chk.notes['stats'] = stat
  chk.cov['rule'] = ('random compact module programs (C01 generator) in which 60% of the sub-modules are created from nn.jit / nn.remat / nn.map_variables(identity) classes (explicit and automatic '
                     'names) and nn.cond / nn.switch / nn.while_loop statements act on variables declared before; init then 1-3 applies on the same Module instance with changing `mutable` '
                     'filters and a collection dropped from the variables between calls. non-trivial = at least one lifted child or control statement')
  chk.cov['trusted_base'] = ['Coq 8.16.1 kernel + vm_compute', 'harness/c05.py, linen_prog.py (plain_equivalent), impl_linen.py, impl_c05.py', 'harness/jaxcompat.py', 'jax.jit, jax.checkpoint, lax control flow']
